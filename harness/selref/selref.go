// Package selref is the harness's own model of the documented path-selector language (README
// "Selector Language Guide" + property C09): a selector AST, its renderer and a reference evaluator.
// It shares no code with genql.
package selref

import (
	"fmt"
	"math"
	"regexp"
	"strconv"
	"strings"

	valpkg "verifharness/val"
)

type Dim struct {
	K    string `json:"k"` // i | each | range
	I    int    `json:"i,omitempty"`
	From int    `json:"from,omitempty"` // -1 = begin
	To   int    `json:"to,omitempty"`   // -1 = end
	// Lit: the index (K=i) or the range end (K=range) written as this decimal literal instead of I / To -
	// for values beyond every array and beyond the machine integers (2^31, 2^32, 2^63, 2^64-1, 10^20)
	Lit string `json:"lit,omitempty"`
}

type Pipe struct {
	Key  string `json:"key"`
	Type string `json:"type,omitempty"` // "", string, number, or an unknown type name
}

type Step struct {
	K     string `json:"k"` // key | idx | pipe
	Key   string `json:"key,omitempty"`
	Keep  bool   `json:"keep,omitempty"`
	Dims  []Dim  `json:"dims,omitempty"`
	Pipes []Pipe `json:"pipes,omitempty"`
}

type Part struct {
	Fn    string `json:"fn,omitempty"`
	Steps []Step `json:"steps"`
}

type Selector struct {
	Parts []Part `json:"parts"`
}

var bareKey = regexp.MustCompile(`^\w+$`)

func renderKey(k string) string {
	if bareKey.MatchString(k) {
		return k
	}
	return "'" + k + "'"
}

func (s *Selector) String() string {
	var parts []string
	for _, p := range s.Parts {
		var sb strings.Builder
		if p.Fn != "" {
			sb.WriteString(p.Fn + "=>")
		}
		first := true
		for _, st := range p.Steps {
			switch st.K {
			case "key":
				if !first {
					sb.WriteString(".")
				}
				sb.WriteString(renderKey(st.Key))
			case "idx":
				sb.WriteString("[")
				if st.Keep {
					sb.WriteString("keep=>")
				}
				for i, d := range st.Dims {
					if i > 0 {
						sb.WriteString(":")
					}
					switch d.K {
					case "i":
						if d.Lit != "" {
							sb.WriteString(d.Lit)
							break
						}
						sb.WriteString(strconv.Itoa(d.I))
					case "each":
						sb.WriteString("each")
					case "range":
						from, to := "begin", "end"
						if d.From >= 0 {
							from = strconv.Itoa(d.From)
						}
						if d.To >= 0 {
							to = strconv.Itoa(d.To)
						}
						if d.Lit != "" {
							to = d.Lit
						}
						sb.WriteString("(" + from + ":" + to + ")")
					}
				}
				sb.WriteString("]")
			case "pipe":
				sb.WriteString("{")
				for i, p := range st.Pipes {
					if i > 0 {
						sb.WriteString(", ")
					}
					sb.WriteString(renderKey(p.Key))
					if p.Type != "" {
						sb.WriteString("|" + p.Type)
					}
				}
				sb.WriteString("}")
			}
			first = false
		}
		parts = append(parts, sb.String())
	}
	return strings.Join(parts, "::")
}

// Outcome kinds of the reference evaluation.
type Unspecified struct{ Why string }

func (u *Unspecified) Error() string { return "unspecified: " + u.Why }

// MustFail means the documented meaning prescribes an error (wrong shape, index or bound outside
// the array, unknown function/type, non-numeric text under |number).
type MustFail struct{ Why string }

func (m *MustFail) Error() string { return "must fail: " + m.Why }

func unspec(f string, a ...any) error   { return &Unspecified{Why: fmt.Sprintf(f, a...)} }
func mustFail(f string, a ...any) error { return &MustFail{Why: fmt.Sprintf(f, a...)} }

// Funcs are the reference implementations of the top-level functions the harness uses.
var Funcs = map[string]func(v any) (any, error){
	"mix": func(v any) (any, error) {
		a, ok := v.([]any)
		if !ok {
			if _, isObj := v.(map[string]any); isObj {
				return nil, unspec("mix over an object")
			}
			return nil, mustFail("mix over %T", v)
		}
		return flattenAll(a), nil
	},
	"distinct": func(v any) (any, error) {
		a, ok := v.([]any)
		if !ok {
			return nil, mustFail("distinct over %T", v)
		}
		out := []any{}
		var prints []string
		for _, x := range a {
			p := fmt.Sprintf("%v", x)
			dup := false
			for i, o := range out {
				if deepEq(x, o) {
					dup = true
					break
				}
				if prints[i] == p {
					return nil, unspec("distinct over values that differ but print alike")
				}
			}
			if !dup {
				out = append(out, x)
				prints = append(prints, p)
			}
		}
		return out, nil
	},
	// registered by the harness through RegisterTopLevelFunction
	"vfcount": func(v any) (any, error) {
		a, ok := v.([]any)
		if !ok {
			return nil, mustFail("vfcount over %T", v)
		}
		return float64(len(a)), nil
	},
	"vfwrap": func(v any) (any, error) { return map[string]any{"w": v}, nil },
}

func flattenAll(a []any) []any {
	out := []any{}
	for _, x := range a {
		if s, ok := x.([]any); ok {
			out = append(out, flattenAll(s)...)
		} else {
			out = append(out, x)
		}
	}
	return out
}

func deepEq(a, b any) bool {
	switch x := a.(type) {
	case nil:
		return b == nil
	case map[string]any:
		y, ok := b.(map[string]any)
		if !ok || len(x) != len(y) {
			return false
		}
		for k, v := range x {
			w, ok := y[k]
			if !ok || !deepEq(v, w) {
				return false
			}
		}
		return true
	case []any:
		y, ok := b.([]any)
		if !ok || len(x) != len(y) {
			return false
		}
		for i := range x {
			if !deepEq(x[i], y[i]) {
				return false
			}
		}
		return true
	default:
		return a == b
	}
}

// Eval evaluates the selector on doc.
func Eval(s *Selector, doc any) (any, error) {
	// an index or bound that no machine integer can hold is outside every array: applied to an array it is an
	// error like any other out-of-range index; whether a selector holding one may already be rejected as a
	// whole (when the step is never applied, e.g. below a missing key) is left open
	huge := false
	for _, p := range s.Parts {
		for _, st := range p.Steps {
			for _, d := range st.Dims {
				if d.Lit != "" {
					if _, err := strconv.ParseInt(d.Lit, 10, 64); err != nil {
						huge = true
					}
				}
			}
		}
	}
	if huge {
		if v, err := evalParts(s, doc); err == nil {
			_ = v
			return nil, unspec("a literal beyond the machine integers in a step that is never applied")
		} else {
			return nil, err
		}
	}
	return evalParts(s, doc)
}

func evalParts(s *Selector, doc any) (any, error) {
	cur := doc
	for _, p := range s.Parts {
		v, err := evalSteps(cur, p.Steps)
		if err != nil {
			return nil, err
		}
		if p.Fn != "" {
			f, ok := Funcs[p.Fn]
			if !ok {
				return nil, mustFail("unknown top-level function %q", p.Fn)
			}
			v, err = f(v)
			if err != nil {
				return nil, err
			}
		}
		cur = v
	}
	return cur, nil
}

func evalSteps(v any, steps []Step) (any, error) {
	if len(steps) == 0 {
		return v, nil
	}
	if v == nil {
		return nil, nil // a missing key yields NULL and further steps stay NULL
	}
	st := steps[0]
	switch st.K {
	case "key":
		switch t := v.(type) {
		case map[string]any:
			return evalSteps(t[st.Key], steps[1:])
		case []any:
			// a key step maps over arrays: the rest of the path is applied to every element
			out := make([]any, len(t))
			for i, e := range t {
				r, err := evalSteps(e, steps)
				if err != nil {
					return nil, err
				}
				out[i] = r
			}
			return out, nil
		default:
			return nil, mustFail("key %q on %T", st.Key, v)
		}
	case "idx":
		a, ok := v.([]any)
		if !ok {
			return nil, mustFail("index step on %T", v)
		}
		r, err := evalDims(a, st)
		if err != nil {
			return nil, err
		}
		return evalSteps(r, steps[1:])
	case "pipe":
		switch t := v.(type) {
		case map[string]any:
			out := map[string]any{}
			for _, p := range st.Pipes {
				val, present := t[p.Key]
				switch p.Type {
				case "":
					out[p.Key] = val
				case "string":
					switch x := val.(type) {
					case string:
						out[p.Key] = x
					case bool:
						out[p.Key] = strconv.FormatBool(x)
					case float64:
						if x != math.Trunc(x) && math.Abs(x) < 1e15 && !math.IsNaN(x) {
							// a decimal text of the fraction; how many digits it shows is open (at least six decimals)
							out[p.Key] = valpkg.NumText(x)
							continue
						}
						if x != math.Trunc(x) || math.Abs(x) >= 1<<53 {
							return nil, unspec("|string on the fraction %v", x)
						}
						out[p.Key] = strconv.FormatInt(int64(x), 10)
					default:
						_ = present
						return nil, unspec("|string on %T", val)
					}
				case "number":
					if _, isText := val.(valpkg.NumText); isText {
						return nil, unspec("|number on the text of a fraction")
					}
					x, ok := val.(string)
					if !ok {
						if val == nil {
							return nil, unspec("|number on NULL")
						}
						return nil, unspec("|number on %T", val)
					}
					f, err := strconv.ParseFloat(x, 64)
					if err != nil {
						return nil, mustFail("|number on the non-numeric text %q", x)
					}
					if strings.TrimSpace(x) != x || strings.ContainsAny(x, "xXpP_iInN") {
						return nil, unspec("|number on exotic numeric text %q", x)
					}
					out[p.Key] = f
				default:
					return nil, mustFail("unknown pipe type %q", p.Type)
				}
			}
			return evalSteps(out, steps[1:])
		case []any:
			out := make([]any, len(t))
			for i, e := range t {
				r, err := evalSteps(e, steps)
				if err != nil {
					return nil, err
				}
				out[i] = r
			}
			return out, nil
		default:
			return nil, mustFail("pipe on %T", v)
		}
	}
	return nil, fmt.Errorf("selref: unknown step kind %q", st.K)
}

func evalDims(a []any, st Step) (any, error) {
	each := 0
	hasRange := false
	for _, d := range st.Dims {
		switch d.K {
		case "each":
			each++
		case "range":
			hasRange = true
		}
	}
	if len(st.Dims) == 0 {
		return nil, unspec("empty bracket")
	}
	if hasRange && len(st.Dims) > 1 {
		return nil, unspec("a range combined with further dimensions")
	}
	leafIsArray := false
	var sel func(v any, dims []Dim) (any, error)
	sel = func(v any, dims []Dim) (any, error) {
		if len(dims) == 0 {
			if _, ok := v.([]any); ok {
				leafIsArray = true
			}
			return v, nil
		}
		if v == nil {
			return nil, unspec("NULL element inside a multi-dimensional selection")
		}
		arr, ok := v.([]any)
		if !ok {
			return nil, mustFail("dimension selector on %T", v)
		}
		d := dims[0]
		switch d.K {
		case "i":
			if d.Lit != "" {
				return nil, mustFail("index %s outside an array of %d", d.Lit, len(arr))
			}
			if d.I >= len(arr) {
				return nil, mustFail("index %d outside an array of %d", d.I, len(arr))
			}
			return sel(arr[d.I], dims[1:])
		case "each":
			out := make([]any, len(arr))
			for i, e := range arr {
				r, err := sel(e, dims[1:])
				if err != nil {
					return nil, err
				}
				out[i] = r
			}
			return out, nil
		case "range":
			if d.Lit != "" {
				return nil, mustFail("range end %s outside an array of %d", d.Lit, len(arr))
			}
			from, to := d.From, d.To
			if from < 0 {
				from = 0
			}
			if to < 0 {
				to = len(arr)
			}
			if to > len(arr) || from > to {
				return nil, mustFail("range (%d:%d) outside an array of %d", from, to, len(arr))
			}
			return append([]any{}, arr[from:to]...), nil
		}
		return nil, fmt.Errorf("selref: unknown dim kind %q", d.K)
	}
	r, err := sel(a, st.Dims)
	if err != nil {
		return nil, err
	}
	if st.Keep || hasRange {
		return r, nil
	}
	l := len(st.Dims)
	if l > 1 && l > each && leafIsArray {
		return nil, unspec("array-valued leaves under a selection with a non-each dimension (flattening depth undocumented)")
	}
	// flatten the iteration structure: one nesting level per `each`, flattened to a single list
	out := r
	for i := 0; i < each-1; i++ {
		s, _ := out.([]any)
		flat := []any{}
		for _, x := range s {
			if xs, ok := x.([]any); ok {
				flat = append(flat, xs...)
			} else {
				flat = append(flat, x)
			}
		}
		out = flat
	}
	return out, nil
}

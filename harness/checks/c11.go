package checks

import (
	"fmt"

	"pgregory.net/rapid"
	"verifharness/val"
)

// C11 - queries never modify the caller's input document.

type C11Case struct {
	W     *WideQ `json:"w"`
	Plant int    `json:"plant"` // marker carrying vf_fail (-1: none)
	KSel  int    `json:"ksel"`  // selects the failing invocation: k = 1 + KSel mod N (0: no fault)
	Twice bool   `json:"twice,omitempty"`
	// FailAt, when > 0, is the explicit failing invocation (used by the grid; overrides KSel)
	FailAt int `json:"fail_at,omitempty"`
	// Scale: table t of the document is expanded to 200-320 rows (deep copies) by this recipe before anything runs:
	// strategies that only large tables take (in-place filtering, chunking, pooling) must leave the input alone too
	Scale *Scale `json:"scale,omitempty"`
}

func genC11(t *rapid.T) any {
	c := &C11Case{W: genWide(t, c11Constructs), Plant: -1}
	if rapid.IntRange(0, 2).Draw(t, "fault") == 0 {
		ms := c.W.markers()
		c.Plant = rapid.IntRange(0, maxInt(len(ms)-1, 0)).Draw(t, "plant")
		c.KSel = rapid.IntRange(1, 12).Draw(t, "ksel")
	}
	c.Twice = rapid.IntRange(0, 3).Draw(t, "twice") == 0
	if rows, _ := c.W.Doc["t"].([]any); len(rows) > 0 {
		if sc := genScale(t, 14, "scale"); sc != nil {
			sc.Rows = 200 + sc.Rows%121
			c.Scale = sc
		}
	}
	if rapid.IntRange(0, 7).Draw(t, "backrefkey") == 0 {
		// the caller's own data may use the key name that the engine uses for its back reference
		if rows, _ := c.W.Doc["t"].([]any); len(rows) > 0 {
			i := rapid.IntRange(0, len(rows)-1).Draw(t, "backrefrow")
			if row, ok := rows[i].(map[string]any); ok {
				row["<-"] = rapid.SampledFrom([]any{1.0, "x", map[string]any{"a": 1.0}, nil}).Draw(t, "backrefval")
			}
		}
	}
	if rapid.IntRange(0, 5).Draw(t, "oddelement") == 0 {
		// an element that is not an object (scalar, NULL, inner array) after some objects, in a table or in a
		// nested array: queries over it may fail part-way through - and leave the input as it was
		odd := rapid.SampledFrom([]any{7.0, "x", nil, []any{1.0}, true}).Draw(t, "oddvalue")
		var arrays []string
		for _, k := range keysOf(c.W.Doc) {
			if a, ok := c.W.Doc[k].([]any); ok && len(a) > 0 {
				arrays = append(arrays, k)
			}
		}
		if len(arrays) > 0 {
			k := rapid.SampledFrom(arrays).Draw(t, "oddtable")
			a := c.W.Doc[k].([]any)
			if rapid.Bool().Draw(t, "oddnested") {
				// into the first nested array of objects found in the rows
				for _, r := range a {
					rm, _ := r.(map[string]any)
					done := false
					for _, nk := range keysOf(rm) {
						if na, ok := rm[nk].([]any); ok && len(na) > 0 {
							if _, isObj := na[0].(map[string]any); isObj {
								rm[nk] = append(append([]any{}, na...), odd)
								done = true
								break
							}
						}
					}
					if done {
						break
					}
				}
			} else {
				c.W.Doc[k] = append(append([]any{}, a...), odd)
			}
		}
	}
	return c
}

// c11Constructs: the shared wide constructs plus the ones only this check draws (union arms with their own
// select lists and LIMIT/OFFSET windows: the result of an arm may be a window of an array of the document)
var c11Constructs = append(append([]string{}, wideConstructs...), "union-windowed", "union-windowed", "union-windowed", "union-windowed")

var c11Composite = map[string]bool{"join": true, "left-join": true, "parallel-join": true, "hash-join": true, "cte": true, "cte-twice": true, "derived": true, "sel-sub": true,
	"sel-sub-root": true, "in-sub": true, "exists": true, "not-exists": true, "union": true, "union-all": true, "order-limit": true, "nested-from": true, "star-sub": true,
	"join-on-fn": true, "join-unaliased": true, "derived-cte": true, "join-derived-cte": true, "in-sub-cte": true, "sel-sub-cte": true, "exists-cte": true, "cte-union": true, "cte-nested": true, "join-derived": true, "cte-join": true, "in-sub-root": true, "exists-outer": true, "having-agg": true, "group": true, "group-having": true, "whole-agg": true, "distinct": true, "union-windowed": true}

func checkC11(c *C11Case) Result {
	res := Result{}
	if c.W == nil {
		res.Discard = "empty case"
		return res
	}
	if c.Scale != nil {
		cc, w2 := *c, *c.W
		w2.Doc = c.Scale.ExpandDoc(c.W.Doc, "t")
		cc.W, cc.Scale = &w2, nil
		res = checkC11(&cc)
		res.Labels = append(res.Labels, "large-table")
		return res
	}
	w := c.W
	ms := w.markers()
	if c.Plant >= len(ms) {
		c = &C11Case{W: c.W, Plant: -1, Twice: c.Twice}
	}
	sql := w.SQL(c.Plant, "")
	failAt := int64(c.FailAt)
	if c.Plant >= 0 && c.KSel > 0 && c.FailAt == 0 {
		injReset(0, 0)
		probe := Run(val.CopyMap(w.Doc), sql, w.opts())
		res.Execs++
		if n := injCalls(); n > 0 && probe.Panic == "" {
			failAt = 1 + int64(c.KSel)%n
		}
	}
	snapshot := val.CopyMap(w.Doc)
	live := val.CopyMap(w.Doc)
	runs := 1
	if c.Twice {
		runs = 2
	}
	var out Out
	for i := 0; i < runs; i++ {
		injReset(failAt, 0)
		out = Run(live, sql, w.opts())
		res.Execs++
	}
	outcome := "ok"
	switch {
	case out.Panic != "":
		outcome = "panic"
	case out.Err != "":
		outcome = "error"
	}
	res.Labels = append(res.Labels, "construct:"+w.Construct+":"+outcome)
	if w.Wrapped {
		res.Labels = append(res.Labels, "wrapped")
	}
	if failAt > 0 {
		res.Labels = append(res.Labels, "failed-part-way")
	}
	res.NonTrivial = (c11Composite[w.Construct] && out.OK() && len(out.Rows) > 0) || (failAt > 0 && injFailed() > 0)
	if d := val.SameShape(live, snapshot); d != "" {
		what := "successfully"
		if !out.OK() {
			what = "with " + out.Describe()
		}
		res.Violation = fmt.Sprintf("the input document was modified: %s\n  query %s (options %s", d, sql, w.opts())
		if failAt > 0 {
			res.Violation += fmt.Sprintf(", vf_fail failing at invocation %d", failAt)
		}
		res.Violation += fmt.Sprintf(")\n  returned %s\n  input before: %s", truncate(what, 300), val.JSON(snapshot))
	}
	return res
}

// c11Grid (runs once per check, before the random search): every wide construct x 4 generator examples
// with fixed seeds x (no fault, and every fault position x every invocation index k).
func c11Grid(st *Stats) (string, any) {
	seen := map[string]bool{}
	runs := 0
	for _, construct := range c11Constructs {
		if seen[construct] {
			continue
		}
		seen[construct] = true
		gen := rapid.Custom(func(t *rapid.T) *WideQ { return genWide(t, []string{construct}) })
		for seed := 0; seed < 4; seed++ {
			w := gen.Example(seed)
			cases := []*C11Case{{W: w, Plant: -1}, {W: w, Plant: -1, Twice: true}}
			for plant := range w.markers() {
				injReset(0, 0)
				probe := Run(val.CopyMap(w.Doc), w.SQL(plant, ""), w.opts())
				if probe.Panic != "" {
					continue
				}
				n := int(injCalls())
				if n > 24 {
					n = 24
				}
				for k := 1; k <= n; k++ {
					cases = append(cases, &C11Case{W: w, Plant: plant, FailAt: k})
				}
			}
			for _, c := range cases {
				r := checkC11(c)
				runs++
				if r.Violation != "" {
					return "construct x position x k grid: " + r.Violation, c
				}
			}
		}
	}
	st.mu.Lock()
	st.Extra["grid_constructs"] = float64(len(seen))
	st.Extra["grid_runs"] = float64(runs)
	st.mu.Unlock()
	return "", nil
}

func init() {
	Register(&Prop{
		ID:    "C11",
		Title: "Queries never modify the caller's input document",
		Rule: "rapid draws a document (rows with scalar columns and a nested array of objects, second table; about 2% of the cases expand table t to 200-320 rows) and a query from the 47 wide construct " +
			"templates (filters, CASE, IN, BETWEEN, functions, GROUP BY/HAVING/aggregates, all join kinds (both, one or no side aliased), CTEs incl. un-Wrapped WITH, a CTE used " +
			"twice and WITH clauses inside derived tables / join sides / subqueries / EXISTS / other CTEs, derived tables, select-item / IN / [NOT] EXISTS subqueries on the row and on `<-`, UNION chains, UNION / UNION ALL of 2-3 arms with select lists from {*, plain columns, computed} over either table or the nested array, each optionally parenthesised with its own WHERE / ORDER BY / LIMIT [OFFSET] window, at top level / as a CTE body / in a derived table (C11 only), ORDER BY/LIMIT, DISTINCT, nested " +
			"FROM, star + subquery, matrices read through multi-dimensional bracket selectors, FUSE over objects of the document), with Wrapped on 1/4 of the cases; in 1/3 of the cases an injected function fails at a generated invocation " +
			"index so that evaluation stops part-way; 1/4 of the cases execute the query twice on the same input. Oracle: cycle-safe, type-strict " +
			"structural comparison of the live input against a harness-owned deep snapshot taken before New (no added/removed key, no `<-`, same " +
			"array lengths and order, same leaves, no cycle). Non-trivial: a composite construct returned >=1 row, or the injected failure fired.",
		Assumptions: []string{
			"the document is built fresh per case; nothing is shared between cases",
			"an eighth of the documents contain a row with a key literally named `<-` (the comparison is against the snapshot, so a caller-owned `<-` must survive unchanged)",
		},
		Gen:      genC11,
		New:      func() any { return &C11Case{} },
		Check:    func(c any) Result { return checkC11(c.(*C11Case)) },
		Extra:    c11Grid,
		Quick:    4000,
		Thorough: 250000,
	})
}

package checks

import (
	"fmt"

	"pgregory.net/rapid"
	"verifharness/sq"
)

// ProjTable is the table shape used by projection-style checks: typed numeric columns with the
// roles the typed expression grammar needs.
type ProjTable struct {
	Tb      *Table
	NonNeg  []string // integer columns holding values >= 0 (bitwise-safe)
	Ints    []string // integer columns, any sign
	Nums    []string // numeric columns incl. fractions
	NonZero []string // numeric columns never 0 (safe divisors)
	NullNum []string // nullable numeric columns
	Strs    []string
	Bools   []string
	Obj     string   // object column ("" = none)
	ObjKeys []string // numeric keys inside the object column (may be missing in some rows)
	Prefix  string
}

var nonNegPool = []float64{0, 1, 2, 3, 5, 6, 7, 10, 12, 255, 1024}
var intPool = []float64{-7, -3, -2, -1, 0, 1, 2, 3, 4, 9, 12, 100}
var numPool = []float64{-2.5, -0.75, 0.25, 0.5, 1.5, 2, 3, 2.25, 10.5, -4, 7}
var nonZeroPool = []float64{-4, -2, -0.5, 0.5, 1, 2, 3, 4, 8, 2.5}

func genProjTable(t *rapid.T, minRows, maxRows int, label string) *ProjTable {
	names := genNames(t, 10, nil, label+".names")
	pt := &ProjTable{Tb: &Table{}}
	add := func(name, kind string, pool []float64, nullable, nonzero bool) {
		c := Col{Name: name, Kind: kind, Nullable: nullable, NonZero: nonzero}
		n := rapid.IntRange(2, 4).Draw(t, label+"."+name+".poolsize")
		for i := 0; i < n; i++ {
			c.Pool = append(c.Pool, rapid.SampledFrom(pool).Draw(t, fmt.Sprintf("%s.%s.pool%d", label, name, i)))
		}
		pt.Tb.Cols = append(pt.Tb.Cols, c)
	}
	add(names[0], "int", nonNegPool, false, false)
	pt.NonNeg = append(pt.NonNeg, names[0])
	if rapid.Bool().Draw(t, label+".nn2") {
		add(names[1], "int", nonNegPool, false, false)
		pt.NonNeg = append(pt.NonNeg, names[1])
	}
	add(names[2], "int", intPool, false, false)
	pt.Ints = append(pt.Ints, names[2])
	add(names[3], "num", numPool, false, false)
	pt.Nums = append(pt.Nums, names[3])
	add(names[4], "num", nonZeroPool, false, true)
	pt.NonZero = append(pt.NonZero, names[4])
	add(names[5], "num", numPool, true, false)
	pt.NullNum = append(pt.NullNum, names[5])
	// string and bool columns
	sc := Col{Name: names[6], Kind: "str"}
	for i := 0; i < 3; i++ {
		sc.Pool = append(sc.Pool, rapid.SampledFrom(plainStrs).Draw(t, fmt.Sprintf("%s.str.pool%d", label, i)))
	}
	pt.Tb.Cols = append(pt.Tb.Cols, sc)
	pt.Strs = append(pt.Strs, names[6])
	pt.Tb.Cols = append(pt.Tb.Cols, Col{Name: names[7], Kind: "bool", Pool: []any{true, false}})
	pt.Bools = append(pt.Bools, names[7])
	hasObj := rapid.IntRange(0, 3).Draw(t, label+".hasobj") != 0
	if hasObj {
		pt.Obj = names[8]
		pt.ObjKeys = []string{"k1", "k2"}
	}
	nr := rapid.IntRange(minRows, maxRows).Draw(t, label+".nrows")
	pt.Tb.Rows = []any{}
	for r := 0; r < nr; r++ {
		row := map[string]any{}
		for ci := range pt.Tb.Cols {
			c := &pt.Tb.Cols[ci]
			l := fmt.Sprintf("%s.r%d.%s", label, r, c.Name)
			if c.Nullable {
				switch rapid.IntRange(0, 5).Draw(t, l+".null") {
				case 0:
					row[c.Name] = nil
					continue
				case 1:
					continue // key missing
				}
			}
			row[c.Name] = rapid.SampledFrom(c.Pool).Draw(t, l)
		}
		if hasObj {
			l := fmt.Sprintf("%s.r%d.obj", label, r)
			switch rapid.IntRange(0, 6).Draw(t, l+".shape") {
			case 6:
				// an array of objects: a path through it yields the array of the elements' values
				n := rapid.IntRange(1, 3).Draw(t, l+".arrlen")
				arr := []any{}
				for i := 0; i < n; i++ {
					el := map[string]any{"k1": rapid.SampledFrom(numPool).Draw(t, fmt.Sprintf("%s.a%d.k1", l, i))}
					if rapid.Bool().Draw(t, fmt.Sprintf("%s.a%d.hask2", l, i)) {
						el["k2"] = rapid.SampledFrom(intPool).Draw(t, fmt.Sprintf("%s.a%d.k2", l, i))
					}
					arr = append(arr, el)
				}
				row[pt.Obj] = arr
			case 0:
				row[pt.Obj] = nil
			case 1:
				// missing entirely
			case 2:
				row[pt.Obj] = map[string]any{"k1": rapid.SampledFrom(numPool).Draw(t, l+".k1")}
			default:
				row[pt.Obj] = map[string]any{"k1": rapid.SampledFrom(numPool).Draw(t, l+".k1"), "k2": rapid.SampledFrom(intPool).Draw(t, l+".k2")}
			}
		}
		if hasObj && rapid.IntRange(0, 5).Draw(t, fmt.Sprintf("%s.r%d.dotted", label, r)) == 0 {
			// a top-level key spelled like a path (obj.k1): an unquoted reference obj.k1 is a path all the same
			row[pt.Obj+"."+rapid.SampledFrom([]string{"k1", "k2", "nokey"}).Draw(t, fmt.Sprintf("%s.r%d.dottedkey", label, r))] = rapid.SampledFrom([]any{777.0, "decoy", nil, 0.0}).Draw(t, fmt.Sprintf("%s.r%d.dottedval", label, r))
		}
		pt.Tb.Rows = append(pt.Tb.Rows, row)
	}
	return pt
}

func (pt *ProjTable) col(name string) *sq.E { return sq.Col(pt.Prefix + name) }

func pick(t *rapid.T, xs []string, label string) string {
	return xs[rapid.IntRange(0, len(xs)-1).Draw(t, label)]
}

// genNonNeg: integer-valued, >= 0 by construction.
func (pt *ProjTable) genNonNeg(t *rapid.T, depth int, label string) *sq.E {
	if depth <= 0 || rapid.IntRange(0, 2).Draw(t, label+".leaf") == 0 {
		if rapid.Bool().Draw(t, label+".isconst") {
			return sq.Num(rapid.SampledFrom(nonNegPool).Draw(t, label+".c"))
		}
		return pt.col(pick(t, pt.NonNeg, label+".col"))
	}
	a := pt.genNonNeg(t, depth-1, label+"L")
	switch rapid.SampledFrom([]string{"+", "*", "&", "|", "^", "<<", ">>", "DIV", "%"}).Draw(t, label+".op") {
	case "+":
		return sq.Bin("+", a, pt.genNonNeg(t, depth-1, label+"R"))
	case "*":
		return sq.Bin("*", a, pt.genNonNeg(t, depth-1, label+"R"))
	case "&":
		return sq.Bin("&", a, pt.genNonNeg(t, depth-1, label+"R"))
	case "|":
		return sq.Bin("|", a, pt.genNonNeg(t, depth-1, label+"R"))
	case "^":
		return sq.Bin("^", a, pt.genNonNeg(t, depth-1, label+"R"))
	case "<<":
		return sq.Bin("<<", a, sq.Num(float64(rapid.IntRange(0, 8).Draw(t, label+".sh"))))
	case ">>":
		return sq.Bin(">>", a, sq.Num(float64(rapid.IntRange(0, 8).Draw(t, label+".sh"))))
	case "DIV":
		return sq.Bin("DIV", a, sq.Num(float64(rapid.IntRange(1, 7).Draw(t, label+".d"))))
	default:
		return sq.Bin("%", a, sq.Num(float64(rapid.IntRange(1, 7).Draw(t, label+".d"))))
	}
}

// genInt: integer-valued, any sign.
func (pt *ProjTable) genInt(t *rapid.T, depth int, label string) *sq.E {
	if depth <= 0 || rapid.IntRange(0, 2).Draw(t, label+".leaf") == 0 {
		switch rapid.IntRange(0, 3).Draw(t, label+".leafkind") {
		case 0:
			return sq.Num(rapid.SampledFrom(intPool).Draw(t, label+".c"))
		case 1:
			return pt.col(pick(t, pt.Ints, label+".col"))
		default:
			return pt.genNonNeg(t, depth, label+"n")
		}
	}
	switch rapid.SampledFrom([]string{"+", "-", "*", "neg", "nonneg", "DIV", "%"}).Draw(t, label+".op") {
	case "+":
		return sq.Bin("+", pt.genInt(t, depth-1, label+"L"), pt.genInt(t, depth-1, label+"R"))
	case "-":
		return sq.Bin("-", pt.genInt(t, depth-1, label+"L"), pt.genInt(t, depth-1, label+"R"))
	case "*":
		return sq.Bin("*", pt.genInt(t, depth-1, label+"L"), pt.genInt(t, depth-1, label+"R"))
	case "neg":
		return sq.Neg(pt.genInt(t, depth-1, label+"N"))
	case "DIV":
		return sq.Bin("DIV", pt.genInt(t, depth-1, label+"L"), sq.Num(float64(rapid.SampledFrom([]int{-3, -2, 1, 2, 3, 5}).Draw(t, label+".d"))))
	case "%":
		return sq.Bin("%", pt.genInt(t, depth-1, label+"L"), sq.Num(float64(rapid.SampledFrom([]int{-3, 2, 3, 5}).Draw(t, label+".d"))))
	default:
		return pt.genNonNeg(t, depth, label+"n")
	}
}

// genNum: numeric (fractions allowed). allowNull lets a nullable column / missing key appear as a
// direct operand of a binary operator.
func (pt *ProjTable) genNum(t *rapid.T, depth int, allowNull bool, label string) *sq.E {
	if depth <= 0 || rapid.IntRange(0, 2).Draw(t, label+".leaf") == 0 {
		switch rapid.IntRange(0, 4).Draw(t, label+".leafkind") {
		case 0:
			return sq.Num(rapid.SampledFrom(numPool).Draw(t, label+".c"))
		case 1:
			return pt.col(pick(t, pt.Nums, label+".col"))
		case 2:
			return pt.col(pick(t, pt.NonZero, label+".col"))
		case 3:
			return pt.genInt(t, depth, label+"i")
		default:
			return sq.Num(rapid.SampledFrom(fracs).Draw(t, label+".c"))
		}
	}
	operand := func(l string) *sq.E {
		if allowNull && rapid.IntRange(0, 5).Draw(t, l+".nullop") == 0 {
			switch {
			case pt.Obj != "" && rapid.Bool().Draw(t, l+".objnull"):
				return pt.col(pt.Obj + "." + pick(t, pt.ObjKeys, l+".okey"))
			case rapid.IntRange(0, 3).Draw(t, l+".missing") == 0:
				return pt.col("nokey")
			default:
				return pt.col(pick(t, pt.NullNum, l+".ncol"))
			}
		}
		return pt.genNum(t, depth-1, allowNull, l)
	}
	switch rapid.SampledFrom([]string{"+", "-", "*", "/", "/c", "%", "neg", "par", "int"}).Draw(t, label+".op") {
	case "+":
		return sq.Bin("+", operand(label+"L"), operand(label+"R"))
	case "-":
		return sq.Bin("-", operand(label+"L"), operand(label+"R"))
	case "*":
		return sq.Bin("*", operand(label+"L"), operand(label+"R"))
	case "/":
		return sq.Bin("/", operand(label+"L"), pt.col(pick(t, pt.NonZero, label+".div")))
	case "/c":
		return sq.Bin("/", operand(label+"L"), sq.Num(rapid.SampledFrom(nonZeroPool).Draw(t, label+".divc")))
	case "%":
		return sq.Bin("%", operand(label+"L"), sq.Num(rapid.SampledFrom(nonZeroPool).Draw(t, label+".modc")))
	case "neg":
		return sq.Neg(pt.genNum(t, depth-1, false, label+"N"))
	case "par":
		return sq.Par(pt.genNum(t, depth-1, allowNull, label+"P"))
	default:
		return pt.genInt(t, depth, label+"i")
	}
}

// genCmp: comparison between numeric trees / string column and constant.
func (pt *ProjTable) genCmp(t *rapid.T, depth int, label string) *sq.E {
	op := rapid.SampledFrom(cmpOps).Draw(t, label+".op")
	switch rapid.IntRange(0, 3).Draw(t, label+".kind") {
	case 0:
		c := pt.Tb.Col(pt.Strs[0])
		return sq.Cmp(op, pt.col(c.Name), constFor(t, c, label+".sc"))
	case 1:
		return sq.Cmp(op, pt.genNum(t, depth-1, false, label+"L"), pt.genNum(t, depth-1, false, label+"R"))
	default:
		name := pick(t, append(append([]string{}, pt.Ints...), pt.Nums...), label+".col")
		return sq.Cmp(op, pt.col(name), constFor(t, pt.Tb.Col(name), label+".c"))
	}
}

// genBoolExpr: boolean-valued tree.
func (pt *ProjTable) genBoolExpr(t *rapid.T, depth int, label string) *sq.E {
	if depth <= 0 {
		return pt.genCmp(t, 0, label)
	}
	switch rapid.IntRange(0, 6).Draw(t, label+".form") {
	case 0:
		return sq.Bang(sq.Par(pt.genBoolExpr(t, depth-1, label+"B")))
	case 1:
		return sq.And(pt.genBoolExpr(t, depth-1, label+"L"), pt.genBoolExpr(t, depth-1, label+"R"))
	case 2:
		return sq.Or(pt.genBoolExpr(t, depth-1, label+"L"), pt.genBoolExpr(t, depth-1, label+"R"))
	case 3:
		return sq.Not(pt.genBoolExpr(t, depth-1, label+"N"))
	case 4:
		return sq.Is(rapid.SampledFrom([]string{"null", "notnull"}).Draw(t, label+".isop"), pt.col(pick(t, pt.NullNum, label+".ncol")))
	default:
		return pt.genCmp(t, depth, label)
	}
}

// genAny: an expression of any result kind, including CASE, literals and plain references.
func (pt *ProjTable) genAny(t *rapid.T, depth int, label string) *sq.E {
	switch rapid.IntRange(0, 12).Draw(t, label+".any") {
	case 12:
		// ~ directly on ~, over any numeric operand (fractional, negative): the integer part of the operand
		return sq.Tilde2(pt.genNum(t, depth-1, true, label+"tt"))
	case 0:
		return pt.genNonNeg(t, depth, label+"nn")
	case 1:
		return pt.genInt(t, depth, label+"i")
	case 2, 3:
		return pt.genNum(t, depth, true, label+"n")
	case 4:
		return pt.genBoolExpr(t, depth-1, label+"b")
	case 5:
		if depth <= 0 {
			return pt.genNum(t, 0, false, label+"n")
		}
		nw := rapid.IntRange(1, 3).Draw(t, label+".nwhen")
		var wt []*sq.E
		for i := 0; i < nw; i++ {
			wt = append(wt, pt.genBoolExpr(t, depth-2, fmt.Sprintf("%s.w%d", label, i)), pt.genAny(t, depth-1, fmt.Sprintf("%s.t%d", label, i)))
		}
		var els *sq.E
		if rapid.Bool().Draw(t, label+".else") {
			els = pt.genAny(t, depth-1, label+".e")
		}
		return sq.Case(wt, els)
	case 6:
		// literal of each kind
		switch rapid.IntRange(0, 3).Draw(t, label+".lit") {
		case 0:
			return sq.Num(genNumVal(t, label+".num"))
		case 1:
			return sq.Str(rapid.SampledFrom(append(append([]string{}, plainStrs...), hostileStrs[:18]...)).Draw(t, label+".str"))
		case 2:
			return sq.Bool(rapid.Bool().Draw(t, label+".bool"))
		default:
			return sq.Null()
		}
	case 7:
		// plain column reference of any kind (incl. nullable / missing / object)
		all := []string{pt.NonNeg[0], pt.Ints[0], pt.Nums[0], pt.NonZero[0], pt.NullNum[0], pt.Strs[0], pt.Bools[0], "nokey"}
		if pt.Obj != "" {
			all = append(all, pt.Obj)
		}
		return pt.col(pick(t, all, label+".ref"))
	case 8:
		if pt.Obj != "" {
			return pt.col(pt.Obj + "." + rapid.SampledFrom([]string{"k1", "k2", "nokey"}).Draw(t, label+".okey"))
		}
		return pt.col("nokey.sub")
	case 9:
		// ~ only at the root of an item: MySQL's unsigned reading and the two's-complement reading
		// differ, the statement does not choose, and the oracle accepts both there.
		return sq.Tilde(pt.genNonNeg(t, depth-1, label+"t"))
	default:
		return sq.Par(pt.genNum(t, depth, true, label+"p"))
	}
}

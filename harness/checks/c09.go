package checks

import (
	"fmt"
	"os"
	"sort"
	"strings"
	"sync/atomic"

	"github.com/vedadiyan/genql"
	"pgregory.net/rapid"
	"verifharness/selref"
	"verifharness/sq"
	"verifharness/val"
)

// C09 - Path selectors evaluate per the documented grammar and fail only with errors.

type C09Case struct {
	Doc  map[string]any   `json:"doc"`
	Doc2 map[string]any   `json:"doc2,omitempty"`
	Sel  *selref.Selector `json:"sel,omitempty"` // grammar-derived selector (judged against the reference)
	Raw  string           `json:"raw,omitempty"` // arbitrary / mutated selector text (totality + read-only only)
	// Long > 0: both documents get a key `long` holding an array of Long (resp. Long+3) small objects, built at check
	// time: indexes, ranges and mapped steps far into a long array mean what they mean at its beginning
	Long int `json:"long,omitempty"`
	// Late: a top-level key of the document. The selector `<fn>=><key>` is evaluated first while no top-level
	// function <fn> is registered (an error), then <fn> is registered through the public API, then the very same
	// text is evaluated again: `fn=>` applies a registered function - from the moment it is registered. <fn> is a
	// name no earlier case of this process has used.
	Late string `json:"late,omitempty"`
}

var c09LateSeq atomic.Int64

func checkC09Late(c *C09Case) Result {
	res := Result{Labels: []string{"late-registration"}, NonTrivial: true}
	name := fmt.Sprintf("vflate%d_%d", os.Getpid(), c09LateSeq.Add(1))
	text := name + "=>" + c.Late
	before, _ := runSel(c.Doc, text)
	res.Execs++
	if before.panic != "" || before.err == "" {
		res.Violation = fmt.Sprintf("selector %q with no top-level function %s registered: expected an error, got %s", text, name, before)
		return res
	}
	genql.RegisterTopLevelFunction(name, func(v any) (any, error) { return map[string]any{"w": v}, nil })
	plain, _ := runSel(c.Doc, c.Late)
	after, m := runSel(c.Doc, text)
	res.Execs += 2
	if m != "" {
		res.Violation = fmt.Sprintf("selector %q modified the document: %s", text, m)
		return res
	}
	if plain.panic != "" || plain.err != "" {
		res.Discard = "the plain key cannot be read"
		return res
	}
	want := map[string]any{"w": plain.v}
	if after.panic != "" || after.err != "" || !val.Equal(after.v, want) {
		res.Violation = fmt.Sprintf("selector %q evaluated once before and once after RegisterTopLevelFunction(%q, wrap): expected %s after the registration, got %s", text, name, val.JSON(want), after)
		return res
	}
	return res
}

// longArray is the array behind key `long`: element i is {n: i, s: "v<i mod 7>", in: [i, -i]}.
func longArray(n int) []any {
	out := make([]any, n)
	for i := range out {
		out[i] = map[string]any{"n": float64(i), "s": fmt.Sprintf("v%d", i%7), "in": []any{float64(i), float64(-i)}}
	}
	return out
}

func init() {
	genql.RegisterTopLevelFunction("vfcount", func(v any) (any, error) {
		a, ok := v.([]any)
		if !ok {
			return nil, fmt.Errorf("vfcount: not an array")
		}
		return float64(len(a)), nil
	})
	genql.RegisterTopLevelFunction("vfwrap", func(v any) (any, error) { return map[string]any{"w": v}, nil })
	Register(&Prop{
		ID:    "C09",
		Title: "Path selectors evaluate per the documented grammar and fail only with errors",
		Rule: "[Dimensions added in rounds p-r of the seeded-defect evaluation: documents handed to ExecReader carry spare capacity in every array; 1 case in 40 evaluates `<fn>=><key>` before and after <fn> is registered; when the selector starts with a top-level function the same path under two other functions is evaluated in between.] " +
			"generator A (2/3 of cases): rapid draws a JSON-like document (objects/arrays to depth 4, ragged arrays, arrays of arrays also holding NULL / scalar / object rows, records of numeric texts in every spelling for the {k|number} pipe, keys that " +
			"need quoting) and derives a selector step by step from the value reached so far (key existing/missing, [i], [i:j:k], each, keep=>, " +
			"(m:n) with begin/end, pipes with |string |number, quoted keys, :: continuation, mix=> distinct=> and harness-registered fn=>), with " +
			"~15% deliberately invalid steps (index == len or beyond, range end > len or begin > end, index/each/key/pipe on a value of the wrong " +
			"shape, |number on non-numeric text, unknown function or pipe type); oracle = independent reference evaluator of the documented " +
			"meaning: valid -> deep-equal value, invalid -> an error (not a panic, not a value). A long-array mode (about 4% of the cases) adds an array of 200-640 small objects at check time and selects indexes, ranges, mapped keys, pipes and brackets around positions 127-257 and the end. A cube mode selects from regular 3-d / 4-d arrays with 2..depth index / each dimensions, half under keep=>. Generator B (1/3): arbitrary strings over the " +
			"selector alphabet, token-level mutations of A, and well-formed multi-dimensional brackets mixing each / index / i:j / (m:n) / begin / " +
			"end over arrays of arrays (value undocumented): the call returns (no panic). Always: the document is unchanged, the selector is " +
			"evaluated on doc, a second document of a different shape, then doc again (cache miss, then hits) with identical outcomes. " +
			"Non-trivial: >=2 steps and a non-NULL result, or an intentionally invalid step.",
		Assumptions: []string{
			"|string only on strings, booleans and integral numbers; |number only on strings; ranges are alone in their bracket; no NULL elements inside multi-dimensional selections; array-valued leaves only under all-each or single-index brackets (flattening depth otherwise undocumented)",
			"a key step on an array applies the rest of the path to every element (README: '::' exists to continue with the whole result)",
			"keys contain no single quote; keys containing braces or brackets are used as (quoted) path steps but not inside {..} pipes",
		},
		Gen: func(t *rapid.T) any {
			c := genC09(t).(*C09Case)
			if rapid.IntRange(0, 39).Draw(t, "late") == 0 {
				var keys []string
				for k := range c.Doc {
					if sq.BareOK(k) {
						keys = append(keys, k)
					}
				}
				sort.Strings(keys)
				if len(keys) > 0 {
					return &C09Case{Doc: c.Doc, Late: rapid.SampledFrom(keys).Draw(t, "late.key")}
				}
			}
			return c
		},
		New:         func() any { return &C09Case{} },
		Check:       func(c any) Result { return checkC09(c.(*C09Case)) },
		Quick:       8000,
		Thorough:    300000,
		FuzzTargets: []string{"FuzzExecReader"},
		FuzzSeconds: 300,
	})
}

var selKeys = []string{"a", "b", "c", "id", "n", "x y", "k.z", "q-r", "each", "0", "keep", "u_v", "[0]", "{id}", "[each]", "a[1]", "x=>y", "p|q", "m::n"}

func genScalar(t *rapid.T, label string) any {
	switch rapid.IntRange(0, 6).Draw(t, label+".sk") {
	case 0:
		return float64(rapid.IntRange(-3, 12).Draw(t, label+".int"))
	case 1:
		return rapid.SampledFrom([]float64{0.5, -2.25, 1e6, 3.75, 123456.789012, 1000.123456, -98765.4321, 0.000125, 16777217.5}).Draw(t, label+".frac")
	case 2:
		return rapid.SampledFrom([]string{"x", "", "abc", "12", "3.5", "-7", "1e2", "nope", "a b"}).Draw(t, label+".str")
	case 3:
		return rapid.SampledFrom([]string{"12", "3.5", "0", "7x", "010", "0755", "000123", "-042", "007", "0x1F", "0b101", "0o17", "1e3", ".5", "5."}).Draw(t, label+".numstr")
	case 4:
		return rapid.Bool().Draw(t, label+".bool")
	case 5:
		return nil
	default:
		return float64(rapid.IntRange(0, 3).Draw(t, label+".small"))
	}
}

func genObject(t *rapid.T, depth int, keys []string, label string) map[string]any {
	m := map[string]any{}
	for _, k := range keys {
		m[k] = genDocValue(t, depth-1, label+"."+k)
	}
	return m
}

func genDocValue(t *rapid.T, depth int, label string) any {
	if depth <= 0 {
		return genScalar(t, label)
	}
	switch rapid.IntRange(0, 7).Draw(t, label+".shape") {
	case 0, 1: // object
		n := rapid.IntRange(1, 3).Draw(t, label+".nkeys")
		perm := rapid.Permutation(selKeys).Draw(t, label+".keys")
		return genObject(t, depth, perm[:n], label)
	case 2, 3: // array of objects sharing keys (some keys may be missing in some elements)
		n := rapid.IntRange(0, 3).Draw(t, label+".len")
		nk := rapid.IntRange(1, 3).Draw(t, label+".nkeys")
		perm := rapid.Permutation(selKeys).Draw(t, label+".keys")
		out := []any{}
		for i := 0; i < n; i++ {
			keys := perm[:nk]
			if nk > 1 && rapid.IntRange(0, 4).Draw(t, fmt.Sprintf("%s.%d.drop", label, i)) == 0 {
				keys = perm[:nk-1]
			}
			out = append(out, genObject(t, depth, keys, fmt.Sprintf("%s.%d", label, i)))
		}
		return out
	case 4: // array of arrays (ragged)
		n := rapid.IntRange(0, 3).Draw(t, label+".len")
		out := []any{}
		for i := 0; i < n; i++ {
			m := rapid.IntRange(0, 3).Draw(t, fmt.Sprintf("%s.%d.len", label, i))
			inner := []any{}
			for j := 0; j < m; j++ {
				inner = append(inner, genDocValue(t, depth-2, fmt.Sprintf("%s.%d.%d", label, i, j)))
			}
			if i > 0 && rapid.IntRange(0, 5).Draw(t, fmt.Sprintf("%s.%d.odd", label, i)) == 0 {
				// not every row of a matrix need be an array: NULL, a scalar or an object in a later position
				out = append(out, rapid.SampledFrom([]any{nil, 7.0, "x", map[string]any{"a": 1.0}}).Draw(t, fmt.Sprintf("%s.%d.oddrow", label, i)))
				continue
			}
			out = append(out, inner)
		}
		return out
	case 5: // array of scalars
		n := rapid.IntRange(0, 4).Draw(t, label+".len")
		out := []any{}
		for i := 0; i < n; i++ {
			out = append(out, genScalar(t, fmt.Sprintf("%s.%d", label, i)))
		}
		return out
	case 6: // mixed array
		n := rapid.IntRange(1, 3).Draw(t, label+".len")
		out := []any{}
		for i := 0; i < n; i++ {
			out = append(out, genDocValue(t, depth-1, fmt.Sprintf("%s.%d", label, i)))
		}
		return out
	default:
		return genScalar(t, label)
	}
}

func genSelDoc(t *rapid.T, label string) map[string]any {
	n := rapid.IntRange(1, 3).Draw(t, label+".nkeys")
	perm := rapid.Permutation(selKeys).Draw(t, label+".keys")
	return genObject(t, 4, perm[:n], label)
}

func firstObject(v any) map[string]any {
	switch x := v.(type) {
	case map[string]any:
		return x
	case []any:
		for _, e := range x {
			if m := firstObject(e); m != nil {
				return m
			}
		}
	}
	return nil
}

func mapKeys(m map[string]any) []string {
	ks := keysOf(m)
	return ks
}

func genDims(t *rapid.T, a []any, invalid *bool, label string) selref.Step {
	st := selref.Step{K: "idx", Keep: rapid.IntRange(0, 4).Draw(t, label+".keep") == 0}
	if rapid.IntRange(0, 5).Draw(t, label+".range") == 0 {
		// a range, alone in its bracket
		n := len(a)
		d := selref.Dim{K: "range", From: -1, To: -1}
		if rapid.Bool().Draw(t, label+".hasfrom") {
			d.From = rapid.IntRange(0, n).Draw(t, label+".from")
		}
		if rapid.Bool().Draw(t, label+".hasto") {
			lo := 0
			if d.From > 0 {
				lo = d.From
			}
			d.To = rapid.IntRange(lo, n).Draw(t, label+".to")
		}
		if rapid.IntRange(0, 6).Draw(t, label+".badrange") == 0 {
			*invalid = true
			if rapid.IntRange(0, 3).Draw(t, label+".hugeend") == 0 {
				d.Lit = rapid.SampledFrom([]string{"4294967296", "9223372036854775808", "18446744073709551615", "100000000000000000000"}).Draw(t, label+".endlit")
			} else if rapid.Bool().Draw(t, label+".badkind") || d.From <= 0 {
				d.To = n + rapid.IntRange(1, 2).Draw(t, label+".over")
			} else {
				d.To = d.From - 1 // begin > end
			}
		}
		st.Dims = []selref.Dim{d}
		return st
	}
	var cur any = a
	for i := 0; i < 3; i++ {
		arr, ok := cur.([]any)
		if !ok {
			if rapid.IntRange(0, 9).Draw(t, fmt.Sprintf("%s.d%d.beyond", label, i)) == 0 {
				// one dimension too many: wrong shape
				*invalid = true
				st.Dims = append(st.Dims, selref.Dim{K: rapid.SampledFrom([]string{"each", "i"}).Draw(t, fmt.Sprintf("%s.d%d.bk", label, i))})
			}
			break
		}
		l := fmt.Sprintf("%s.d%d", label, i)
		if rapid.IntRange(0, 2).Draw(t, l+".each") == 0 || len(arr) == 0 {
			if len(arr) == 0 && rapid.Bool().Draw(t, l+".emptyidx") {
				*invalid = true
				st.Dims = append(st.Dims, selref.Dim{K: "i", I: 0})
				break
			}
			st.Dims = append(st.Dims, selref.Dim{K: "each"})
			if len(arr) == 0 {
				break
			}
			cur = arr[0]
		} else if rapid.IntRange(0, 7).Draw(t, l+".oob") == 0 {
			*invalid = true
			d := selref.Dim{K: "i", I: len(arr) + rapid.IntRange(0, 2).Draw(t, l+".by")}
			if rapid.IntRange(0, 2).Draw(t, l+".huge") == 0 {
				// far outside: literals around the limits of the machine integers
				d.Lit = rapid.SampledFrom([]string{"2147483648", "4294967296", "9223372036854775807", "9223372036854775808", "18446744073709551615", "18446744073709551616", "100000000000000000000"}).Draw(t, l+".lit")
			}
			st.Dims = append(st.Dims, d)
			break
		} else {
			idx := rapid.IntRange(0, len(arr)-1).Draw(t, l+".i")
			st.Dims = append(st.Dims, selref.Dim{K: "i", I: idx})
			cur = arr[idx]
		}
		if rapid.IntRange(0, 2).Draw(t, l+".stop") == 0 {
			break
		}
	}
	if len(st.Dims) == 0 {
		st.Dims = []selref.Dim{{K: "each"}}
	}
	return st
}

func genPipe(t *rapid.T, m map[string]any, invalid *bool, label string) selref.Step {
	st := selref.Step{K: "pipe"}
	// inside {..} the tokenizer of the documented grammar has no room for keys that themselves contain
	// braces or brackets (quoted or not): such keys are used as path steps only
	pipeOK := func(k string) bool { return !strings.ContainsAny(k, "{}[]") }
	var keys []string
	for _, k := range mapKeys(m) {
		if pipeOK(k) {
			keys = append(keys, k)
		}
	}
	var anyKeys []string
	for _, k := range selKeys {
		if pipeOK(k) {
			anyKeys = append(anyKeys, k)
		}
	}
	n := rapid.IntRange(1, 3).Draw(t, label+".n")
	for i := 0; i < n; i++ {
		l := fmt.Sprintf("%s.p%d", label, i)
		var k string
		if len(keys) > 0 && rapid.IntRange(0, 5).Draw(t, l+".existing") != 0 {
			k = rapid.SampledFrom(keys).Draw(t, l+".key")
		} else {
			k = rapid.SampledFrom(anyKeys).Draw(t, l+".anykey")
		}
		p := selref.Pipe{Key: k}
		switch v := m[k].(type) {
		case string:
			switch rapid.IntRange(0, 3).Draw(t, l+".stype") {
			case 0:
				p.Type = "number"
			case 1:
				p.Type = "string"
			}
		case float64:
			// whole numbers show as integers; fractions as a decimal text of the number (val.NumText)
			_ = v
			if rapid.Bool().Draw(t, l+".ntype") {
				p.Type = "string"
			}
		case bool:
			if rapid.Bool().Draw(t, l+".btype") {
				p.Type = "string"
			}
		}
		if rapid.IntRange(0, 24).Draw(t, l+".badtype") == 0 {
			p.Type = "date"
			*invalid = true
		}
		st.Pipes = append(st.Pipes, p)
	}
	return st
}

func genSelector(t *rapid.T, doc map[string]any) (*selref.Selector, bool) {
	sel := &selref.Selector{Parts: []selref.Part{{}}}
	invalid := false
	maxSteps := rapid.IntRange(1, 6).Draw(t, "sel.maxsteps")
	for i := 0; i < maxSteps; i++ {
		l := fmt.Sprintf("sel.s%d", i)
		v, err := selref.Eval(sel, doc)
		if err != nil {
			break
		}
		part := &sel.Parts[len(sel.Parts)-1]
		// maybe finish this part with a top-level function or a :: continuation
		if len(part.Steps) > 0 && rapid.IntRange(0, 5).Draw(t, l+".newpart") == 0 {
			if rapid.Bool().Draw(t, l+".fn") {
				switch v.(type) {
				case []any:
					part.Fn = rapid.SampledFrom([]string{"mix", "distinct", "vfcount", "vfwrap", "mix"}).Draw(t, l+".fnname")
				default:
					part.Fn = rapid.SampledFrom([]string{"vfwrap", "vfwrap", "vfcount", "nofn", "mix"}).Draw(t, l+".fnname")
				}
				if part.Fn == "nofn" {
					invalid = true
				}
				var err error
				v, err = selref.Eval(sel, doc)
				if err != nil {
					break
				}
			}
			sel.Parts = append(sel.Parts, selref.Part{})
			part = &sel.Parts[len(sel.Parts)-1]
		}
		switch x := v.(type) {
		case map[string]any:
			keys := mapKeys(x)
			switch c := rapid.IntRange(0, 19).Draw(t, l+".objstep"); {
			case c < 14 && len(keys) > 0:
				part.Steps = append(part.Steps, selref.Step{K: "key", Key: rapid.SampledFrom(keys).Draw(t, l+".key")})
			case c < 16:
				part.Steps = append(part.Steps, selref.Step{K: "key", Key: rapid.SampledFrom(selKeys).Draw(t, l+".anykey")})
			case c < 19:
				part.Steps = append(part.Steps, genPipe(t, x, &invalid, l+".pipe"))
			default:
				invalid = true
				part.Steps = append(part.Steps, selref.Step{K: "idx", Dims: []selref.Dim{{K: rapid.SampledFrom([]string{"each", "i"}).Draw(t, l+".badidx")}}})
			}
		case []any:
			obj := firstObject(x)
			switch c := rapid.IntRange(0, 9).Draw(t, l+".arrstep"); {
			case c < 6 || obj == nil:
				part.Steps = append(part.Steps, genDims(t, x, &invalid, l+".dims"))
			case c < 9:
				part.Steps = append(part.Steps, selref.Step{K: "key", Key: rapid.SampledFrom(mapKeys(obj)).Draw(t, l+".key")})
			default:
				part.Steps = append(part.Steps, genPipe(t, obj, &invalid, l+".pipe"))
			}
		case nil:
			if rapid.IntRange(0, 2).Draw(t, l+".nullstop") != 0 {
				i = maxSteps
				break
			}
			part.Steps = append(part.Steps, selref.Step{K: "key", Key: rapid.SampledFrom(selKeys).Draw(t, l+".anykey")})
		default:
			if rapid.IntRange(0, 4).Draw(t, l+".scalarstop") != 0 {
				i = maxSteps
				break
			}
			invalid = true
			switch rapid.IntRange(0, 2).Draw(t, l+".badstep") {
			case 0:
				part.Steps = append(part.Steps, selref.Step{K: "key", Key: rapid.SampledFrom(selKeys).Draw(t, l+".anykey")})
			case 1:
				part.Steps = append(part.Steps, selref.Step{K: "idx", Dims: []selref.Dim{{K: "i", I: 0}}})
			default:
				part.Steps = append(part.Steps, selref.Step{K: "pipe", Pipes: []selref.Pipe{{Key: "a"}}})
			}
		}
	}
	// drop an empty trailing part
	if n := len(sel.Parts); n > 1 && len(sel.Parts[n-1].Steps) == 0 && sel.Parts[n-1].Fn == "" {
		sel.Parts = sel.Parts[:n-1]
	}
	if len(sel.Parts) == 1 && len(sel.Parts[0].Steps) == 0 {
		keys := mapKeys(doc)
		sel.Parts[0].Steps = []selref.Step{{K: "key", Key: keys[0]}}
	}
	// a function on the last part
	if last := &sel.Parts[len(sel.Parts)-1]; last.Fn == "" && rapid.IntRange(0, 5).Draw(t, "sel.lastfn") == 0 {
		if v, err := selref.Eval(sel, doc); err == nil {
			if _, ok := v.([]any); ok {
				last.Fn = rapid.SampledFrom([]string{"mix", "distinct", "vfcount"}).Draw(t, "sel.lastfnname")
			}
		}
	}
	return sel, invalid
}

var selAlphabet = []string{"a", "b", "id", "x y", ".", "..", "[", "]", "[0]", "[9]", "[each]", "[each:0]", "each", "keep=>", "=>", "::", ":", "(", ")", "(0:9)", "(begin:end)", "(2:1)",
	"{", "}", "|", "|string", "|number", "{a|number}", "'", "'k.z'", "<-", "*", "mix", "mix=>", "distinct=>", "nofn=>", " ", "-1", "99999999999999999999", "[9223372036854775808]", "[18446744073709551615]", "(1:18446744073709551615)", "(9223372036854775808:end)", "[each:9223372036854775808]", "[4294967296]", "[+1]", "(+0:1)", "0", ",", "\x00", "é", "[[", "]]", "{}", "[]", "[:]", "[(:)]", "[keep=>]"}

func genRawSelector(t *rapid.T, doc map[string]any) string {
	if rapid.Bool().Draw(t, "raw.mutate") {
		sel, _ := genSelector(t, doc)
		s := sel.String()
		// token-level mutation
		n := rapid.IntRange(1, 3).Draw(t, "raw.nmut")
		for i := 0; i < n; i++ {
			l := fmt.Sprintf("raw.m%d", i)
			if len(s) == 0 {
				break
			}
			pos := rapid.IntRange(0, len(s)).Draw(t, l+".pos")
			switch rapid.IntRange(0, 2).Draw(t, l+".kind") {
			case 0:
				s = s[:pos] + rapid.SampledFrom(selAlphabet).Draw(t, l+".ins") + s[pos:]
			case 1:
				end := minInt(len(s), pos+rapid.IntRange(1, 3).Draw(t, l+".dellen"))
				s = s[:pos] + s[end:]
			default:
				if pos < len(s) {
					s = s[:pos] + rapid.SampledFrom(selAlphabet).Draw(t, l+".rep") + s[pos+1:]
				}
			}
		}
		return s
	}
	n := rapid.IntRange(0, 8).Draw(t, "raw.n")
	var sb strings.Builder
	for i := 0; i < n; i++ {
		sb.WriteString(rapid.SampledFrom(selAlphabet).Draw(t, fmt.Sprintf("raw.t%d", i)))
	}
	return sb.String()
}

// genMultiDimRaw builds a well-formed multi-dimensional bracket over an array-of-arrays key whose
// dimensions mix each / index / i:j / (m:n) / begin / end freely. The value of such mixtures is not
// documented, so only totality, read-only-ness and cache independence are asserted on them.
func genMultiDimRaw(t *rapid.T, doc map[string]any) string {
	var cands []string
	for k, v := range doc {
		if a, ok := v.([]any); ok && len(a) > 0 {
			if _, ok := a[0].([]any); ok && !strings.ContainsAny(k, " .-") {
				cands = append(cands, k)
			}
		}
	}
	if len(cands) == 0 {
		return genRawSelector(t, doc)
	}
	sortStrings(cands)
	key := rapid.SampledFrom(cands).Draw(t, "md.key")
	outer := doc[key].([]any)
	nd := rapid.IntRange(2, 3).Draw(t, "md.ndims")
	var dims []string
	for d := 0; d < nd; d++ {
		l := fmt.Sprintf("md.d%d", d)
		n := len(outer)
		if d > 0 {
			if in, ok := outer[0].([]any); ok {
				n = len(in)
			}
		}
		hi := maxInt(n, 1)
		switch rapid.IntRange(0, 6).Draw(t, l+".form") {
		case 0, 1:
			dims = append(dims, "each")
		case 2:
			dims = append(dims, fmt.Sprint(rapid.IntRange(0, hi-1).Draw(t, l+".i")))
		case 3:
			a := rapid.IntRange(0, hi-1).Draw(t, l+".a")
			dims = append(dims, fmt.Sprintf("%d:%d", a, rapid.IntRange(a, hi).Draw(t, l+".b")))
		case 4:
			a := rapid.IntRange(0, hi-1).Draw(t, l+".a")
			dims = append(dims, fmt.Sprintf("(%d:%d)", a, rapid.IntRange(a, hi).Draw(t, l+".b")))
		case 5:
			dims = append(dims, fmt.Sprintf("(begin:%d)", rapid.IntRange(0, hi).Draw(t, l+".b")))
		default:
			dims = append(dims, fmt.Sprintf("(%d:end)", rapid.IntRange(0, hi-1).Draw(t, l+".a")))
		}
	}
	sep := rapid.SampledFrom([]string{",", ", ", ":"}).Draw(t, "md.sep")
	prefix := ""
	if rapid.IntRange(0, 3).Draw(t, "md.keep") == 0 {
		prefix = "keep=>"
	}
	return key + "[" + prefix + strings.Join(dims, sep) + "]"
}

func genC09(t *rapid.T) any {
	c := &C09Case{Doc: genSelDoc(t, "doc"), Doc2: genSelDoc(t, "doc2")}
	switch rapid.IntRange(0, 8).Draw(t, "mode") {
	case 8:
		// long-array mode (only a part of these cases: rapid would otherwise spend its budget here)
		if rapid.IntRange(0, 2).Draw(t, "long.take") != 0 {
			break
		}
		n := rapid.SampledFrom([]int{200, 255, 256, 257, 300, 512, 513, 640}).Draw(t, "long.n")
		c.Long = n
		near := func(l string) int {
			return rapid.SampledFrom([]int{0, 1, 127, 128, 254, 255, 256, 257, n / 2, n - 2, n - 1, n, n + 1}).Draw(t, l)
		}
		steps := []selref.Step{{K: "key", Key: "long"}}
		switch rapid.IntRange(0, 6).Draw(t, "long.form") {
		case 0:
			steps = append(steps, selref.Step{K: "idx", Dims: []selref.Dim{{K: "i", I: near("long.i")}}})
		case 1:
			steps = append(steps, selref.Step{K: "idx", Dims: []selref.Dim{{K: "range", From: near("long.from"), To: near("long.to")}}})
		case 2:
			steps = append(steps, selref.Step{K: "key", Key: rapid.SampledFrom([]string{"n", "s", "in", "nokey"}).Draw(t, "long.key")})
		case 3:
			steps = append(steps, selref.Step{K: "idx", Dims: []selref.Dim{{K: "each"}}, Keep: rapid.Bool().Draw(t, "long.keep")}, selref.Step{K: "key", Key: "in"})
		case 4:
			steps = append(steps, selref.Step{K: "pipe", Pipes: []selref.Pipe{{Key: "n", Type: "string"}, {Key: "s"}}})
		case 5:
			steps = append(steps, selref.Step{K: "idx", Dims: []selref.Dim{{K: "range", From: near("long.from"), To: -1}}}, selref.Step{K: "key", Key: "n"})
		default:
			steps = append(steps, selref.Step{K: "key", Key: "in"}, selref.Step{K: "idx", Dims: []selref.Dim{{K: "each"}, {K: "i", I: rapid.IntRange(0, 2).Draw(t, "long.ini")}}})
		}
		c.Sel = &selref.Selector{Parts: []selref.Part{{Steps: steps}}}
		return c
	case 7:
		// cube-focused: a regular 3- or 4-dimensional array and one bracket of 2..depth dimensions, each
		// an index or `each`, half of the time under keep=> (the selected structure stays as it is)
		depth := rapid.IntRange(3, 4).Draw(t, "cube.depth")
		ext := make([]int, depth)
		for i := range ext {
			ext[i] = rapid.IntRange(1, 3).Draw(t, fmt.Sprintf("cube.ext%d", i))
		}
		var build func(level, base int) any
		build = func(level, base int) any {
			if level == depth {
				return float64(base)
			}
			out := make([]any, ext[level])
			for i := range out {
				out[i] = build(level+1, base*10+i+1)
			}
			return out
		}
		c.Doc["cube"] = build(0, 0)
		nd := rapid.IntRange(2, depth).Draw(t, "cube.ndims")
		st := selref.Step{K: "idx", Keep: rapid.Bool().Draw(t, "cube.keep")}
		for i := 0; i < nd; i++ {
			if rapid.IntRange(0, 2).Draw(t, fmt.Sprintf("cube.d%d.each", i)) == 0 {
				st.Dims = append(st.Dims, selref.Dim{K: "each"})
			} else {
				st.Dims = append(st.Dims, selref.Dim{K: "i", I: rapid.IntRange(0, ext[i]-1).Draw(t, fmt.Sprintf("cube.d%d.i", i))})
			}
		}
		sel := &selref.Selector{Parts: []selref.Part{{Steps: []selref.Step{{K: "key", Key: "cube"}, st}}}}
		if rapid.IntRange(0, 3).Draw(t, "cube.more") == 0 {
			if v, err := selref.Eval(sel, c.Doc); err == nil {
				if a, ok := v.([]any); ok && len(a) > 0 {
					invalid := false
					sel.Parts[0].Steps = append(sel.Parts[0].Steps, genDims(t, a, &invalid, "cube.next"))
				}
			}
		}
		c.Sel = sel
		return c
	case 6:
		// pipe-focused: records of scalars (numeric texts of every spelling, strings, numbers, booleans)
		// reshaped and converted through {k|type, ...}
		mkrec := func(label string) map[string]any {
			rec := map[string]any{}
			for _, k := range []string{"a", "b", "c", "n", "id"} {
				if rapid.IntRange(0, 4).Draw(t, label+"."+k+".present") != 0 {
					rec[k] = genScalar(t, label+"."+k)
					if rapid.Bool().Draw(t, label+"."+k+".numtext") {
						rec[k] = rapid.SampledFrom([]string{"12", "3.5", "0", "010", "0755", "000123", "-042", "007", "1e3", ".5", "5.", "-0", "00", "08", "0x1F", "0b101", "0o17", "1_000", "7x", "", " 5"}).Draw(t, label+"."+k+".text")
					}
				}
			}
			return rec
		}
		c.Doc["rec"] = mkrec("rec")
		c.Doc["recs"] = []any{mkrec("recs0"), mkrec("recs1")}
		invalid := false
		sel := &selref.Selector{Parts: []selref.Part{{}}}
		if rapid.Bool().Draw(t, "pf.single") {
			sel.Parts[0].Steps = append(sel.Parts[0].Steps, selref.Step{K: "key", Key: "rec"}, genPipe(t, c.Doc["rec"].(map[string]any), &invalid, "pf.pipe"))
		} else {
			i := rapid.IntRange(0, 1).Draw(t, "pf.i")
			sel.Parts[0].Steps = append(sel.Parts[0].Steps, selref.Step{K: "key", Key: "recs"}, selref.Step{K: "idx", Dims: []selref.Dim{{K: "i", I: i}}}, genPipe(t, c.Doc["recs"].([]any)[i].(map[string]any), &invalid, "pf.pipe"))
		}
		c.Sel = sel
		return c
	case 0:
		c.Raw = genRawSelector(t, c.Doc)
		return c
	case 1:
		// make sure an array of arrays with at least 2x2 elements exists
		rows := rapid.IntRange(2, 4).Draw(t, "mm.rows")
		cols := rapid.IntRange(2, 4).Draw(t, "mm.cols")
		deep := rapid.IntRange(0, 3).Draw(t, "mm.deep") == 0
		mm := make([]any, 0, rows)
		for i := 0; i < rows; i++ {
			row := make([]any, 0, cols)
			for j := 0; j < cols; j++ {
				if deep {
					row = append(row, []any{float64(i*10 + j), float64(100 + i*10 + j)})
				} else {
					row = append(row, float64(i*10+j))
				}
			}
			if i > 0 && rapid.IntRange(0, 5).Draw(t, fmt.Sprintf("mm.odd%d", i)) == 0 {
				// ragged matrices: a row that is NULL, a scalar, an object, empty or shorter than the others
				switch rapid.IntRange(0, 4).Draw(t, fmt.Sprintf("mm.oddkind%d", i)) {
				case 0:
					mm = append(mm, nil)
				case 1:
					mm = append(mm, 7.0)
				case 2:
					mm = append(mm, map[string]any{"a": 1.0})
				case 3:
					mm = append(mm, []any{})
				default:
					mm = append(mm, row[:1])
				}
				continue
			}
			mm = append(mm, row)
		}
		c.Doc["mm"] = mm
		c.Raw = genMultiDimRaw(t, c.Doc)
		return c
	}
	c.Sel, _ = genSelector(t, c.Doc)
	return c
}

type selOutcome struct {
	v     any
	err   string
	panic string
}

func (o selOutcome) String() string {
	switch {
	case o.panic != "":
		return "PANIC: " + o.panic
	case o.err != "":
		return "error: " + o.err
	}
	return "value " + truncate(val.JSON(o.v), 1500)
}

func sameOutcome(a, b selOutcome) bool {
	if (a.panic != "") != (b.panic != "") || (a.err != "") != (b.err != "") {
		return false
	}
	if a.err != "" || a.panic != "" {
		return true
	}
	return val.Equal(val.Norm(a.v), val.Norm(b.v))
}

func runSel(doc map[string]any, s string) (selOutcome, string) {
	live := val.CopySpare(doc).(map[string]any)
	v, e, p := ReadSel(live, s)
	out := selOutcome{v: v, err: e, panic: p}
	if p == "" && e == "" {
		out.v = val.Copy(val.Norm(v))
	}
	return out, val.SameShape(live, doc)
}

func checkC09(c *C09Case) Result {
	if c.Late != "" {
		return checkC09Late(c)
	}
	if c.Long > 0 {
		cc := *c
		cc.Long = 0
		cc.Doc = val.CopyMap(c.Doc)
		cc.Doc["long"] = longArray(c.Long)
		if c.Doc2 != nil {
			cc.Doc2 = val.CopyMap(c.Doc2)
			cc.Doc2["long"] = longArray(c.Long + 3)
		}
		res := checkC09(&cc)
		res.Labels = append(res.Labels, "long-array")
		return res
	}
	res := Result{}
	text := c.Raw
	if c.Sel != nil {
		text = c.Sel.String()
	}
	// doc, doc2, doc again: first evaluation may parse (cache miss), later ones hit the cache
	o1, m1 := runSel(c.Doc, text)
	var o2 selOutcome
	m2 := ""
	if c.Doc2 != nil {
		o2, m2 = runSel(c.Doc2, text)
	}
	if i := strings.Index(text, "=>"); i > 0 && !strings.ContainsAny(text[:i], "[]{}'.: ") {
		// the same path under another top-level function, evaluated in between (outcome ignored): what `f=>path`
		// means does not depend on which other functions were applied to that path before
		for _, other := range []string{"mix", "distinct", "vfwrap", "vfcount", "keep"} {
			if other != text[:i] {
				runSel(c.Doc, other+text[i:])
				res.Labels = append(res.Labels, "other-function-over-the-same-path-in-between")
				break
			}
		}
		for _, other := range []string{"vfcount", "distinct"} {
			if other != text[:i] {
				runSel(c.Doc, other+text[i:])
				break
			}
		}
	}
	o3, m3 := runSel(c.Doc, text)
	res.Execs = 3
	for _, m := range []string{m1, m2, m3} {
		if m != "" {
			res.Violation = fmt.Sprintf("selector %q modified the document: %s", text, m)
			return res
		}
	}
	for _, o := range []selOutcome{o1, o2, o3} {
		if o.panic != "" {
			res.Violation = fmt.Sprintf("selector %q on %s\n  %s", text, truncate(val.JSON(c.Doc), 1500), o)
			return res
		}
	}
	if !sameOutcome(o1, o3) {
		res.Violation = fmt.Sprintf("selector %q gives different outcomes on the same document before and after evaluating it on another document\n  first:  %s\n  second: %s", text, o1, o3)
		return res
	}
	if c.Sel == nil {
		res.Labels = append(res.Labels, "raw")
		if o1.err == "" {
			res.Labels = append(res.Labels, "raw:accepted")
		}
		res.NonTrivial = len(text) >= 2
		return res
	}
	nsteps := 0
	for _, p := range c.Sel.Parts {
		nsteps += len(p.Steps)
		if p.Fn != "" {
			res.Labels = append(res.Labels, "fn:"+p.Fn)
		}
		for _, st := range p.Steps {
			switch st.K {
			case "key":
				res.Labels = append(res.Labels, "key")
				if strings.ContainsAny(st.Key, " .-") {
					res.Labels = append(res.Labels, "quoted-key")
				}
			case "pipe":
				res.Labels = append(res.Labels, "pipe")
				for _, p := range st.Pipes {
					if p.Type != "" {
						res.Labels = append(res.Labels, "pipe|"+p.Type)
					}
				}
			case "idx":
				if st.Keep {
					res.Labels = append(res.Labels, "keep")
				}
				if len(st.Dims) > 1 {
					res.Labels = append(res.Labels, "multi-dim")
				}
				for _, d := range st.Dims {
					res.Labels = append(res.Labels, "dim:"+d.K)
				}
			}
		}
	}
	if len(c.Sel.Parts) > 1 {
		res.Labels = append(res.Labels, "continuation")
	}
	res.Labels = dedup(res.Labels)
	for i, d := range []map[string]any{c.Doc, c.Doc2} {
		if d == nil {
			continue
		}
		got := o1
		if i == 1 {
			got = o2
		}
		want, err := selref.Eval(c.Sel, d)
		switch e := err.(type) {
		case nil:
			if got.err != "" || !val.Equal(got.v, val.Norm(want)) {
				res.Violation = fmt.Sprintf("selector %q on %s\n  expected value %s\n  got %s", text, truncate(val.JSON(d), 1500), truncate(val.JSON(want), 1500), got)
				return res
			}
			if i == 0 {
				res.Labels = append(res.Labels, "outcome:value")
				res.NonTrivial = nsteps >= 2 && want != nil
			}
		case *selref.MustFail:
			if got.err == "" {
				res.Violation = fmt.Sprintf("selector %q on %s\n  the documented meaning prescribes an error (%s)\n  got %s", text, truncate(val.JSON(d), 1500), e.Why, got)
				return res
			}
			if i == 0 {
				res.Labels = append(res.Labels, "outcome:error")
				res.NonTrivial = true
			}
		case *selref.Unspecified:
			if i == 0 {
				res.Discard = e.Why
				return res
			}
		default:
			res.Harness = err.Error()
			return res
		}
	}
	return res
}

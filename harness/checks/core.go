// Package checks holds one generated check per property. A check is split into
//
//	Gen   - a rapid generator producing a JSON-serialisable *case* (all random choices are rapid draws),
//	Check - a pure function of the case that runs the engine and the oracle and returns a Result.
//
// Because Check only depends on the case, a shrunk failure is written out as JSON and can be
// replayed later without rapid (vcheck -replay), and curated cases live in corpus/<id>/ as a
// seconds-long regression tier.
package checks

import (
	"crypto/sha256"
	"encoding/hex"
	"encoding/json"
	"fmt"
	"os"
	"path/filepath"
	"runtime/debug"
	"sort"
	"strings"
	"sync"

	"pgregory.net/rapid"
)

// Result is the verdict of one case.
type Result struct {
	Violation  string   // non-empty: the property is violated on this case
	NonTrivial bool     // the case satisfies the property's non-trivial rule
	Labels     []string // classification labels for the evidence distribution
	Discard    string   // non-empty: case left the specified domain (counted, not judged)
	KnownKey   string   // classifier key of the known-finding class this case belongs to ("" = none)
	Harness    string   // non-empty: the harness itself failed (inconclusive, never a violation)
	Execs      int      // number of engine executions performed for this case
	// Counts are property-specific counters summed over all cases into the evidence (coverage.<key>)
	Counts map[string]float64
}

// Prop describes one property check.
type Prop struct {
	ID          string
	Title       string
	Level       string // exploration | fault_enumeration
	Rule        string
	Assumptions []string
	Gen         func(t *rapid.T) any
	New         func() any
	Check       func(c any) Result
	Quick       int  // rapid cases in the quick tier
	Thorough    int  // rapid cases per shard in the thorough tier
	Shards      int  // shards in the thorough tier (default 16)
	Race        bool // run every shard under the race detector
	// RaceQuick / RaceThorough: number of cases of an additional shard built with -race
	RaceQuick, RaceThorough int
	FuzzTargets             []string // native fuzz targets (thorough tier)
	FuzzSeconds             int
	// Extra, when set, runs once per process before the rapid search (e.g. C15's exhaustive domain)
	// and returns a violation description (with the case to save) or "".
	Extra func(st *Stats) (violation string, c any)
	// Exhaustive marks evidence as exhaustive over a finite domain (C15 enumerated part)
	Exhaustive bool
	// RaceWorker: the check needs the child-process worker built with the race detector
	RaceWorker bool
}

var registry = map[string]*Prop{}

func Register(p *Prop) {
	if p.Level == "" {
		p.Level = "exploration"
	}
	if p.Shards == 0 {
		p.Shards = 16
	}
	registry[p.ID] = p
}

func Lookup(id string) *Prop { return registry[id] }

func IDs() []string {
	ids := make([]string, 0, len(registry))
	for id := range registry {
		ids = append(ids, id)
	}
	sort.Strings(ids)
	return ids
}

// ------------------------------------------------------------------------------------------------
// Stats

type Stats struct {
	mu            sync.Mutex
	Prop          string            `json:"prop"`
	Evaluations   int               `json:"evaluations"`
	EngineExecs   int               `json:"engine_execs"`
	NonTrivial    int               `json:"nontrivial"`
	Discards      int               `json:"discards"`
	DiscardWhy    map[string]int    `json:"discard_why,omitempty"`
	Labels        map[string]int    `json:"labels"`
	KnownRouted   map[string]int    `json:"known_routed,omitempty"` // cases in a listed known-finding class
	KnownFailed   map[string]int    `json:"known_failed,omitempty"` // ... of which still fail
	KnownExample  map[string]string `json:"known_example,omitempty"`
	Hashes        []string          `json:"hashes"` // distinct non-trivial case hashes (16 hex chars)
	Samples       []json.RawMessage `json:"samples"`
	CorpusCases   int               `json:"corpus_cases"`
	Violations    int               `json:"violations"`
	Requested     int               `json:"requested"`
	Extra         map[string]any    `json:"extra,omitempty"`
	hashSet       map[string]struct{}
	frozen        bool
	sampleEvery   int
	nontrivialSeq int
}

func NewStats(id string) *Stats {
	return &Stats{Prop: id, Labels: map[string]int{}, DiscardWhy: map[string]int{}, KnownRouted: map[string]int{},
		KnownFailed: map[string]int{}, KnownExample: map[string]string{}, hashSet: map[string]struct{}{}, Extra: map[string]any{}}
}

func caseHash(c any) (string, []byte) {
	b, err := json.Marshal(c)
	if err != nil {
		b = []byte(fmt.Sprintf("%#v", c))
	}
	h := sha256.Sum256(b)
	return hex.EncodeToString(h[:8]), b
}

// Record accounts for one judged case. Cases seen after the first violation (shrinking) are not
// counted.
func (s *Stats) Record(c any, r Result) {
	s.mu.Lock()
	defer s.mu.Unlock()
	if s.frozen {
		return
	}
	s.Evaluations++
	s.EngineExecs += r.Execs
	if r.Discard != "" {
		s.Discards++
		s.DiscardWhy[truncate(r.Discard, 60)]++
		return
	}
	for _, l := range r.Labels {
		s.Labels[l]++
	}
	for k, v := range r.Counts {
		prev, _ := s.Extra[k].(float64)
		s.Extra[k] = prev + v
	}
	if r.NonTrivial {
		s.NonTrivial++
		h, raw := caseHash(c)
		if _, ok := s.hashSet[h]; !ok {
			s.hashSet[h] = struct{}{}
			s.nontrivialSeq++
			// keep the first 2 and then a thinning selection, at most 6
			n := s.nontrivialSeq
			if len(s.Samples) < 2 || (len(s.Samples) < 6 && n%257 == 0) {
				if len(raw) < 6000 {
					s.Samples = append(s.Samples, json.RawMessage(raw))
				}
			}
		}
	}
}

func (s *Stats) Freeze() { s.mu.Lock(); s.frozen = true; s.mu.Unlock() }

func (s *Stats) Write(path string) error {
	s.mu.Lock()
	defer s.mu.Unlock()
	s.Hashes = s.Hashes[:0]
	for h := range s.hashSet {
		s.Hashes = append(s.Hashes, h)
	}
	sort.Strings(s.Hashes)
	b, err := json.Marshal(s)
	if err != nil {
		return err
	}
	return os.WriteFile(path, b, 0o644)
}

func truncate(s string, n int) string {
	if len(s) <= n {
		return s
	}
	return s[:n]
}

// ------------------------------------------------------------------------------------------------
// Known findings

// KnownFindings parses KNOWN_FINDINGS.txt: lines `known: property=<id> key=<key> <description>` list
// open findings (suppressing exactly the generator-level class <key> of property <id>); lines
// `fixed: ...` are documentation only and suppress nothing.
func LoadKnown(path string) (map[string]map[string]string, error) {
	out := map[string]map[string]string{}
	b, err := os.ReadFile(path)
	if err != nil {
		if os.IsNotExist(err) {
			return out, nil
		}
		return nil, err
	}
	for _, line := range strings.Split(string(b), "\n") {
		line = strings.TrimSpace(line)
		if !strings.HasPrefix(line, "known:") {
			continue
		}
		fields := strings.Fields(strings.TrimPrefix(line, "known:"))
		var id, key string
		var rest []string
		for _, f := range fields {
			switch {
			case strings.HasPrefix(f, "property=") && id == "":
				id = strings.TrimPrefix(f, "property=")
			case strings.HasPrefix(f, "key=") && key == "":
				key = strings.TrimPrefix(f, "key=")
			default:
				rest = append(rest, f)
			}
		}
		if id == "" || key == "" {
			continue
		}
		if out[id] == nil {
			out[id] = map[string]string{}
		}
		out[id][key] = strings.Join(rest, " ")
	}
	return out, nil
}

// ------------------------------------------------------------------------------------------------
// Running a case

type Runner struct {
	P        *Prop
	St       *Stats
	Known    map[string]string // key -> description, for this property
	ReplayTo string            // directory for last.json / inflight.json ("" = none)
	inflight *os.File
}

// Judge runs Check on c under a recover (a panic outside the engine wrapper is a harness error),
// routes known-finding classes and records statistics. It returns the violation text ("" = held)
// and the harness error ("" = none).
func (rn *Runner) Judge(c any) (violation string, harness string) {
	rn.writeInflight(c)
	r := safeCheck(rn.P, c)
	if r.Harness != "" {
		return "", r.Harness
	}
	if r.Violation != "" && r.KnownKey != "" {
		if desc, ok := rn.Known[r.KnownKey]; ok {
			rn.St.mu.Lock()
			rn.St.KnownFailed[r.KnownKey]++
			if _, ok := rn.St.KnownExample[r.KnownKey]; !ok {
				rn.St.KnownExample[r.KnownKey] = truncate(r.Violation, 300)
			}
			rn.St.mu.Unlock()
			_ = desc
			r.Violation = ""
			r.NonTrivial = false // known-class cases do not count towards the explored non-trivial set
		}
	}
	if r.KnownKey != "" {
		if _, ok := rn.Known[r.KnownKey]; ok {
			rn.St.mu.Lock()
			rn.St.KnownRouted[r.KnownKey]++
			rn.St.mu.Unlock()
		}
	}
	if r.Violation != "" {
		rn.St.mu.Lock()
		rn.St.Violations++
		rn.St.mu.Unlock()
		rn.St.Record(c, r)
		rn.St.Freeze()
		rn.writeFailure(c, r.Violation)
		return r.Violation, ""
	}
	rn.St.Record(c, r)
	return "", ""
}

func safeCheck(p *Prop, c any) (r Result) {
	defer func() {
		if x := recover(); x != nil {
			r = Result{Harness: fmt.Sprintf("panic in harness: %v\n%s", x, debug.Stack())}
		}
	}()
	return p.Check(c)
}

type failureFile struct {
	Property  string          `json:"property"`
	Violation string          `json:"violation"`
	Case      json.RawMessage `json:"case"`
}

func (rn *Runner) writeFailure(c any, violation string) {
	if rn.ReplayTo == "" {
		return
	}
	raw, err := json.MarshalIndent(c, "  ", "  ")
	if err != nil {
		raw = []byte(`"unserialisable case"`)
	}
	b, _ := json.MarshalIndent(failureFile{Property: rn.P.ID, Violation: violation, Case: raw}, "", "  ")
	_ = os.MkdirAll(rn.ReplayTo, 0o755)
	_ = os.WriteFile(filepath.Join(rn.ReplayTo, "last.json"), b, 0o644)
}

func (rn *Runner) writeInflight(c any) {
	if rn.ReplayTo == "" {
		return
	}
	if rn.inflight == nil {
		_ = os.MkdirAll(rn.ReplayTo, 0o755)
		f, err := os.Create(filepath.Join(rn.ReplayTo, fmt.Sprintf("inflight.%d.json", os.Getpid())))
		if err != nil {
			return
		}
		rn.inflight = f
	}
	raw, err := json.Marshal(c)
	if err != nil {
		return
	}
	b, _ := json.Marshal(failureFile{Property: rn.P.ID, Violation: "process died while this case was executing", Case: raw})
	_, _ = rn.inflight.Seek(0, 0)
	_ = rn.inflight.Truncate(0)
	_, _ = rn.inflight.Write(b)
}

// CloseInflight removes the in-flight marker after a clean run.
func (rn *Runner) CloseInflight() {
	if rn.inflight != nil {
		name := rn.inflight.Name()
		rn.inflight.Close()
		os.Remove(name)
		rn.inflight = nil
	}
}

// LoadCase decodes a replay/corpus file (either a failureFile wrapper or a bare case).
func LoadCase(p *Prop, path string) (any, error) {
	b, err := os.ReadFile(path)
	if err != nil {
		return nil, err
	}
	var ff failureFile
	if err := json.Unmarshal(b, &ff); err == nil && len(ff.Case) > 0 {
		b = ff.Case
	}
	c := p.New()
	dec := json.NewDecoder(strings.NewReader(string(b)))
	if err := dec.Decode(c); err != nil {
		return nil, err
	}
	return c, nil
}

package checks

import (
	"encoding/json"
	"os"
	"path/filepath"
	"sort"
	"testing"

	"pgregory.net/rapid"
)

// TestProp is the single entry point of the test binary; the driver selects the property through
// VERIF_PROP and passes -rapid.checks / -rapid.seed.
//
//	VERIF_PROP        property id (required)
//	VERIF_STATS       file to write run statistics to
//	VERIF_REPLAY      replay one saved case (no rapid, no corpus) and exit
//	VERIF_REPLAY_DIR  where last.json / inflight files go
//	VERIF_KNOWN       path of KNOWN_FINDINGS.txt
//	VERIF_CORPUS      corpus root (corpus/<id>/*.json are replayed first)
//	VERIF_NORAPID     "1": corpus + Extra only
func TestProp(t *testing.T) {
	id := os.Getenv("VERIF_PROP")
	if id == "" {
		t.Skip("VERIF_PROP not set")
	}
	p := Lookup(id)
	if p == nil {
		t.Fatalf("HARNESS-ERROR: unknown property %q", id)
	}
	st := NewStats(id)
	known, err := LoadKnown(os.Getenv("VERIF_KNOWN"))
	if err != nil {
		t.Fatalf("HARNESS-ERROR: %v", err)
	}
	rn := &Runner{P: p, St: st, Known: known[id], ReplayTo: os.Getenv("VERIF_REPLAY_DIR")}
	defer func() {
		if f := os.Getenv("VERIF_STATS"); f != "" {
			if err := st.Write(f); err != nil {
				t.Errorf("HARNESS-ERROR: writing stats: %v", err)
			}
		}
	}()

	if f := os.Getenv("VERIF_REPLAY"); f != "" {
		c, err := LoadCase(p, f)
		if err != nil {
			t.Fatalf("HARNESS-ERROR: loading %s: %v", f, err)
		}
		v, h := rn.Judge(c)
		rn.CloseInflight()
		if h != "" {
			t.Fatalf("HARNESS-ERROR: %s", h)
		}
		if v != "" {
			t.Fatalf("VIOLATION-TEXT: %s", v)
		}
		return
	}

	if root := os.Getenv("VERIF_CORPUS"); root != "" && os.Getenv("VERIF_SKIP_CORPUS") == "" {
		files, _ := filepath.Glob(filepath.Join(root, id, "*.json"))
		sort.Strings(files)
		for _, f := range files {
			c, err := LoadCase(p, f)
			if err != nil {
				t.Fatalf("HARNESS-ERROR: loading %s: %v", f, err)
			}
			st.CorpusCases++
			v, h := rn.Judge(c)
			if h != "" {
				t.Fatalf("HARNESS-ERROR: corpus %s: %s", f, h)
			}
			if v != "" {
				t.Fatalf("VIOLATION-TEXT: corpus case %s: %s", f, v)
			}
		}
	}

	if p.Extra != nil && os.Getenv("VERIF_SKIP_CORPUS") == "" {
		v, c := p.Extra(st)
		if v != "" {
			st.Evaluations++
			st.Violations++
			rn.writeFailure(c, v)
			t.Fatalf("VIOLATION-TEXT: %s", v)
		}
	}

	if os.Getenv("VERIF_NORAPID") == "1" || p.Gen == nil {
		rn.CloseInflight()
		return
	}
	rapid.Check(t, func(rt *rapid.T) {
		c := p.Gen(rt)
		v, h := rn.Judge(c)
		if h != "" {
			rt.Fatalf("HARNESS-ERROR: %s", h)
		}
		if v != "" {
			rt.Fatalf("VIOLATION-TEXT: %s", v)
		}
	})
	if !t.Failed() {
		rn.CloseInflight()
	}
}

// TestDescribe writes the registry metadata for the driver.
func TestDescribe(t *testing.T) {
	f := os.Getenv("VERIF_DESCRIBE")
	if f == "" {
		t.Skip()
	}
	type meta struct {
		ID           string   `json:"id"`
		Title        string   `json:"title"`
		Level        string   `json:"level"`
		Rule         string   `json:"rule"`
		Assumptions  []string `json:"assumptions"`
		Quick        int      `json:"quick"`
		Thorough     int      `json:"thorough"`
		Shards       int      `json:"shards"`
		Race         bool     `json:"race"`
		RaceQuick    int      `json:"race_quick"`
		RaceThorough int      `json:"race_thorough"`
		Exhaustive   bool     `json:"exhaustive"`
		HasGen       bool     `json:"has_gen"`
		FuzzTargets  []string `json:"fuzz_targets"`
		FuzzSeconds  int      `json:"fuzz_seconds"`
		RaceWorker   bool     `json:"race_worker"`
	}
	var list []meta
	for _, id := range IDs() {
		p := Lookup(id)
		list = append(list, meta{p.ID, p.Title, p.Level, p.Rule, p.Assumptions, p.Quick, p.Thorough, p.Shards, p.Race, p.RaceQuick, p.RaceThorough, p.Exhaustive, p.Gen != nil, p.FuzzTargets, p.FuzzSeconds, p.RaceWorker})
	}
	b, _ := json.Marshal(list)
	if err := os.WriteFile(f, b, 0o644); err != nil {
		t.Fatal(err)
	}
}

package checks

import (
	"fmt"
	"regexp"
	"strings"

	"pgregory.net/rapid"
	"verifharness/sq"
	"verifharness/val"
)

// C19 - a failure anywhere surfaces as an error, never as a partial result (fault enumeration).

type C19Case struct {
	W     *WideQ `json:"w"`
	Plant int    `json:"plant"` // index of the fault marker that carries the fault
	Kind  string `json:"kind"`  // fn (vf_fail returns an error at invocation k, every k) | type (type error planted at the position) | raise | selector
	// selector kind: a selector that cannot be parsed (malformed range), planted at the position; {ITEMS} / {K}
	// stand for the array / scalar column, {N} for a per-execution nonce. Selectors that fail only at run time
	// are not used: whether they fail depends on the rows of the position they are planted in
	BadSel string `json:"bad_selector,omitempty"`
	// Spin (kind fn): the failing call is the ARGUMENT of a SPIN / SPINASYNC call - the argument is evaluated
	// synchronously, so its failure is the query's failure, whatever happens to the qualified call itself
	Spin string `json:"spin,omitempty"`
	// raise kind
	// Once (fn kind): the failing call carries the synchronous qualifier ONCE (one invocation per query)
	Once bool `json:"once,omitempty"`
	// ErrVal (fn kind): what the failing invocation returns next to its error (0 nothing, 1 Go int 0, 2 its
	// argument, 3 a float32); External: the function was registered through RegisterExternalFunction
	ErrVal    int    `json:"err_val,omitempty"`
	External  bool   `json:"external,omitempty"`
	RaiseSQL  string `json:"raise_sql,omitempty"`  // query containing RAISE / RAISE_WHEN
	RaiseProb string `json:"raise_prob,omitempty"` // probe query: non-empty result <=> the raise fires
}

const c19MaxK = 64

func genC19(t *rapid.T) any {
	kind := rapid.SampledFrom([]string{"fn", "fn", "fn", "fn", "type", "raise", "selector", "aggdata", "orderkey", "path"}).Draw(t, "kind")
	c := &C19Case{Kind: kind}
	if kind == "orderkey" {
		// a sort key that cannot be read on the rows being sorted (index beyond a nested array, a path through a
		// scalar, a malformed bracket): reading it in the select list fails, so sorting by it fails as well
		doc, sc := genC07Doc(t)
		c.W = &WideQ{Doc: doc, Construct: "orderkey"}
		bad := rapid.SampledFrom([]string{"`" + sc.items + "[5]." + sc.p + "`", "`" + sc.k + ".x`", "`" + sc.s + "[0]`", "`" + sc.items + "[(2:9)]`", "`nokey[(1:x)]`", "`" + sc.items + "[each,0]`"}).Draw(t, "ok.key")
		dir := rapid.SampledFrom([]string{"", " DESC", " ASC"}).Draw(t, "ok.dir")
		tail := rapid.SampledFrom([]string{"", ", " + sc.k, " LIMIT 1", ", " + sc.k + " DESC LIMIT 2 OFFSET 1"}).Draw(t, "ok.tail")
		q := "SELECT * FROM t ORDER BY " + bad + dir + tail
		if rapid.IntRange(0, 2).Draw(t, "ok.second") == 0 {
			// the unreadable key comes second (or third), after keys on which every row ties: each row takes part in at
			// least one comparison, every comparison ties on the leading keys and has to read the key that cannot be read
			lead := rapid.SampledFrom([]string{"one, ", "one DESC, ", "one, two DESC, "}).Draw(t, "ok.lead")
			q = "SELECT *, 1 AS one, 'c' AS two FROM t ORDER BY " + lead + bad + dir + tail
		}
		c.RaiseSQL = rapid.SampledFrom([]string{q, q, "SELECT * FROM (" + q + ") x", "WITH c AS (" + q + ") SELECT * FROM c", "SELECT " + sc.k + ", (SELECT * FROM `<-t` ORDER BY " + bad + ") AS sb FROM t"}).Draw(t, "ok.form")
		c.RaiseProb = "SELECT " + bad + " AS z FROM t"
		return c
	}
	if kind == "aggdata" {
		// a type error that sits in the data: a numeric column holds, in one row, a value SUM / AVG cannot add up
		n := rapid.IntRange(1, 7).Draw(t, "ad.rows")
		bad := rapid.IntRange(0, n-1).Draw(t, "ad.bad")
		rows := []any{}
		for i := 0; i < n; i++ {
			var v any = rapid.SampledFrom([]float64{1.5, 2, -3, 0, 10}).Draw(t, fmt.Sprintf("ad.v%d", i))
			if i == bad {
				v = rapid.SampledFrom([]any{"oops", "", true, map[string]any{"a": 1.0}, []any{1.0}, "12x"}).Draw(t, "ad.badval")
			} else if rapid.IntRange(0, 5).Draw(t, fmt.Sprintf("ad.null%d", i)) == 0 {
				v = nil
			}
			rows = append(rows, map[string]any{"id": float64(i), "k": rapid.SampledFrom([]string{"a", "b"}).Draw(t, fmt.Sprintf("ad.k%d", i)), "v": v})
		}
		c.W = &WideQ{Doc: map[string]any{"t": rows}, Construct: "aggdata"}
		fn := rapid.SampledFrom([]string{"SUM", "AVG"}).Draw(t, "ad.fn")
		where := ""
		if rapid.IntRange(0, 3).Draw(t, "ad.exclude") == 0 {
			where = fmt.Sprintf(" WHERE id != %d", bad)
			c.RaiseProb = "excluded"
		}
		c.RaiseSQL = fmt.Sprintf(rapid.SampledFrom([]string{"SELECT %[1]s(v) AS s FROM t%[2]s", "SELECT k, %[1]s(v) AS a FROM t%[2]s GROUP BY k", "SELECT k FROM t%[2]s GROUP BY k HAVING %[1]s(v) > 0 OR COUNT(*) > 0",
			"SELECT * FROM (SELECT %[1]s(v) AS s FROM t%[2]s) x", "WITH c AS (SELECT %[1]s(v) AS a FROM t%[2]s) SELECT * FROM c", "SELECT %[1]s(v) AS s FROM t%[2]s UNION ALL SELECT id AS s FROM t",
			"SELECT id FROM t UNION ALL SELECT %[1]s(v) AS id FROM t%[2]s", "SELECT COUNT(*) AS n, %[1]s(v) AS s, MAX(id) AS m FROM t%[2]s", "SELECT id, (SELECT %[1]s(v) AS s FROM `<-t`%[2]s) AS sb FROM t"}).Draw(t, "ad.form"), fn, where)
		return c
	}
	if kind == "selector" {
		c.BadSel = rapid.SampledFrom([]string{"nokey[(0:1:{N})]", "nokey[(1:x{N})]", "nokey::[(1:x{N})]", "{ITEMS}[(0:1:{N})]", "{K}[(y{N}:2)]", "{ITEMS}::[(0:1:{N})]"}).Draw(t, "badselector")
	}
	if kind == "raise" {
		doc, sc := genC07Doc(t)
		c.W = &WideQ{Doc: doc, Construct: "raise"}
		if rapid.Bool().Draw(t, "side") {
			b := rapid.IntRange(1, 15).Draw(t, "sidebits")
			c.W.Side = Opts{Unreported: b&1 != 0, Callback: b&2 != 0, Vars: b&4 != 0, Consts: b&8 != 0}
		}
		cond := fmt.Sprintf("%s %s %s", sc.k, rapid.SampledFrom([]string{">", "<", "=", ">="}).Draw(t, "cop"), rapid.SampledFrom([]string{"1", "2", "3", "9"}).Draw(t, "cc"))
		where := fmt.Sprintf("%s %s %s", sc.v, rapid.SampledFrom([]string{">", "<", "!="}).Draw(t, "wop"), rapid.SampledFrom([]string{"0", "1", "2.5"}).Draw(t, "wc"))
		switch rapid.IntRange(0, 4).Draw(t, "form") {
		case 0: // RAISE_WHEN in the select list
			c.RaiseSQL = fmt.Sprintf("SELECT %s, RAISE_WHEN(%s, 'boom') FROM t WHERE %s", sc.k, cond, where)
			c.RaiseProb = fmt.Sprintf("SELECT %s FROM t WHERE %s AND %s", sc.k, where, cond)
		case 1: // unconditional RAISE on every selected row
			c.RaiseSQL = fmt.Sprintf("SELECT %s, RAISE(%s) FROM t WHERE %s", sc.k, sc.s, where)
			c.RaiseProb = fmt.Sprintf("SELECT %s FROM t WHERE %s", sc.k, where)
		case 2: // inside a CTE body
			c.RaiseSQL = fmt.Sprintf("WITH c AS (SELECT %s, RAISE_WHEN(%s, 'boom') FROM t WHERE %s) SELECT * FROM c", sc.k, cond, where)
			c.RaiseProb = fmt.Sprintf("SELECT %s FROM t WHERE %s AND %s", sc.k, where, cond)
		case 3: // inside a derived table
			c.RaiseSQL = fmt.Sprintf("SELECT x.%s FROM (SELECT %s, RAISE_WHEN(%s, 'boom') FROM t WHERE %s) x", sc.k, sc.k, cond, where)
			c.RaiseProb = fmt.Sprintf("SELECT %s FROM t WHERE %s AND %s", sc.k, where, cond)
		default: // inside a row-scoped subquery
			icond := fmt.Sprintf("%s %s %s", sc.p, rapid.SampledFrom([]string{">", "<", "="}).Draw(t, "icop"), rapid.SampledFrom([]string{"1", "2", "5"}).Draw(t, "icc"))
			c.RaiseSQL = fmt.Sprintf("SELECT %s, (SELECT %s, RAISE_WHEN(%s, 'boom') FROM %s) AS sb FROM t WHERE %s", sc.k, sc.p, icond, sc.items, where)
			c.RaiseProb = fmt.Sprintf("SELECT %s FROM t WHERE %s AND EXISTS (SELECT %s FROM %s WHERE %s)", sc.k, where, sc.p, sc.items, icond)
		}
		return c
	}
	c.W = genWide(t, nil)
	ms := c.W.markers()
	c.Plant = rapid.IntRange(0, maxInt(len(ms)-1, 0)).Draw(t, "plant")
	c.Once = kind == "fn" && rapid.IntRange(0, 5).Draw(t, "once") == 0
	if kind == "fn" {
		c.ErrVal = rapid.SampledFrom([]int{0, 0, 0, 1, 2, 3}).Draw(t, "errval")
		c.External = rapid.IntRange(0, 2).Draw(t, "external") == 0
	}
	if kind == "fn" && !c.Once && rapid.IntRange(0, 5).Draw(t, "spin") == 0 {
		c.Spin = rapid.SampledFrom([]string{"SPINASYNC", "SPIN"}).Draw(t, "spinq")
	}
	return c
}

// c19Follow runs the follow-up queries - SELECT * first (it cannot disturb anything), then the same
// query without the fault. With fresh=true every query gets its own pristine copy of doc (the
// reference); otherwise all run on the one input object that the failed query has seen.
func c19Follow(w *WideQ, doc map[string]any, fresh bool) []Out {
	injReset(0, 0)
	prefix := map[bool]string{false: "", true: "root."}[w.Wrapped]
	// first a query over the other table that compares columns only the rows of `t` have (NULL there): whatever
	// the failed query left behind of the row it died on must not show through
	var conds []string
	if rows, ok := w.Doc["t"].([]any); ok {
		seen := map[string]bool{}
		for _, r := range rows {
			rm, _ := r.(map[string]any)
			for _, k := range keysOf(rm) {
				if seen[k] || len(conds) >= 6 || strings.ContainsAny(k, " .-`'\"[]") {
					continue
				}
				switch v := rm[k].(type) {
				case float64:
					seen[k] = true
					conds = append(conds, k+" = "+sq.NumLit(v))
				case string:
					seen[k] = true
					conds = append(conds, k+" = "+sq.StrLit(v))
				}
			}
		}
	}
	qs := []string{"SELECT * FROM " + prefix + "t", w.SQL(-1, "")}
	if len(conds) > 0 {
		qs = append([]string{"SELECT * FROM " + prefix + "t2 WHERE " + strings.Join(conds, " OR ")}, qs...)
	}
	var outs []Out
	for _, q := range qs {
		d := doc
		if fresh {
			d = val.CopyMap(doc)
		}
		outs = append(outs, Run(d, q, w.opts()))
	}
	return outs
}

func sameOut(a, b Out, unordered bool) bool {
	if a.OK() != b.OK() {
		return false
	}
	if !a.OK() {
		return (a.Panic != "") == (b.Panic != "")
	}
	if unordered {
		return val.MultisetEqual(a.Rows, b.Rows)
	}
	return seqEqual(a.Rows, b.Rows)
}

func checkC19(c *C19Case) Result {
	res := Result{}
	if c.W == nil {
		res.Discard = "empty case"
		return res
	}
	if c.Kind == "raise" {
		return checkC19Raise(c)
	}
	if c.Kind == "orderkey" {
		return checkC19OrderKey(c)
	}
	if c.Kind == "aggdata" {
		return checkC19AggData(c)
	}
	w := c.W
	ms := w.markers()
	if c.Plant < 0 || c.Plant >= len(ms) {
		res.Discard = "no such marker"
		return res
	}
	pos := ms[c.Plant].Name
	res.Labels = append(res.Labels, "construct:"+w.Construct, "position:"+pos, "kind:"+c.Kind)

	// fault-free run with the counting function planted: N invocations, result R0
	injReset(0, 0)
	wrapFn := ""
	if c.Once && c.Kind == "fn" && !w.Unordered && !strings.Contains(w.Tpl, "JOIN") {
		// (where the row order is open, which row's argument a ONCE call receives is open too)
		wrapFn = "ONCE.vf_fail"
		res.Labels = append(res.Labels, "fault-in-ONCE-call")
	}
	if c.Spin != "" && c.Kind == "fn" {
		wrapFn = c.Spin + ".vf_id(vf_fail(%s))"
		res.Labels = append(res.Labels, "fault-in-argument-of-"+c.Spin)
	}
	if c.External && c.Kind == "fn" {
		if wrapFn == "" {
			wrapFn = "vf_fail"
		}
		wrapFn = strings.Replace(wrapFn, "vf_fail", "vf_failx", 1)
		res.Labels = append(res.Labels, "fault-in-external-function")
	}
	if c.ErrVal != 0 && c.Kind == "fn" {
		res.Labels = append(res.Labels, fmt.Sprintf("error-with-value:%d", c.ErrVal))
	}
	sqlF := w.SQL(c.Plant, wrapFn)
	base := Run(val.CopyMap(w.Doc), sqlF, w.opts())
	res.Execs++
	n := int(injCalls())
	nScalar := injScalarCalls()
	if !base.OK() {
		if base.Panic != "" {
			res.Discard = "fault-free run panics (C10)"
		} else {
			res.Discard = "the engine does not support a function call at this position: " + pos
		}
		return res
	}
	pristineFollow := c19Follow(w, w.Doc, true)
	res.Execs += 2
	if n == 0 {
		res.Labels = append(res.Labels, "N=0")
		return res
	}
	if c.Kind == "selector" {
		// a selector that fails when evaluated on its own must fail at every position where it is
		// evaluated - the first time and every time after (the parse cache must not turn the second
		// use into a success)
		// {N} makes the selector text new to the process-wide parse cache, so that the stand-alone
		// probe below is its first use and the planted executions are later uses
		sel := strings.ReplaceAll(c.BadSel, "{N}", fmt.Sprint(2+injEpoch.Add(1)))
		if rows, _ := w.Doc["t"].([]any); len(rows) > 0 {
			if row, ok := rows[0].(map[string]any); ok {
				for k, v := range row {
					switch v.(type) {
					case []any:
						sel = strings.ReplaceAll(sel, "{ITEMS}", k)
					case float64:
						if strings.Contains(sel, "{K}") {
							sel = strings.ReplaceAll(sel, "{K}", k)
						}
					}
				}
			}
		}
		if strings.Contains(sel, "{") && !strings.Contains(sel, ".{p|") {
			res.Discard = "no row to take column names from"
			return res
		}
		probe := Run(val.CopyMap(w.Doc), "SELECT `"+sel+"` AS z FROM "+map[bool]string{false: "t", true: "root.t"}[w.Wrapped], w.opts())
		res.Execs++
		if probe.OK() {
			res.Discard = "the engine accepts this selector on this document"
			return res
		}
		res.NonTrivial = true
		sql := w.SQL(c.Plant, "`"+sel+"`%.0s")
		for i := 0; i < 3; i++ {
			doc := val.CopyMap(w.Doc)
			injReset(0, 0)
			out := Run(doc, sql, w.opts())
			res.Execs++
			if out.Panic != "" {
				res.Violation = fmt.Sprintf("%s\n  panic escaped: %s", sql, out.Panic)
				return res
			}
			if out.OK() {
				res.Violation = fmt.Sprintf("a failing selector at position %s is swallowed on execution %d\n  %s\n  returned %s\n  (the selector alone is rejected: %s; the position is evaluated %d times in %s)", pos, i+1, sql, val.JSON(out.Rows), probe.Describe(), n, sqlF)
				return res
			}
			if out.ErrRows > 0 {
				res.Violation = fmt.Sprintf("%s\n  returned an error together with %d rows", sql, out.ErrRows)
				return res
			}
			if r := c19AfterFailure(c, w, doc, pristineFollow, sql, &res); r.Violation != "" {
				return r
			}
		}
		return res
	}
	if c.Kind == "path" {
		// a type error of the selector kind: the expression at the position is a column reference that holds a
		// scalar in at least one evaluated row (seen by the counting function of the fault-free run); a key step
		// applied to it descends into a scalar, which the selector language rejects
		expr := ms[c.Plant].Expr
		if !c19ColumnRef.MatchString(expr) || c19NotAColumn[strings.ToUpper(expr)] {
			res.Discard = "the expression at the position is not a plain column reference"
			return res
		}
		if nScalar == 0 {
			res.Discard = "the column never holds a scalar where the position is evaluated"
			return res
		}
		// (no probe of the simplest position here: that a step applied to a value of the wrong shape yields an error
		// is the documented meaning of the selector language, C09)
		wrap := "`%s.zq`"
		if c.Plant%2 == 1 {
			wrap = "`%s.zq.zr`"
		}
		injReset(0, 0)
		sql := w.SQL(c.Plant, wrap)
		doc := val.CopyMap(w.Doc)
		out := Run(doc, sql, w.opts())
		res.Execs++
		res.NonTrivial = true
		if out.Panic != "" {
			res.Violation = fmt.Sprintf("%s\n  panic escaped: %s", sql, out.Panic)
			return res
		}
		if out.OK() {
			res.Violation = fmt.Sprintf("type error at position %s is swallowed: a key step on a scalar\n  %s\n  returned %s\n  (%s holds a scalar in %d of the %d evaluations of the position in %s; a step applied to a value of the wrong shape yields an error)", pos, sql, val.JSON(out.Rows), expr, nScalar, n, sqlF)
			return res
		}
		if out.ErrRows > 0 {
			res.Violation = fmt.Sprintf("%s\n  returned an error together with %d rows", sql, out.ErrRows)
			return res
		}
		return c19AfterFailure(c, w, doc, pristineFollow, sql, &res)
	}
	if c.Kind == "type" {
		// metamorphic: an expression the engine rejects in the simplest position must be rejected at
		// every position where it is evaluated
		wrap := "(NOT %s)"
		if pos == "is-operand" {
			res.Discard = "NOT NULL is not a type error"
			return res
		}
		if ms[c.Plant].Expr == "TRUE" {
			res.Discard = "NOT <boolean> is not a type error"
			return res
		}
		probeSQL := "SELECT (NOT 5) AS z FROM t / SELECT (NOT 'a') AS z FROM t"
		for _, q := range strings.Split(probeSQL, " / ") {
			probe := Run(map[string]any{"t": []any{map[string]any{"a": 1.0}}}, q, Opts{})
			res.Execs++
			if probe.OK() {
				res.Discard = "the engine does not treat NOT <non-boolean> as a type error"
				return res
			}
		}
		injReset(0, 0)
		sql := w.SQL(c.Plant, wrap)
		doc := val.CopyMap(w.Doc)
		out := Run(doc, sql, w.opts())
		res.Execs++
		res.NonTrivial = true
		if out.Panic != "" {
			res.Violation = fmt.Sprintf("%s\n  panic escaped: %s", sql, out.Panic)
			return res
		}
		if out.OK() {
			res.Violation = fmt.Sprintf("type error at position %s is swallowed\n  %s\n  returned %s\n  (the same expression is rejected by %s; the position is evaluated %d times in %s)", pos, sql, val.JSON(out.Rows), probeSQL, n, sqlF)
			return res
		}
		if out.ErrRows > 0 {
			res.Violation = fmt.Sprintf("%s\n  returned an error together with %d rows", sql, out.ErrRows)
			return res
		}
		return c19AfterFailure(c, w, doc, pristineFollow, sql, &res)
	}
	// fn: every k in 1..N
	limit := n
	if limit > c19MaxK {
		limit = c19MaxK
		res.Labels = append(res.Labels, "k-capped-at-64")
	}
	for k := 1; k <= limit; k++ {
		injReset(int64(k), 0)
		injSetErrVal(c.ErrVal)
		doc := val.CopyMap(w.Doc)
		prepared := Build(doc, sqlF, w.opts())
		out := prepared.Exec()
		res.Execs++
		fired := injFailed() > 0
		ctx := fmt.Sprintf("%s\n  with vf_fail failing at its invocation %d of %d (position %s)", sqlF, k, n, pos)
		if out.Panic != "" {
			res.Violation = ctx + "\n  panic escaped: " + out.Panic
			return res
		}
		if !fired {
			// a correct engine may stop evaluating earlier on this run only if the run differs from the
			// fault-free one, which it cannot before the fault: report
			res.Violation = ctx + fmt.Sprintf("\n  the fault was never reached although the fault-free run performs %d invocations (non-deterministic evaluation?)", n)
			return res
		}
		if out.OK() {
			res.Violation = ctx + "\n  the failure was swallowed: Exec returned " + val.JSON(out.Rows) + "\n  fault-free result " + val.JSON(base.Rows)
			return res
		}
		if out.ErrRows > 0 {
			res.Violation = ctx + fmt.Sprintf("\n  returned an error together with %d rows", out.ErrRows)
			return res
		}
		if r := c19AfterFailure(c, w, doc, pristineFollow, ctx, &res); r.Violation != "" {
			return r
		}
		if prepared.q != nil && k%3 == 1 {
			// the Query object whose Exec failed is executed again, this time without the fault: it is the next
			// query on that input as well, and returns what the fault-free run returns
			injReset(0, 0)
			again := prepared.Exec()
			res.Execs++
			res.Labels = append(res.Labels, "failed-query-object-executed-again")
			if !sameOut(again, base, w.Unordered) {
				res.Violation = ctx + "\n  the same Query object, executed again without the fault, returns\n    " + again.Describe() + "\n  the fault-free run returns\n    " + base.Describe()
				return res
			}
		}
	}
	res.Labels = dedup(res.Labels)
	res.NonTrivial = n >= 2
	res.Labels = append(res.Labels, fmt.Sprintf("N:%s", bucket(n)))
	res.Counts = map[string]float64{"fault_points_enumerated": float64(limit), "fault_points_capped": float64(n - limit), "queries_with_all_k_enumerated": 1}
	return res
}

func bucket(n int) string {
	switch {
	case n <= 1:
		return "1"
	case n <= 3:
		return "2-3"
	case n <= 8:
		return "4-8"
	case n <= 20:
		return "9-20"
	}
	return ">20"
}

// c19AfterFailure: the library stays usable - follow-up queries on the same input object behave as
// on a pristine copy.
func c19AfterFailure(c *C19Case, w *WideQ, doc map[string]any, pristine []Out, ctx string, res *Result) Result {
	after := c19Follow(w, doc, false)
	res.Execs += len(after)
	for i := range after {
		if !sameOut(after[i], pristine[i], w.Unordered) {
			names := []string{"SELECT * FROM the table", "the same query without the fault"}
			if len(after) == 3 {
				names = append([]string{"a query over the other table comparing columns of this one"}, names...)
			}
			what := names[i]
			res.Violation = fmt.Sprintf("%s\n  after this failure, %s on the same input returns\n    %s\n  but on a pristine copy of the input\n    %s", ctx, what, after[i].Describe(), pristine[i].Describe())
			return *res
		}
	}
	return *res
}

func checkC19Raise(c *C19Case) Result {
	res := Result{}
	w := c.W
	res.Labels = append(res.Labels, "construct:raise", "kind:raise")
	injReset(0, 0)
	probe := Run(val.CopyMap(w.Doc), c.RaiseProb, Opts{})
	res.Execs++
	if !probe.OK() {
		res.Discard = "probe query fails: " + probe.Describe()
		return res
	}
	fires := len(probe.Rows) > 0
	doc := val.CopyMap(w.Doc)
	side := w.Side // side-channel options (UnReportedErrors handler installed, ...) never turn a RAISE into a success
	out := Run(doc, c.RaiseSQL, side)
	res.Execs++
	res.Labels = append(res.Labels, "options:"+side.String())
	if out.Panic != "" {
		res.Violation = c.RaiseSQL + "\n  panic escaped: " + out.Panic
		return res
	}
	res.NonTrivial = fires
	if fires {
		res.Labels = append(res.Labels, "raise:fires")
		if out.OK() {
			res.Violation = fmt.Sprintf("%s\n  RAISE fires on %d row(s) (probe %s) but Exec returned %s", c.RaiseSQL, len(probe.Rows), c.RaiseProb, val.JSON(out.Rows))
			return res
		}
		if out.ErrRows > 0 {
			res.Violation = fmt.Sprintf("%s\n  returned an error together with %d rows", c.RaiseSQL, out.ErrRows)
			return res
		}
		// follow-up on the same input
		after := Run(doc, "SELECT * FROM t", Opts{})
		pristine := Run(val.CopyMap(w.Doc), "SELECT * FROM t", Opts{})
		res.Execs += 2
		if !sameOut(after, pristine, false) {
			res.Violation = fmt.Sprintf("%s\n  after this failure SELECT * FROM t on the same input returns %s, on a pristine copy %s", c.RaiseSQL, after.Describe(), pristine.Describe())
		}
		return res
	}
	res.Labels = append(res.Labels, "raise:silent")
	if !out.OK() {
		res.Violation = fmt.Sprintf("%s\n  no row satisfies the RAISE condition (probe %s is empty) but Exec failed: %s", c.RaiseSQL, c.RaiseProb, out.Describe())
	}
	return res
}

// c19Grid (runs once per check, before the random search): for every wide construct, a fixed number
// of generator examples (drawn with fixed seeds, so the same on every run) x every fault position of the
// template x every invocation index k - the systematic part of the fault enumeration.
func c19Grid(st *Stats) (string, any) {
	constructs := map[string]bool{}
	var order []string
	for _, c := range wideConstructs {
		if !constructs[c] {
			constructs[c] = true
			order = append(order, c)
		}
	}
	queries, positions, points := 0, 0, 0.0
	for _, construct := range order {
		gen := rapid.Custom(func(t *rapid.T) *WideQ { return genWide(t, []string{construct}) })
		for seed := 0; seed < 6; seed++ {
			w := gen.Example(seed)
			queries++
			for plant := range w.markers() {
				c := &C19Case{W: w, Plant: plant, Kind: "fn"}
				r := checkC19(c)
				if r.Harness != "" {
					return "harness: " + r.Harness, c
				}
				if r.Violation != "" {
					return "construct x position x k grid: " + r.Violation, c
				}
				if r.Discard == "" {
					positions++
					points += r.Counts["fault_points_enumerated"]
				}
			}
		}
	}
	st.mu.Lock()
	st.Extra["grid_constructs"] = float64(len(order))
	st.Extra["grid_queries"] = float64(queries)
	st.Extra["grid_positions_enumerated"] = float64(positions)
	st.Extra["grid_fault_points_enumerated"] = points
	st.mu.Unlock()
	return "", nil
}

var c19ColumnRef = regexp.MustCompile(`^[A-Za-z_][A-Za-z0-9_]*(\.[A-Za-z_][A-Za-z0-9_]*)?$`)
var c19NotAColumn = map[string]bool{"TRUE": true, "FALSE": true, "NULL": true}

func init() {
	Register(&Prop{
		ID:    "C19",
		Level: "fault_enumeration",
		Title: "A failure anywhere surfaces as an error - never as a partial result",
		Rule: "[Dimensions added in rounds p-r of the seeded-defect evaluation: kind orderkey also with the unreadable key behind one or two leading keys on which every row ties.] " +
			"rapid draws a document and a query from 47 construct templates (filter, CASE, IN list, BETWEEN, function arguments, GROUP BY/HAVING/aggregates, " +
			"joins incl. PARALLEL/HASH, CTEs (also referenced twice), derived tables, select-item/IN/EXISTS subqueries on the row and on `<-`, UNION chains, " +
			"ORDER BY/LIMIT, DISTINCT, nested FROM, LIKE/IS; Wrapped or not) and one of its fault positions; kind fn: a fault-free run counts the N " +
			"invocations of the planted function, then EVERY k in 1..N (cap 64, reported) is executed with the function returning an error at its k-th " +
			"invocation (a sixth of them under the ONCE qualifier; after every third failing Exec the same Query object is executed again without the fault and must return the fault-free result); kind type: an expression the engine rejects in the simplest position is planted at the position; kind path: where the expression at the position is a column reference that held a scalar in the fault-free run, a key step is appended to it (`col.zq`: a key step on a scalar, rejected by the selector language in the simplest position); kind raise: RAISE / " +
			"RAISE_WHEN in select lists, CTE bodies, derived tables and row-scoped subqueries (half of them with side-channel options such as an UnReportedErrors handler installed) with an engine-evaluated probe deciding whether it " +
			"fires. Oracle: New/Exec return an error and no rows (no panic); afterwards the same query without the fault and SELECT * on the SAME input " +
			"object return what they return on a pristine copy. Non-trivial: N >= 2 (failures mid-stream), a planted type error, or a RAISE that fires. " +
			"Before the random search a fixed grid runs on every invocation: every construct x 6 generator examples with fixed seeds x every fault position x every k. " +
			"evaluations = generated (query, position) cases; engine_executions counts every run incl. all k.",
		Assumptions: []string{
			"only synchronous calls (statement); positions where the engine rejects a function call (join ON, aggregate arguments under GROUP BY) are discarded and counted",
			"a position the fault-free run never evaluates (N=0: untaken branches, GROUP BY expressions the engine ignores) has nothing to enumerate",
		},
		Gen:      genC19,
		New:      func() any { return &C19Case{} },
		Check:    func(c any) Result { return checkC19(c.(*C19Case)) },
		Extra:    c19Grid,
		Quick:    1200,
		Thorough: 60000,
	})
}

// checkC19AggData: SUM / AVG over a column that holds one value they cannot add up (a string, a boolean, an
// object, an array) must fail - wherever that value sits among the rows - and succeed when WHERE excludes the row.
func checkC19OrderKey(c *C19Case) Result {
	res := Result{Labels: []string{"construct:orderkey", "kind:orderkey"}}
	rows, _ := c.W.Doc["t"].([]any)
	if len(rows) < 2 {
		res.Discard = "fewer than two rows: nothing is compared"
		return res
	}
	probe := Run(val.CopyMap(c.W.Doc), c.RaiseProb, Opts{})
	res.Execs++
	if probe.OK() || probe.Panic != "" {
		res.Discard = "the engine reads this key on every row of this document"
		return res
	}
	res.NonTrivial = true
	ctx := fmt.Sprintf("%s over %s", c.RaiseSQL, truncate(val.JSON(c.W.Doc["t"]), 600))
	for i := 0; i < 2; i++ {
		doc := val.CopyMap(c.W.Doc)
		out := Run(doc, c.RaiseSQL, Opts{})
		res.Execs++
		if out.Panic != "" {
			res.Violation = ctx + "\n  panic escaped: " + out.Panic
			return res
		}
		if out.OK() {
			res.Violation = fmt.Sprintf("%s\n  the sort key cannot be read (%s -> %s), but Exec returned %s", ctx, c.RaiseProb, probe.Describe(), val.JSON(out.Rows))
			return res
		}
		if out.ErrRows > 0 {
			res.Violation = fmt.Sprintf("%s\n  returned an error together with %d rows", ctx, out.ErrRows)
			return res
		}
		after := Run(doc, "SELECT * FROM t", Opts{})
		pristine := Run(val.CopyMap(c.W.Doc), "SELECT * FROM t", Opts{})
		res.Execs += 2
		if !sameOut(after, pristine, false) {
			res.Violation = fmt.Sprintf("%s\n  after this failure SELECT * FROM t on the same input returns %s, on a pristine copy %s", ctx, after.Describe(), pristine.Describe())
			return res
		}
	}
	return res
}

func checkC19AggData(c *C19Case) Result {
	res := Result{Labels: []string{"construct:aggdata", "kind:aggdata"}}
	doc := val.CopyMap(c.W.Doc)
	out := Run(doc, c.RaiseSQL, Opts{})
	res.Execs++
	ctx := fmt.Sprintf("%s over %s", c.RaiseSQL, val.JSON(c.W.Doc["t"]))
	if out.Panic != "" {
		res.Violation = ctx + "\n  panic escaped: " + out.Panic
		return res
	}
	if c.RaiseProb == "excluded" {
		res.Labels = append(res.Labels, "aggdata:offending-row-excluded")
		if !out.OK() {
			res.Violation = ctx + "\n  WHERE excludes the row with the non-numeric value, but the query fails: " + out.Describe()
		}
		return res
	}
	res.NonTrivial = true
	res.Labels = append(res.Labels, "aggdata:must-fail")
	if out.OK() {
		res.Violation = ctx + "\n  the aggregate ranges over a value it cannot add up, but Exec returned " + val.JSON(out.Rows)
		return res
	}
	if out.ErrRows > 0 {
		res.Violation = fmt.Sprintf("%s\n  returned an error together with %d rows", ctx, out.ErrRows)
		return res
	}
	after := Run(doc, "SELECT * FROM t", Opts{})
	pristine := Run(val.CopyMap(c.W.Doc), "SELECT * FROM t", Opts{})
	res.Execs += 2
	if !sameOut(after, pristine, false) {
		res.Violation = fmt.Sprintf("%s\n  after this failure SELECT * FROM t on the same input returns %s, on a pristine copy %s", ctx, after.Describe(), pristine.Describe())
	}
	return res
}

package checks

import (
	"fmt"
	"regexp"
	"runtime/debug"
	"sort"
	"strings"

	"pgregory.net/rapid"

	"github.com/vedadiyan/genql"
	"verifharness/val"
)

// Opts are the three boolean query options.
type Opts struct {
	Wrapped bool `json:"wrapped,omitempty"`
	PG      bool `json:"pg,omitempty"`
	Arrays  bool `json:"arrays,omitempty"`
	// options that concern side channels only and never what New/Exec return
	Unreported bool `json:"unreported,omitempty"` // UnReportedErrors(handler)
	Callback   bool `json:"callback,omitempty"`   // CompletedCallback(func)
	Vars       bool `json:"vars,omitempty"`       // WithVars(empty map)
	Consts     bool `json:"consts,omitempty"`     // WithConstants(map without the keys a query uses)
	// Rev: the very same options are handed to New in the opposite order (an option set means the same
	// whatever order the caller lists it in)
	Rev bool `json:"rev,omitempty"`
}

func (o Opts) String() string {
	var p []string
	if o.Wrapped {
		p = append(p, "Wrapped")
	}
	if o.PG {
		p = append(p, "PostgresEscapingDialect")
	}
	if o.Arrays {
		p = append(p, "IdomaticArrays")
	}
	for name, on := range map[string]bool{"UnReportedErrors": o.Unreported, "CompletedCallback": o.Callback, "WithVars": o.Vars, "WithConstants": o.Consts} {
		if on {
			p = append(p, name)
		}
	}
	if len(p) == 0 {
		return "none"
	}
	sort.Strings(p)
	return strings.Join(p, "+")
}

func (o Opts) list() []genql.QueryOption {
	var l []genql.QueryOption
	if o.Wrapped {
		l = append(l, genql.Wrapped())
	}
	if o.PG {
		l = append(l, genql.PostgresEscapingDialect())
	}
	if o.Arrays {
		l = append(l, genql.IdomaticArrays())
	}
	if o.Unreported {
		l = append(l, genql.UnReportedErrors(func(error) {}))
	}
	if o.Callback {
		l = append(l, genql.CompletedCallback(func() {}))
	}
	if o.Vars {
		l = append(l, genql.WithVars(map[string]any{}))
	}
	if o.Consts {
		l = append(l, genql.WithConstants(map[string]any{"unused_constant": 1.0}))
	}
	if o.Rev {
		for i, j := 0, len(l)-1; i < j; i, j = i+1, j-1 {
			l[i], l[j] = l[j], l[i]
		}
	}
	return l
}

// Out is the outcome of New+Exec.
type Out struct {
	Rows  []any  // normalised rows (nil slice -> empty)
	Raw   []any  // rows exactly as returned
	Err   string // error returned by New or Exec ("" = success)
	AtNew bool   // the error came from New
	Panic string // a panic escaped New or Exec
	// ErrRows is the number of rows returned *together with* an error (must be 0)
	ErrRows int
	failed  bool
}

func (o Out) OK() bool { return o.Err == "" && o.Panic == "" }

func (o Out) Describe() string {
	switch {
	case o.Panic != "":
		return "PANIC escaped the API: " + o.Panic
	case o.Err != "":
		where := "Exec"
		if o.AtNew {
			where = "New"
		}
		return where + " error: " + o.Err
	}
	return "rows " + val.JSON(o.Rows)
}

// Run executes sql on doc through the public API. doc is used as given (callers pass a private
// copy unless they want to observe mutation).
// RunN is Run with the same Query object executed n times; the outcome of the last execution counts.
func RunN(doc map[string]any, sql string, o Opts, n int, extra ...genql.QueryOption) (out Out) {
	defer func() {
		if r := recover(); r != nil {
			out = Out{Panic: fmt.Sprintf("%v\n%s", r, trimStack(debug.Stack()))}
		}
	}()
	opts := append(o.list(), extra...)
	q, err := genql.New(doc, sql, opts...)
	if err != nil {
		return Out{Err: err.Error(), AtNew: true}
	}
	for i := 0; i < n; i++ {
		rows, err := q.Exec()
		if err != nil {
			out = Out{Err: err.Error(), ErrRows: len(rows)}
			continue
		}
		out = Out{Raw: rows, Rows: val.NormRows(rows)}
	}
	return out
}

// Prepared is a constructed Query (or the failure to construct one) that can be executed later, any number of times.
type Prepared struct {
	q      *genql.Query
	failed *Out
}

// Build constructs a query under recover without executing it.
func Build(doc map[string]any, sql string, o Opts, extra ...genql.QueryOption) (p *Prepared) {
	defer func() {
		if r := recover(); r != nil {
			p = &Prepared{failed: &Out{Panic: fmt.Sprintf("%v\n%s", r, trimStack(debug.Stack()))}}
		}
	}()
	q, err := genql.New(doc, sql, append(o.list(), extra...)...)
	if err != nil {
		return &Prepared{failed: &Out{Err: err.Error(), AtNew: true}}
	}
	return &Prepared{q: q}
}

// Exec executes the prepared query under recover.
func (p *Prepared) Exec() (out Out) {
	if p.failed != nil {
		return *p.failed
	}
	defer func() {
		if r := recover(); r != nil {
			out = Out{Panic: fmt.Sprintf("%v\n%s", r, trimStack(debug.Stack()))}
		}
	}()
	rows, err := p.q.Exec()
	if err != nil {
		return Out{Err: err.Error(), ErrRows: len(rows)}
	}
	return Out{Raw: rows, Rows: val.NormRows(rows)}
}

func Run(doc map[string]any, sql string, o Opts, extra ...genql.QueryOption) (out Out) {
	defer func() {
		if r := recover(); r != nil {
			out = Out{Panic: fmt.Sprintf("%v\n%s", r, trimStack(debug.Stack()))}
		}
	}()
	opts := append(o.list(), extra...)
	q, err := genql.New(doc, sql, opts...)
	if err != nil {
		return Out{Err: err.Error(), AtNew: true}
	}
	rows, err := q.Exec()
	if err != nil {
		return Out{Err: err.Error(), ErrRows: len(rows)}
	}
	return Out{Raw: rows, Rows: val.NormRows(rows)}
}

func trimStack(b []byte) string {
	s := string(b)
	lines := strings.Split(s, "\n")
	if len(lines) > 24 {
		lines = lines[:24]
	}
	return strings.Join(lines, "\n")
}

// ReadSel executes a selector through the public API under recover.
func ReadSel(doc any, selector string) (v any, errText string, panicText string) {
	defer func() {
		if r := recover(); r != nil {
			v, errText, panicText = nil, "", fmt.Sprintf("%v\n%s", r, trimStack(debug.Stack()))
		}
	}()
	rs, err := genql.ExecReader(doc, selector)
	if err != nil {
		return nil, err.Error(), ""
	}
	return rs, "", ""
}

// ------------------------------------------------------------------------------------------------
// Envelope: ways of running one and the same query that must not change its result. The
// reference-based checks draw an envelope per case so that every oracle is also exercised under
// irrelevant options, natively built Go tables, the Wrapped spelling and a second use of the input.

type Envelope struct {
	PG      bool `json:"pg,omitempty"`       // PostgresEscapingDialect on (the query uses no double quotes)
	Arrays  bool `json:"arrays,omitempty"`   // IdiomaticArrays on (the query uses no brackets outside quotes)
	Wrapped bool `json:"wrapped,omitempty"`  // Wrapped(): FROM <table> is rewritten to FROM root.<table>
	MapRows bool `json:"map_rows,omitempty"` // tables are handed over as []map[string]any instead of []any
	Twice   bool `json:"twice,omitempty"`    // the query is executed twice on the same input object
	Prior   bool `json:"prior,omitempty"`    // the same query text ran before, in this process, on a different document
	Again   bool `json:"again,omitempty"`    // the constructed Query object is executed a second time
	Respell bool `json:"respell,omitempty"`  // keywords in lower case, blanks between tokens turned into tabs / line feeds (outside quotes)
	Side    Opts `json:"side,omitempty"`     // side-channel options (UnReportedErrors / CompletedCallback / WithVars / WithConstants)
	// Poison: indexes into poisonSQL - statements that run (on a document of their own) right before the judged
	// query; most of them fail part-way (a join / sort / grouping key that cannot be read on some row, a planted
	// RAISE, a built-in on an argument it rejects). Their outcome is ignored: a query returns what it returns
	// whatever failed earlier in the process
	Poison []int `json:"poison,omitempty"`
}

var poisonDoc = map[string]any{
	"pa": []any{map[string]any{"k": 1.0, "g": "u", "tags": []any{"a"}, "m": map[string]any{"rev": 1.0}}, map[string]any{"k": 2.0, "g": "u", "tags": []any{}, "m": 7.0}, map[string]any{"k": 3.0, "g": "v", "tags": []any{"b", "c"}, "m": map[string]any{"rev": 2.0}}},
	"pb": []any{map[string]any{"k": 1.0, "tag": "a", "rev": 1.0}, map[string]any{"k": 3.0, "tag": "b", "rev": 2.0}},
}

var poisonSQL = []string{
	"SELECT * FROM pa x JOIN pb y ON x.`tags[0]` = y.tag",
	"SELECT * FROM pb y JOIN pa x ON y.tag = x.`tags[0]`",
	"SELECT * FROM pa x JOIN pb y ON x.k = y.k AND x.`tags[0]` = y.tag",
	"SELECT * FROM pa x JOIN pb y ON x.k = y.k AND x.`m.rev` = y.rev",
	"SELECT * FROM pa x LEFT HASH_JOIN pb y ON x.k = y.k AND x.`m.rev` = y.rev",
	"SELECT * FROM pa x LEFT HASH_JOIN pb y ON x.`tags[0]` = y.tag",
	"SELECT * FROM pa x PARALLEL JOIN pb y ON x.`tags[1]` = y.tag",
	"SELECT * FROM pa x RIGHT JOIN pb y ON x.`k.z` = y.k",
	"SELECT * FROM pa x JOIN pb y ON x.k = y.k AND RAISE('stop')",
	"SELECT * FROM pa ORDER BY `tags[0]`",
	"SELECT * FROM pa ORDER BY g, `m.rev` DESC",
	"SELECT * FROM pa ORDER BY k DESC, `tags[1]`",
	"SELECT DISTINCT `tags[0]` AS f FROM pa",
	"SELECT k, HASH(tags, 'md5') AS h, ENCODE(m, 'hex') AS e FROM pa",
	"SELECT g, SUM(m) AS s FROM pa GROUP BY g",
	"SELECT g, COUNT(*) AS n FROM pa GROUP BY g HAVING RAISE_WHEN(n > 1, 'late') IS NULL",
	"SELECT k FROM `pa[7]`",
	"SELECT (SELECT k FROM `<-pb[9]`) AS s FROM pa",
	"SELECT k FROM pa WHERE RAISE_WHEN(k > 1, 'late') IS NULL",
	"SELECT k FROM pa WHERE k IN (SELECT `tags[0]` FROM `<-pa`)",
	"SELECT k FROM pa UNION SELECT `m.rev` FROM pa",
	"SELECT k, `tags[0]` AS f FROM pa LIMIT 2 OFFSET 1",
}

func runPoison(idx []int) {
	for _, i := range idx {
		if i >= 0 && i < len(poisonSQL) {
			Run(val.CopyMap(poisonDoc), poisonSQL[i], Opts{})
		}
	}
}

func genEnvelope(t *rapid.T, label string) Envelope {
	if rapid.IntRange(0, 2).Draw(t, label+".plain") != 0 {
		return Envelope{}
	}
	b := rapid.IntRange(1, 255).Draw(t, label+".bits")
	e := Envelope{PG: b&1 != 0, Arrays: b&2 != 0, Wrapped: b&4 != 0, MapRows: b&8 != 0, Twice: b&16 != 0, Prior: b&32 != 0, Again: b&64 != 0, Respell: b&128 != 0}
	if rapid.Bool().Draw(t, label+".side") {
		sb := rapid.IntRange(1, 15).Draw(t, label+".sidebits")
		e.Side = Opts{Unreported: sb&1 != 0, Callback: sb&2 != 0, Vars: sb&4 != 0, Consts: sb&8 != 0}
	}
	if rapid.Bool().Draw(t, label+".poison") {
		e.Poison = rapid.SliceOfN(rapid.IntRange(0, len(poisonSQL)-1), 1, 3).Draw(t, label+".poisoned")
	}
	return e
}

func (e Envelope) Labels() []string {
	var l []string
	for name, on := range map[string]bool{"envelope:PostgresEscapingDialect": e.PG, "envelope:IdiomaticArrays": e.Arrays, "envelope:Wrapped": e.Wrapped, "envelope:[]map-tables": e.MapRows, "envelope:executed-twice": e.Twice, "envelope:same-query-object-executed-again": e.Again, "envelope:keywords-lower-case-and-other-white-space": e.Respell, "envelope:same-text-ran-before-on-other-document": e.Prior} {
		if on {
			l = append(l, name)
		}
	}
	if e.Side != (Opts{}) {
		l = append(l, "envelope:side-channel-options")
	}
	if len(e.Poison) > 0 {
		l = append(l, "envelope:after-failing-statements")
	}
	sort.Strings(l)
	return l
}

var fromTableRe = regexp.MustCompile(`\bFROM (\w+)\b`)

// Exec runs sql on doc inside the envelope. doc must be a private copy (it may be re-shaped).
func (e Envelope) Exec(doc map[string]any, sql string) Out {
	if e.MapRows {
		for k, v := range doc {
			if rows, ok := v.([]any); ok {
				typed := make([]map[string]any, 0, len(rows))
				all := true
				for _, r := range rows {
					m, ok := r.(map[string]any)
					if !ok {
						all = false
						break
					}
					typed = append(typed, m)
				}
				if all {
					doc[k] = typed
				}
			}
		}
	}
	o := e.Side
	o.PG, o.Arrays, o.Wrapped = e.PG, e.Arrays, false
	// back references (`<-table`) are spelled relative to the caller's document: leave those alone
	if e.Wrapped && !strings.Contains(sql, "<-") {
		o.Wrapped = true
		sql = fromTableRe.ReplaceAllStringFunc(sql, func(m string) string {
			name := strings.TrimPrefix(m, "FROM ")
			if _, ok := doc[name]; ok {
				return "FROM root." + name
			}
			return m
		})
	}
	if e.Respell {
		sql = respell(sql)
	}
	if e.Prior {
		// what a text returns depends on the document of the call at hand only: the outcome of this run is ignored
		Run(priorDoc(doc), sql, o)
	}
	runPoison(e.Poison)
	var out Out
	if e.Again {
		p := Build(doc, sql, o)
		out = p.Exec()
		if out.OK() {
			again := p.Exec()
			if !again.OK() {
				return Out{Err: "second execution of the same Query object failed: " + again.Describe() + " (first: " + out.Describe() + ")"}
			}
			if !val.MultisetEqual(out.Rows, again.Rows) {
				return Out{Err: "second execution of the same Query object returned " + val.JSON(again.Rows) + ", the first " + val.JSON(out.Rows)}
			}
		}
	} else {
		out = Run(doc, sql, o)
	}
	if e.Twice && out.OK() {
		again := Run(doc, sql, o)
		if !again.OK() {
			return Out{Err: "second execution on the same input object failed: " + again.Describe() + " (first: " + out.Describe() + ")"}
		}
		if !val.MultisetEqual(out.Rows, again.Rows) {
			return Out{Err: "second execution on the same input object returned " + val.JSON(again.Rows) + ", the first " + val.JSON(out.Rows)}
		}
	}
	return out
}

// priorDoc returns a different document of the same shape: every table is rotated by one row and loses a row.
func priorDoc(doc map[string]any) map[string]any {
	d := make(map[string]any, len(doc))
	for k, v := range doc {
		switch rows := v.(type) {
		case []any:
			cp, _ := val.Copy(rows).([]any)
			if len(cp) > 1 {
				cp = append(cp[1:len(cp):len(cp)], cp[0])[1:]
			}
			d[k] = cp
		case []map[string]any:
			cp := make([]map[string]any, 0, len(rows))
			for i := len(rows) - 1; i > 0; i-- {
				cp = append(cp, val.CopyMap(rows[i]))
			}
			d[k] = cp
		default:
			d[k] = val.Copy(v)
		}
	}
	return d
}

var respellWords = map[string]bool{"SELECT": true, "FROM": true, "WHERE": true, "AND": true, "OR": true, "NOT": true, "IN": true, "IS": true, "NULL": true, "AS": true, "GROUP": true, "BY": true, "HAVING": true,
	"ORDER": true, "LIMIT": true, "OFFSET": true, "DISTINCT": true, "UNION": true, "ALL": true, "JOIN": true, "LEFT": true, "RIGHT": true, "INNER": true, "OUTER": true, "ON": true, "CASE": true, "WHEN": true, "THEN": true,
	"ELSE": true, "END": true, "BETWEEN": true, "LIKE": true, "EXISTS": true, "WITH": true, "ASC": true, "DESC": true, "TRUE": true, "FALSE": true, "DIV": true}

// respell rewrites a statement without changing what it says: outside quoted text, the listed keywords are written
// in lower case and every second blank becomes a line feed plus tab. Identifiers, function names, qualifiers
// (ASYNC. ...), PARALLEL / HASH_JOIN / STRAIGHT_JOIN and literals are left as they are.
func respell(sql string) string {
	var sb strings.Builder
	var q byte
	blanks := 0
	i := 0
	for i < len(sql) {
		ch := sql[i]
		switch {
		case q != 0:
			sb.WriteByte(ch)
			if ch == '\\' && q != '`' && i+1 < len(sql) {
				i++
				sb.WriteByte(sql[i])
			} else if ch == q {
				q = 0
			}
			i++
		case ch == '\'' || ch == '"' || ch == '`':
			q = ch
			sb.WriteByte(ch)
			i++
		case ch == ' ':
			blanks++
			if blanks%2 == 0 {
				sb.WriteString("\n\t")
			} else {
				sb.WriteByte(' ')
			}
			i++
		case ch >= 'A' && ch <= 'Z' || ch >= 'a' && ch <= 'z' || ch == '_':
			j := i
			for j < len(sql) && (sql[j] >= 'A' && sql[j] <= 'Z' || sql[j] >= 'a' && sql[j] <= 'z' || sql[j] >= '0' && sql[j] <= '9' || sql[j] == '_') {
				j++
			}
			w := sql[i:j]
			prevDot := i > 0 && sql[i-1] == '.'
			nextDotOrParen := j < len(sql) && (sql[j] == '.' || sql[j] == '(')
			if respellWords[w] && !prevDot && !nextDotOrParen {
				w = strings.ToLower(w)
			}
			sb.WriteString(w)
			i = j
		default:
			sb.WriteByte(ch)
			i++
		}
	}
	return sb.String()
}

package checks

import (
	"fmt"
	"runtime/debug"
	"strings"

	"github.com/vedadiyan/genql"
	"verifharness/val"
)

// Opts are the three boolean query options.
type Opts struct {
	Wrapped bool `json:"wrapped,omitempty"`
	PG      bool `json:"pg,omitempty"`
	Arrays  bool `json:"arrays,omitempty"`
}

func (o Opts) String() string {
	var p []string
	if o.Wrapped {
		p = append(p, "Wrapped")
	}
	if o.PG {
		p = append(p, "PostgresEscapingDialect")
	}
	if o.Arrays {
		p = append(p, "IdomaticArrays")
	}
	if len(p) == 0 {
		return "none"
	}
	return strings.Join(p, "+")
}

func (o Opts) list() []genql.QueryOption {
	var l []genql.QueryOption
	if o.Wrapped {
		l = append(l, genql.Wrapped())
	}
	if o.PG {
		l = append(l, genql.PostgresEscapingDialect())
	}
	if o.Arrays {
		l = append(l, genql.IdomaticArrays())
	}
	return l
}

// Out is the outcome of New+Exec.
type Out struct {
	Rows  []any  // normalised rows (nil slice -> empty)
	Raw   []any  // rows exactly as returned
	Err   string // error returned by New or Exec ("" = success)
	AtNew bool   // the error came from New
	Panic string // a panic escaped New or Exec
	// ErrRows is the number of rows returned *together with* an error (must be 0)
	ErrRows int
	failed  bool
}

func (o Out) OK() bool { return o.Err == "" && o.Panic == "" }

func (o Out) Describe() string {
	switch {
	case o.Panic != "":
		return "PANIC escaped the API: " + o.Panic
	case o.Err != "":
		where := "Exec"
		if o.AtNew {
			where = "New"
		}
		return where + " error: " + o.Err
	}
	return "rows " + val.JSON(o.Rows)
}

// Run executes sql on doc through the public API. doc is used as given (callers pass a private
// copy unless they want to observe mutation).
// RunN is Run with the same Query object executed n times; the outcome of the last execution counts.
func RunN(doc map[string]any, sql string, o Opts, n int, extra ...genql.QueryOption) (out Out) {
	defer func() {
		if r := recover(); r != nil {
			out = Out{Panic: fmt.Sprintf("%v\n%s", r, trimStack(debug.Stack()))}
		}
	}()
	opts := append(o.list(), extra...)
	q, err := genql.New(doc, sql, opts...)
	if err != nil {
		return Out{Err: err.Error(), AtNew: true}
	}
	for i := 0; i < n; i++ {
		rows, err := q.Exec()
		if err != nil {
			out = Out{Err: err.Error(), ErrRows: len(rows)}
			continue
		}
		out = Out{Raw: rows, Rows: val.NormRows(rows)}
	}
	return out
}

func Run(doc map[string]any, sql string, o Opts, extra ...genql.QueryOption) (out Out) {
	defer func() {
		if r := recover(); r != nil {
			out = Out{Panic: fmt.Sprintf("%v\n%s", r, trimStack(debug.Stack()))}
		}
	}()
	opts := append(o.list(), extra...)
	q, err := genql.New(doc, sql, opts...)
	if err != nil {
		return Out{Err: err.Error(), AtNew: true}
	}
	rows, err := q.Exec()
	if err != nil {
		return Out{Err: err.Error(), ErrRows: len(rows)}
	}
	return Out{Raw: rows, Rows: val.NormRows(rows)}
}

func trimStack(b []byte) string {
	s := string(b)
	lines := strings.Split(s, "\n")
	if len(lines) > 24 {
		lines = lines[:24]
	}
	return strings.Join(lines, "\n")
}

// ReadSel executes a selector through the public API under recover.
func ReadSel(doc any, selector string) (v any, errText string, panicText string) {
	defer func() {
		if r := recover(); r != nil {
			v, errText, panicText = nil, "", fmt.Sprintf("%v\n%s", r, trimStack(debug.Stack()))
		}
	}()
	rs, err := genql.ExecReader(doc, selector)
	if err != nil {
		return nil, err.Error(), ""
	}
	return rs, "", ""
}

package checks

import (
	"encoding/hex"
	"fmt"
	"math"
	"math/big"
	"strconv"
	"strings"
	"unicode/utf8"

	sanitize "github.com/vedadiyan/genql/sanitizer"
	"github.com/vedadiyan/sqlparser/v2"
	"pgregory.net/rapid"
	"verifharness/sq"
	"verifharness/val"
)

// C16 - sanitized parameters are injection-safe for the library's own parser.

// C16Seg is one segment of a template: literal SQL text ("t"), a placeholder in literal position
// ("p", number N) or a decoy ("d": text that contains `$n` inside a string literal, a quoted
// identifier or a comment and must be left alone).
type C16Seg struct {
	K string `json:"k"`
	S string `json:"s,omitempty"`
	N int    `json:"n,omitempty"`
}

// C16Arg is one argument: K in s (string S), i (int64, decimal text in S), f (float64 F), b (bool B), n (nil).
type C16Arg struct {
	K string  `json:"k"`
	S string  `json:"s,omitempty"`
	F float64 `json:"f,omitempty"`
	B bool    `json:"b,omitempty"`
	X string  `json:"x,omitempty"` // K=s: the bytes of the string in hex, for strings that are not valid UTF-8
}

type C16Case struct {
	Mode string   `json:"mode"` // shape | echo | err
	Err  string   `json:"err,omitempty"`
	Segs []C16Seg `json:"segs"`
	Args []C16Arg `json:"args"`
	Opts Opts     `json:"opts,omitempty"` // echo mode: options under which the sanitized query is executed
	// Prior: a call of the same template made right before the judged one and not judged itself - "same": with the
	// very same arguments, "lookalike": with arguments of other types / other boundaries that print alike under %v
	// (int64 1 <-> "1", true <-> "true", NULL <-> "<nil>", ("x y","z") <-> ("x","y z"))
	Prior string `json:"prior,omitempty"`
}

// c16Lookalike returns arguments that differ from args in type or boundaries but print alike.
func c16Lookalike(args []any) []any {
	out := make([]any, len(args))
	for i, a := range args {
		switch v := a.(type) {
		case nil:
			out[i] = "<nil>"
		case bool, int64, float64:
			out[i] = fmt.Sprint(v)
		case string:
			out[i] = v
			if n, err := strconv.ParseInt(v, 10, 64); err == nil && strconv.FormatInt(n, 10) == v {
				out[i] = n
			} else if v == "true" || v == "false" {
				out[i] = v == "true"
			} else if v == "<nil>" {
				out[i] = nil
			}
		default:
			out[i] = a
		}
	}
	// move the boundary between two neighbouring strings: ("x y", "z") -> ("x", "y z")
	for i := 0; i+1 < len(out); i++ {
		l, ok1 := out[i].(string)
		r, ok2 := out[i+1].(string)
		if ok1 && ok2 {
			if j := strings.LastIndexByte(l, ' '); j >= 0 {
				out[i], out[i+1] = l[:j], l[j+1:]+" "+r
				break
			}
		}
	}
	return out
}

func (a C16Arg) goValue() (any, bool) {
	switch a.K {
	case "s":
		if a.X != "" {
			b, err := hex.DecodeString(a.X)
			return string(b), err == nil // any byte sequence is a Go string
		}
		return a.S, utf8.ValidString(a.S)
	case "i":
		i, err := strconv.ParseInt(a.S, 10, 64)
		return i, err == nil
	case "f":
		return a.F, !math.IsNaN(a.F) && !math.IsInf(a.F, 0)
	case "b":
		return a.B, true
	case "n":
		return nil, true
	}
	return nil, false
}

// refLiteral is the harness's own MySQL-correct single literal for an argument.
func (a C16Arg) refLiteral() string {
	switch a.K {
	case "s":
		if v, ok := a.goValue(); ok {
			return sq.StrLit(v.(string))
		}
		return sq.StrLit(a.S)
	case "i":
		// (no blank before the sign: after a template's own `--` a blank would open a line comment)
		return a.S
	case "f":
		return strconv.FormatFloat(a.F, 'f', -1, 64)
	case "b":
		if a.B {
			return "TRUE"
		}
		return "FALSE"
	}
	return "NULL"
}

func (c *C16Case) template() string {
	var sb strings.Builder
	for _, s := range c.Segs {
		if s.K == "p" {
			sb.WriteString("$" + strconv.Itoa(s.N))
		} else {
			sb.WriteString(s.S)
		}
	}
	return sb.String()
}

func (c *C16Case) reference() string {
	var sb strings.Builder
	for _, s := range c.Segs {
		if s.K == "p" {
			if s.N >= 1 && s.N <= len(c.Args) {
				sb.WriteString(c.Args[s.N-1].refLiteral())
			} else {
				sb.WriteString("NULL")
			}
		} else {
			sb.WriteString(s.S)
		}
	}
	return sb.String()
}

var c16Hostile = []string{"'", "\\", "\"", "`", "--", "-- ", "/*", "*/", "#", "\x00", "\n", "\r", "\t", "\x1a", "é", "日本", "😀", " OR 1=1", "; DROP", "$1", "$2", "%", "_", "\\'", "''", "\\\\", "a", "b", " ", "x", "UNION SELECT", ")", "(", ","}

func genC16String(t *rapid.T, label string) string {
	n := rapid.IntRange(0, 6).Draw(t, label+".n")
	var sb strings.Builder
	for i := 0; i < n; i++ {
		sb.WriteString(rapid.SampledFrom(c16Hostile).Draw(t, fmt.Sprintf("%s.%d", label, i)))
	}
	return sb.String()
}

func genC16Arg(t *rapid.T, label string) C16Arg {
	switch rapid.IntRange(0, 9).Draw(t, label+".kind") {
	case 0:
		ints := []int64{0, 1, -1, 5, -5, 42, math.MaxInt64, math.MinInt64, 1 << 53, -(1 << 53), 1000000}
		return C16Arg{K: "i", S: strconv.FormatInt(rapid.SampledFrom(ints).Draw(t, label+".i"), 10)}
	case 1:
		return C16Arg{K: "i", S: strconv.FormatInt(rapid.Int64().Draw(t, label+".i"), 10)}
	case 2:
		fs := []float64{0, 0.5, -0.5, 1.25, -2.75, 1e-7, -1e-7, 1e21, -1e21, 1e300, 5e-324, 123456789.125, math.MaxFloat64, 0.1, -0.3}
		return C16Arg{K: "f", F: rapid.SampledFrom(fs).Draw(t, label+".f")}
	case 3:
		f := rapid.Float64().Draw(t, label+".f")
		if math.IsNaN(f) || math.IsInf(f, 0) {
			f = 1.5
		}
		return C16Arg{K: "f", F: f}
	case 4:
		return C16Arg{K: "b", B: rapid.Bool().Draw(t, label+".b")}
	case 5:
		return C16Arg{K: "n"}
	case 6:
		// strings are byte sequences: invalid UTF-8 (stray continuation and lead bytes, truncated and overlong
		// sequences) mixed with the characters that need escaping
		n := rapid.IntRange(1, 6).Draw(t, label+".xn")
		var sb strings.Builder
		for i := 0; i < n; i++ {
			sb.WriteString(rapid.SampledFrom([]string{"\xff", "\xfe", "\x80", "\xe6\x97", "\xc0\xaf", "\xf0\x9f", "'", "'", "\\", "a", "' OR 'a' = 'a", "\"", "`", "--", "/*", "é", "\x00"}).Draw(t, fmt.Sprintf("%s.x%d", label, i)))
		}
		return C16Arg{K: "s", X: hex.EncodeToString([]byte(sb.String()))}
	default:
		return C16Arg{K: "s", S: genC16String(t, label+".s")}
	}
}

// decoy content: pieces that are safe inside the given quoting, incl. `$n` and escaped quotes.
func genC16Decoy(t *rapid.T, nargs int, label string) string {
	kind := rapid.SampledFrom([]string{"sq", "sq", "dq", "bt", "block", "dash", "hash", "slash"}).Draw(t, label+".kind")
	n := rapid.IntRange(1, 5).Draw(t, label+".n")
	ph := func(i int) string {
		return "$" + strconv.Itoa(rapid.IntRange(1, nargs+1).Draw(t, fmt.Sprintf("%s.ph%d", label, i)))
	}
	var sb strings.Builder
	hasPh := false
	for i := 0; i < n; i++ {
		l := fmt.Sprintf("%s.%d", label, i)
		var pieces []string
		switch kind {
		case "sq":
			pieces = []string{"a", " ", "''", "\\'", "\\\\", "\"", "`", "--", "/*", "#", "é", "PH", "PH", "x "}
		case "dq":
			pieces = []string{"a", " ", "\"\"", "\\\"", "\\\\", "'", "`", "--", "/*", "#", "é", "PH", "PH", "x "}
		case "bt":
			pieces = []string{"a", "b", "'", "\"", "é", "PH", "PH", "c", "_", "-", "\\", "\\"}
		case "block":
			// (a star is always followed by a blank here, so the body cannot close the comment by accident)
			pieces = []string{"a", " ", "'", "\"", "`", "é", "PH", "PH", "note", "$", "/", "/", "* ", "//", "-- ", "#"}
		default:
			pieces = []string{"a", " ", "'", "\"", "`", "é", "PH", "PH", "note", "$"}
		}
		p := rapid.SampledFrom(pieces).Draw(t, l)
		if p == "PH" {
			p = ph(i)
			hasPh = true
		}
		sb.WriteString(p)
	}
	if !hasPh {
		sb.WriteString(ph(n))
	}
	body := sb.String()
	switch kind {
	case "sq":
		return "'" + body + "'"
	case "dq":
		return "\"" + body + "\""
	case "bt":
		return "`" + body + "`"
	case "block":
		// the body may start right after the opener (also with a slash: /*/ .. */) and end right before the closer (**/)
		open := rapid.SampledFrom([]string{"/* ", "/* ", "/*", "/*/", "/*//", "/** "}).Draw(t, label+".open")
		if open == "/*" && (strings.HasPrefix(body, "!") || strings.HasPrefix(body, "+")) {
			open = "/* "
		}
		return open + body + rapid.SampledFrom([]string{" */", " */", " **/", "/ */"}).Draw(t, label+".close")
	case "dash":
		return "-- " + body + "\n"
	case "hash":
		return "# " + body + "\n"
	default:
		return "// " + body + "\n"
	}
}

func genC16(t *rapid.T) any {
	mode := rapid.SampledFrom([]string{"shape", "shape", "shape", "shape", "echo", "echo", "err"}).Draw(t, "mode")
	c := &C16Case{Mode: mode}
	if rapid.IntRange(0, 1<<20).Draw(t, "many")%25 == 24 {
		// many placeholders (two-digit and three-digit numbers, more than a machine word has bits): every argument
		// is used, or one of them - anywhere in the list - is not, or the last one is missing
		n := rapid.IntRange(9, 140).Draw(t, "many.n")
		c.Segs = []C16Seg{{K: "t", S: "SELECT "}}
		for i := 1; i <= n; i++ {
			if i > 1 {
				c.Segs = append(c.Segs, C16Seg{K: "t", S: ", "})
			}
			c.Segs = append(c.Segs, C16Seg{K: "p", N: i}, C16Seg{K: "t", S: fmt.Sprintf(" AS c%d", i)})
			c.Args = append(c.Args, C16Arg{K: "i", S: strconv.Itoa(1000 + i)})
		}
		c.Segs = append(c.Segs, C16Seg{K: "t", S: " FROM dual"})
		switch rapid.SampledFrom([]string{"shape", "unused", "unused", "missing"}).Draw(t, "many.kind") {
		case "shape":
			c.Mode = "shape"
		case "missing":
			c.Mode, c.Err = "err", "missing"
			c.Args = c.Args[:n-1]
		default:
			c.Mode, c.Err = "err", "unused"
			g := rapid.IntRange(1, n+1).Draw(t, "many.unusedpos")
			c.Args = append(c.Args[:g-1:g-1], append([]C16Arg{{K: "i", S: "7"}}, c.Args[g-1:]...)...)
			for i := range c.Segs {
				if c.Segs[i].K == "p" && c.Segs[i].N >= g {
					c.Segs[i].N++
				}
			}
		}
		return c
	}
	if mode == "echo" {
		c.Args = []C16Arg{genC16Arg(t, "arg")}
		c.Segs = []C16Seg{{K: "t", S: "SELECT "}, {K: "p", N: 1}, {K: "t", S: " AS v FROM dual"}}
		if rapid.Bool().Draw(t, "two") {
			// two literals in one statement, executed under an option set: an argument must not disturb
			// how the rest of the statement is read by the option pre-processors either
			c.Args = append(c.Args, genC16Arg(t, "arg2"))
			c.Segs = []C16Seg{{K: "t", S: "SELECT "}, {K: "p", N: 1}, {K: "t", S: " AS v, "}, {K: "p", N: 2}, {K: "t", S: " AS w FROM dual"}}
			b := rapid.IntRange(0, 3).Draw(t, "optbits")
			c.Opts = Opts{PG: b&1 != 0, Arrays: b&2 != 0}
		}
		return c
	}
	nargs := rapid.IntRange(1, 4).Draw(t, "nargs")
	for i := 0; i < nargs; i++ {
		c.Args = append(c.Args, genC16Arg(t, fmt.Sprintf("arg%d", i)))
	}
	// every argument is used at least once; uses are spread over select items and conditions
	var uses []int
	for i := 1; i <= nargs; i++ {
		uses = append(uses, i)
	}
	extra := rapid.IntRange(0, 3).Draw(t, "extra")
	for i := 0; i < extra; i++ {
		uses = append(uses, rapid.IntRange(1, nargs).Draw(t, fmt.Sprintf("extra%d", i)))
	}
	uses = rapid.Permutation(uses).Draw(t, "useorder")
	text := func(s string) { c.Segs = append(c.Segs, C16Seg{K: "t", S: s}) }
	ph := func(n int) { c.Segs = append(c.Segs, C16Seg{K: "p", N: n}) }
	decoy := func(label string) { c.Segs = append(c.Segs, C16Seg{K: "d", S: genC16Decoy(t, nargs, label)}) }
	next := func() (int, bool) {
		if len(uses) == 0 {
			return 0, false
		}
		n := uses[0]
		uses = uses[1:]
		return n, true
	}
	comment := func(label string) {
		if rapid.IntRange(0, 4).Draw(t, label+".c") == 0 {
			k := rapid.SampledFrom([]string{"block", "dash", "hash", "slash"}).Draw(t, label+".ck")
			n := rapid.IntRange(1, nargs+1).Draw(t, label+".cn")
			switch k {
			case "block":
				c.Segs = append(c.Segs, C16Seg{K: "d", S: fmt.Sprintf(" /* it's $%d */ ", n)})
			case "dash":
				c.Segs = append(c.Segs, C16Seg{K: "d", S: fmt.Sprintf(" -- see $%d\n", n)})
			case "hash":
				c.Segs = append(c.Segs, C16Seg{K: "d", S: fmt.Sprintf(" # see $%d\n", n)})
			default:
				c.Segs = append(c.Segs, C16Seg{K: "d", S: fmt.Sprintf(" // see $%d\n", n)})
			}
		}
	}
	text("SELECT ")
	nsel := rapid.IntRange(1, 4).Draw(t, "nsel")
	for i := 0; i < nsel; i++ {
		l := fmt.Sprintf("sel%d", i)
		if i > 0 {
			text(", ")
		}
		switch rapid.IntRange(0, 6).Draw(t, l+".form") {
		case 0, 1:
			if n, ok := next(); ok {
				ph(n)
				text(fmt.Sprintf(" AS v%d", i))
				break
			}
			text("name")
		case 2:
			if n, ok := next(); ok {
				text(rapid.SampledFrom([]string{"- ", "-", "5 -", "5 - ", "5-", "5 + ", "(", "7 * ", "--", "5 --", "- -", "5 - -", "-(", "+", "5 +-"}).Draw(t, l+".pre"))
				ph(n)
				if strings.HasSuffix(c.Segs[len(c.Segs)-2].S, "(") {
					text(")")
				}
				text(fmt.Sprintf(" AS v%d", i))
				break
			}
			text("age")
		case 3, 4:
			c.Segs = append(c.Segs, C16Seg{K: "d", S: genC16Decoy(t, nargs, l+".decoy")})
			// comments are not select items: give them something to stand next to
			last := c.Segs[len(c.Segs)-1].S
			if strings.HasPrefix(last, "/*") || strings.HasPrefix(last, "--") || strings.HasPrefix(last, "#") || strings.HasPrefix(last, "//") {
				text(" name")
			} else {
				text(fmt.Sprintf(" AS d%d", i))
			}
		case 5:
			text("name")
		default:
			text(fmt.Sprintf("1 AS one%d", i))
		}
	}
	comment("c1")
	text(" FROM t")
	comment("c2")
	if len(uses) > 0 || rapid.Bool().Draw(t, "where") {
		text(" WHERE ")
		first := true
		conj := func() {
			if !first {
				text(rapid.SampledFrom([]string{" AND ", " OR "}).Draw(t, fmt.Sprintf("conj%d", len(c.Segs))))
			}
			first = false
		}
		for len(uses) > 0 {
			l := fmt.Sprintf("w%d", len(c.Segs))
			conj()
			n, _ := next()
			switch rapid.IntRange(0, 5).Draw(t, l+".form") {
			case 0:
				text("name = ")
				ph(n)
			case 1:
				ph(n)
				text(" = name")
			case 2:
				text("name IN (")
				ph(n)
				for len(uses) > 0 && rapid.Bool().Draw(t, l+".more") {
					m, _ := next()
					text(rapid.SampledFrom([]string{", ", ","}).Draw(t, l+".sep"))
					ph(m)
				}
				text(")")
			case 3:
				text("age BETWEEN ")
				ph(n)
				text(" AND ")
				if m, ok := next(); ok {
					ph(m)
				} else {
					text("9")
				}
			case 4:
				text("name LIKE ")
				ph(n)
			default:
				text("name = ")
				decoy(l + ".decoy")
				last := c.Segs[len(c.Segs)-1].S
				if !(strings.HasPrefix(last, "'") || strings.HasPrefix(last, "\"") || strings.HasPrefix(last, "`")) {
					text(" 'z'")
				}
				text(" AND age = ")
				ph(n)
			}
		}
		if first {
			text("name = 'k'")
		}
	}
	comment("c3")
	if mode != "err" && rapid.IntRange(0, 5).Draw(t, "trailingcomment") == 0 {
		// the statement may end inside a line comment: a line comment needs no terminator
		last := len(c.Segs) - 1
		if c.Segs[last].K == "d" && strings.HasSuffix(c.Segs[last].S, "\n") && !strings.HasPrefix(strings.TrimSpace(c.Segs[last].S), "/*") {
			c.Segs[last].S = strings.TrimSuffix(c.Segs[last].S, "\n")
		} else {
			c.Segs = append(c.Segs, C16Seg{K: "d", S: rapid.SampledFrom([]string{" -- end $1", " # end $1", " // end $1", " --", " -- ", " #"}).Draw(t, "trailingtext")})
		}
	}
	if mode == "err" {
		c.Err = rapid.SampledFrom([]string{"missing", "unused", "zero"}).Draw(t, "errkind")
		switch c.Err {
		case "missing":
			text(" AND age = ")
			if !strings.Contains(c.template(), " WHERE ") {
				c.Segs[len(c.Segs)-1].S = " WHERE age = "
			}
			ph(nargs + rapid.IntRange(1, 3).Draw(t, "beyond"))
		case "unused":
			// the argument nobody refers to sits anywhere in the list: at the end, or in a gap of the
			// placeholder numbering ($1 .. $3 with three arguments)
			g := rapid.IntRange(1, nargs+1).Draw(t, "unusedpos")
			extra := genC16Arg(t, "unusedarg")
			c.Args = append(c.Args[:g-1:g-1], append([]C16Arg{extra}, c.Args[g-1:]...)...)
			for i := range c.Segs {
				if c.Segs[i].K == "p" && c.Segs[i].N >= g {
					c.Segs[i].N++
				}
			}
		case "zero":
			text(" AND age = ")
			if !strings.Contains(c.template(), " WHERE ") {
				c.Segs[len(c.Segs)-1].S = " WHERE age = "
			}
			ph(0)
		}
	}
	return c
}

func c16Sanitize(tmpl string, args []any) (s string, err error, panicked string) {
	defer func() {
		if r := recover(); r != nil {
			panicked = fmt.Sprint(r)
		}
	}()
	s, err = sanitize.SanitizeSQL(tmpl, args...)
	return s, err, ""
}

func c16Canon(sql string) (string, error) {
	st, err := sqlparser.Parse(sql)
	if err != nil {
		return "", err
	}
	// numeric literals are compared by value, not by spelling: 0.00000095 and 9.5e-07, or 1.0 and 1, are the
	// same literal as far as the statement is concerned (what the literal evaluates to is the echo mode's business)
	_ = sqlparser.Walk(func(n sqlparser.SQLNode) (bool, error) {
		// comments are compared separately (c16Comments): whether the sanitizer copies them through or drops them
		// is not part of the statement's shape
		if sel, ok := n.(*sqlparser.Select); ok {
			sel.Comments = nil
		}
		if l, ok := n.(*sqlparser.Literal); ok {
			switch l.Type {
			case sqlparser.IntVal, sqlparser.DecimalVal, sqlparser.FloatVal:
				if i, ok := new(big.Int).SetString(l.Val, 10); ok && i.BitLen() <= 64 {
					l.Val, l.Type = i.String(), sqlparser.IntVal // integers of the 64-bit range: exact
				} else if f, err := strconv.ParseFloat(l.Val, 64); err == nil {
					l.Val, l.Type = strconv.FormatFloat(f, 'g', -1, 64), sqlparser.FloatVal
					if f == math.Trunc(f) && math.Abs(f) < 1e15 {
						l.Val, l.Type = strconv.FormatFloat(f, 'f', -1, 64), sqlparser.IntVal
					}
				}
			}
		}
		return true, nil
	}, st)
	return sqlparser.String(st), nil
}

func c16Hostility(s string) bool {
	if strings.ContainsAny(s, "'\\\"`#\x00") || strings.Contains(s, "--") || strings.Contains(s, "/*") {
		return true
	}
	for _, r := range s {
		if r >= 0x80 {
			return true
		}
	}
	return false
}

func checkC16(c *C16Case) Result {
	res := Result{}
	args := make([]any, len(c.Args))
	hostile := false
	for i, a := range c.Args {
		v, ok := a.goValue()
		if !ok {
			res.Discard = "argument outside the domain (invalid UTF-8, NaN/Inf, malformed integer)"
			return res
		}
		args[i] = v
		res.Labels = append(res.Labels, "arg:"+a.K)
		if a.X != "" {
			res.Labels = append(res.Labels, "arg:string-that-is-not-valid-UTF-8")
			hostile = true
		}
		if a.K == "s" && c16Hostility(a.S) {
			hostile = true
		}
	}
	decoys := 0
	for _, s := range c.Segs {
		if s.K == "d" {
			decoys++
			switch {
			case strings.HasPrefix(s.S, "'"):
				res.Labels = append(res.Labels, "decoy:single-quoted")
			case strings.HasPrefix(s.S, "\""):
				res.Labels = append(res.Labels, "decoy:double-quoted")
			case strings.HasPrefix(s.S, "`"):
				res.Labels = append(res.Labels, "decoy:backtick")
			default:
				res.Labels = append(res.Labels, "decoy:comment")
			}
		}
	}
	res.Labels = append(res.Labels, "mode:"+c.Mode)
	res.NonTrivial = hostile || decoys > 0
	tmpl := c.template()
	switch c.Prior {
	case "same":
		c16Sanitize(tmpl, args)
		res.Labels = append(res.Labels, "prior-call:same-arguments")
	case "lookalike":
		c16Sanitize(tmpl, c16Lookalike(args))
		res.Labels = append(res.Labels, "prior-call:look-alike-arguments")
	}
	s, err, p := c16Sanitize(tmpl, args)
	res.Execs++
	if p != "" {
		res.Violation = fmt.Sprintf("SanitizeSQL(%q, %s) panicked: %s", tmpl, val.JSON(args), p)
		return res
	}
	switch c.Mode {
	case "err":
		res.NonTrivial = true
		res.Labels = append(res.Labels, "err:"+c.Err)
		if c.Err == "unused" && c.maxPlaceholder() == len(c.Args) {
			res.Labels = append(res.Labels, "err:unused-in-numbering-gap")
		}
		if err == nil {
			res.Violation = fmt.Sprintf("SanitizeSQL(%q, %s): expected an error (%s argument/placeholder), got %q", tmpl, val.JSON(args), c.Err, s)
		}
		return res
	case "echo":
		if err != nil {
			res.Violation = fmt.Sprintf("SanitizeSQL(%q, %s) failed: %v", tmpl, val.JSON(args), err)
			return res
		}
		out := Run(map[string]any{}, s, c.Opts)
		res.Execs++
		if c.Opts.PG || c.Opts.Arrays {
			res.Labels = append(res.Labels, "echo-under:"+c.Opts.String())
		}
		if !out.OK() {
			res.Violation = fmt.Sprintf("echo of %s: sanitized query %q (options %s) does not execute: %s", val.JSON(args), s, c.Opts, out.Describe())
			return res
		}
		if len(out.Rows) != 1 {
			res.Violation = fmt.Sprintf("echo of %s: sanitized query %q returned %s", val.JSON(args), s, val.JSON(out.Rows))
			return res
		}
		row, _ := out.Rows[0].(map[string]any)
		for i, alias := range []string{"v", "w"}[:len(args)] {
			got, present := row[alias]
			want := val.Norm(args[i])
			if !present && want != nil || !c16Same(got, want) {
				res.Violation = fmt.Sprintf("echo: argument %d %s (%T) came back as %s from %q (options %s)", i+1, val.JSON(args[i]), args[i], val.JSON(got), s, c.Opts)
				return res
			}
		}
		return res
	}
	// shape
	ref := c.reference()
	want, rerr := c16Canon(ref)
	if rerr != nil {
		res.Discard = "reference text does not parse (generator produced an invalid template)"
		return res
	}
	if err != nil {
		res.Violation = fmt.Sprintf("SanitizeSQL(%q, %s) failed: %v", tmpl, val.JSON(args), err)
		return res
	}
	got, perr := c16Canon(s)
	if perr != nil {
		res.Violation = fmt.Sprintf("template %q with %s\n  sanitized %q does not parse: %v\n  reference %q", tmpl, val.JSON(args), s, oneLineErr(perr), ref)
		return res
	}
	if got != want {
		res.Violation = fmt.Sprintf("template %q with %s\n  sanitized %q\n  parses to  %s\n  expected   %s\n  (reference text %q)", tmpl, val.JSON(args), s, got, want, ref)
		return res
	}
	if d := c16CommentsKept(s, ref); d != "" {
		res.Violation = fmt.Sprintf("template %q with %s\n  sanitized %q\n  %s", tmpl, val.JSON(args), s, d)
	}
	return res
}

func oneLineErr(err error) string { return strings.ReplaceAll(err.Error(), "\n", " ") }

// c16Same: exact equality of echoed scalars (strings byte for byte, numbers as float64).
func c16Same(got, want any) bool {
	got = val.Norm(got)
	switch w := want.(type) {
	case nil:
		return got == nil
	case string:
		g, ok := got.(string)
		return ok && g == w
	case bool:
		g, ok := got.(bool)
		return ok && g == w
	case float64:
		g, ok := got.(float64)
		return ok && g == w
	}
	return false
}

func init() {
	Register(&Prop{
		ID:    "C16",
		Title: "Sanitized parameters are injection-safe for the library's own parser",
		Rule: "[Dimensions added in rounds p-r of the seeded-defect evaluation: about 2% of the cases are templates with 9-140 placeholders: all used, one argument unused anywhere in the list, or the last one missing.] " +
			"rapid draws (shape mode) a template from a grammar - select items `$n AS v`, `-$n`/`5 - $n`/`($n)` adjacency, WHERE with =, IN lists, " +
			"BETWEEN, LIKE, 1-4 placeholders each used >=1 time with repeats - with decoys that must be left alone: `$n` inside '..' (with '' \\' \\\\ " +
			"inside), \"..\", backtick identifiers, block comments of every spelling (/* */, /*x*/, /*/ */, /*// */, /** **/, bodies containing / // -- # /* and stars), `-- `, `#` and `//` comments; arguments: strings over a quote-hostile alphabet (' \\ \" ` -- /* # NUL " +
			"newline Ctrl-Z multi-byte runes SQL keywords `$1`), int64 incl. extremes, finite float64 incl. tiny/huge, bool, nil. Oracle: the library " +
			"parser's canonical form of SanitizeSQL(T,args) equals that of T with each placeholder replaced by the harness's own MySQL-correct literal (numeric literals compared by value, comments ignored), and every comment the library's tokenizer finds in the sanitized text is, verbatim and in order, a comment of the template. " +
			"Echo mode: `SELECT $1 AS v FROM dual` (or two arguments, under PostgresEscapingDialect / IdiomaticArrays in half of those) executed through New/Exec returns exactly the argument(s). Err mode: missing argument, unused " +
			"argument (anywhere in the list, incl. a gap of the placeholder numbering), `$0` -> error, no panic. Half of the cases are preceded by an unjudged call of the same template with the same or with look-alike arguments (other types, other boundaries between arguments, same %v text). Non-trivial: a string argument containing ' \\ \" ` -- /* # NUL or a multi-byte rune, or a decoy present, or err mode.",
		Assumptions: []string{
			"arguments are strings (any byte sequence, a tenth of them not valid UTF-8), int64, finite float64, bool or nil (the types the statement lists)",
			"placeholders are separated from neighbouring tokens by an operator, comma, parenthesis or white space; comments contain no backslash or carriage return",
			"the reference literal renderer (sq.StrLit) is MySQL-correct; it is itself checked by the echo mode and by C17",
		},
		Gen: func(t *rapid.T) any {
			c := genC16(t).(*C16Case)
			c.Prior = rapid.SampledFrom([]string{"", "", "", "same", "lookalike", "lookalike"}).Draw(t, "prior")
			return c
		},
		New:         func() any { return &C16Case{} },
		Check:       func(c any) Result { return checkC16(c.(*C16Case)) },
		FuzzTargets: []string{"FuzzSanitize"},
		FuzzSeconds: 240,
		Quick:       6000,
		Thorough:    400000,
	})
}

// maxPlaceholder is the highest placeholder number the template refers to.
func (c *C16Case) maxPlaceholder() int {
	m := 0
	for _, s := range c.Segs {
		if s.K == "p" && s.N > m {
			m = s.N
		}
	}
	return m
}

// c16Comments returns the comments of a statement as the library's tokenizer sees them, in order.
func c16Comments(sql string) []string {
	p := sqlparser.Parser{}
	tkn := p.NewStringTokenizer(sql)
	tkn.AllowComments = true
	var out []string
	for i := 0; i < 10000; i++ {
		typ, text := tkn.Scan()
		if typ == 0 || typ == sqlparser.LEX_ERROR {
			break
		}
		if typ == sqlparser.COMMENT {
			out = append(out, text)
		}
	}
	return out
}

// c16CommentsKept: every comment of the sanitized text is, verbatim, a comment of the reference text, in the
// same order (comments may be dropped, never altered: a `$n` inside one is left alone).
func c16CommentsKept(sanitized, reference string) string {
	have, want := c16Comments(sanitized), c16Comments(reference)
	j := 0
	for _, c := range have {
		for j < len(want) && strings.TrimRight(want[j], "\r\n ") != strings.TrimRight(c, "\r\n ") {
			j++
		}
		if j == len(want) {
			return fmt.Sprintf("the sanitized text holds the comment %q, which is not a comment of the template (comments of the template: %q)", c, want)
		}
		j++
	}
	return ""
}

package checks

import (
	"fmt"
	"github.com/vedadiyan/genql"
	"regexp"
	"strings"

	"pgregory.net/rapid"
	"verifharness/sq"
	"verifharness/val"
)

// C07 - CTEs, derived tables and subqueries equal staged evaluation.

// Stage is one query of a pipeline; {SRC} in SQL is replaced by the source name (a table key, a CTE
// name, or the materialised key in the staged form).
type C07Case struct {
	Env  Envelope       `json:"env,omitempty"` // how the composed / outer query is run (never Wrapped); staged and standalone runs stay plain
	Doc  map[string]any `json:"doc"`
	Form string         `json:"form"`
	// composition forms
	Composed string   `json:"composed,omitempty"` // the single composed query
	Stages   []string `json:"stages,omitempty"`   // staged queries; stage i reads doc + {m1..mi}; last one is compared
	Ordered  bool     `json:"ordered,omitempty"`  // compare as sequence (else multiset)
	// subquery forms
	Outer    string `json:"outer,omitempty"`      // outer query with the subquery
	Sub      string `json:"sub,omitempty"`        // subquery text, run standalone
	SubOnDoc bool   `json:"sub_on_doc,omitempty"` // standalone on the enclosing document (`<-` form) instead of the row
	SubAlias string `json:"sub_alias,omitempty"`
	InCol    string `json:"in_col,omitempty"` // for IN: the outer column compared
	InSubCol string `json:"in_sub_col,omitempty"`
	Not      bool   `json:"not,omitempty"`
	ExPred   *sq.E  `json:"ex_pred,omitempty"` // EXISTS predicate over element + outer columns
	// Scale: table t is expanded to 200-700 rows by this recipe before anything is computed (composition forms)
	Scale *Scale `json:"scale,omitempty"`
	// Vars / Consts (form nested-options): every run of the case is built WithVars / WithConstants holding these
	Vars    map[string]any `json:"vars,omitempty"`
	Consts  map[string]any `json:"consts,omitempty"`
	Collide bool           `json:"collide,omitempty"` // the nested array is called t2 like a table of the document; missing / NULL in some rows
}

func init() {
	Register(&Prop{
		ID:    "C07",
		Title: "CTEs, derived tables and subqueries equal staged evaluation",
		Rule: "[Dimensions added in rounds p-r of the seeded-defect evaluation: root sub queries also correlated with the outer row through a comparison in their select list (CASE WHEN col > `<-.k`); a sixth of the enveloped cases run after 1-3 failing statements.] " +
			"(about 2% of the composition cases expand table t to 200-700 rows by a recipe.) rapid draws a document (table t with scalar columns and a nested array column, flat table t2) and either a composed pipeline " +
			"(WITH c AS (Qi) Qo(c); Qo((Qi) x); chains c1->c2->outer; a CTE referenced twice through a self-join, through FROM plus an " +
			"IN-subquery, through a filtering CTE plus a join, or through a filtered FROM plus an aggregating subquery; FROM `c.items` on an array-valued CTE column; a third of the outer stages of every shape, aggregates included, end in LIMIT n [OFFSET m]) that must equal the staged evaluation over materialised intermediate " +
			"results passed in as plain input, or a subquery form (select-item subquery on the row / on `<-` the enclosing document, also correlated with the outer row through `<-.col`; IN-subquery on the row and on the root, " +
			"[NOT] EXISTS correlated with the outer row (outer columns by bare name or as `<-.col`) over nested arrays whose elements may lack keys; IN subqueries also with ORDER BY / LIMIT / OFFSET and in the plain one-column form; CTE names that shadow a table of the document; derived tables called like a table of the document while the outer query reads that table through `<-`; statements whose inner, outer and root sub queries read the statement's options through GETVAR / CONSTANT) that must equal the standalone execution of the subquery text on that row (EXISTS: the " +
			"reference 'some element satisfies p'). Non-trivial: inner result non-empty and the outer stage filters or projects it.",
		Assumptions: []string{
			"outer and nested column names are disjoint in EXISTS; derived tables are always aliased",
			"a third of the cases run the composed query inside an envelope that must not change the result: PostgresEscapingDialect / IdiomaticArrays on (no double quotes or brackets in the text), tables handed over as []map[string]any, a second execution on the same input object, and the same text run before on a different document",
			"inner/outer queries come from the conservative filter/projection/aggregate/order grammar so that failures are about composition",
			"an empty select-item subquery result may be NULL or an empty array",
		},
		Gen: func(t *rapid.T) any {
			c := genC07(t).(*C07Case)
			c.Env = genEnvelope(t, "env")
			c.Env.Wrapped = false
			// scale (composition forms): an intermediate result of hundreds of rows is still the same result
			switch c.Form {
			case "cte", "derived", "chain", "twice-filter-join", "twice-filter-sub", "derived-shadow", "nested-options":
				if rows, _ := c.Doc["t"].([]any); len(rows) > 0 {
					c.Scale = genScale(t, 14, "scale")
				}
			}
			return c
		},
		New: func() any { return &C07Case{} },
		Check: func(c any) Result {
			r := checkC07(c.(*C07Case))
			r.Labels = append(r.Labels, c.(*C07Case).Env.Labels()...)
			return r
		},
		Quick:    3000,
		Thorough: 150000,
	})
}

type c07Schema struct {
	tb     *Table // scalar columns of t: k (int), s (str), v (num)
	k      string
	s      string
	v      string
	items  string
	p      string // int column of the nested elements
	q      string // str column of the nested elements
	t2c    string
	hetero bool // nested elements may lack p or q
}

func genC07Doc(t *rapid.T) (map[string]any, *c07Schema) {
	names := genNames(t, 7, nil, "names")
	sc := &c07Schema{k: names[0], s: names[1], v: names[2], items: names[3], p: names[4], q: names[5], t2c: names[6]}
	kpool := []any{1.0, 2.0, 3.0}
	spool := []any{"a", "b", "ab"}
	vpool := []any{0.5, 1.0, 2.5, 4.0, -1.0}
	ppool := []any{1.0, 2.0, 3.0, 5.0}
	sc.tb = &Table{Cols: []Col{{Name: sc.k, Kind: "int", Pool: kpool}, {Name: sc.s, Kind: "str", Pool: spool}, {Name: sc.v, Kind: "num", Pool: vpool}}}
	n := rapid.IntRange(0, 6).Draw(t, "nrows")
	hetero := rapid.IntRange(0, 2).Draw(t, "hetero-items") == 0
	sc.hetero = hetero
	rows := []any{}
	for r := 0; r < n; r++ {
		row := map[string]any{
			sc.k: rapid.SampledFrom(kpool).Draw(t, fmt.Sprintf("r%d.k", r)),
			sc.s: rapid.SampledFrom(spool).Draw(t, fmt.Sprintf("r%d.s", r)),
			sc.v: rapid.SampledFrom(vpool).Draw(t, fmt.Sprintf("r%d.v", r)),
		}
		ni := rapid.IntRange(0, 3).Draw(t, fmt.Sprintf("r%d.nitems", r))
		items := []any{}
		for i := 0; i < ni; i++ {
			el := map[string]any{
				sc.p: rapid.SampledFrom(ppool).Draw(t, fmt.Sprintf("r%d.i%d.p", r, i)),
				sc.q: rapid.SampledFrom(spool).Draw(t, fmt.Sprintf("r%d.i%d.q", r, i)),
			}
			if hetero {
				// elements of one array need not have the same keys: an absent key is NULL for that element
				switch rapid.IntRange(0, 5).Draw(t, fmt.Sprintf("r%d.i%d.drop", r, i)) {
				case 0:
					delete(el, sc.p)
				case 1:
					delete(el, sc.q)
				}
			}
			items = append(items, el)
		}
		row[sc.items] = items
		rows = append(rows, row)
	}
	n2 := rapid.IntRange(0, 4).Draw(t, "n2")
	t2 := []any{}
	for r := 0; r < n2; r++ {
		t2 = append(t2, map[string]any{sc.t2c: rapid.SampledFrom(kpool).Draw(t, fmt.Sprintf("t2.r%d", r))})
	}
	sc.tb.Rows = rows
	return map[string]any{"t": rows, "t2": t2}, sc
}

// innerQuery draws Qi over source {SRC} whose columns are described by tb; it returns the SQL (with
// a %s for the source) and the schema of its output.
func genInnerQuery(t *rapid.T, tb *Table, label string) (string, *Table) {
	var ints, nums []*Col
	for i := range tb.Cols {
		switch tb.Cols[i].Kind {
		case "int":
			ints = append(ints, &tb.Cols[i])
			nums = append(nums, &tb.Cols[i])
		case "num":
			nums = append(nums, &tb.Cols[i])
		}
	}
	where := ""
	if rapid.IntRange(0, 1).Draw(t, label+".haswhere") == 0 {
		where = " WHERE " + sq.Render(genPred(t, tb, &PredSpec{Core: true}, rapid.IntRange(0, 1).Draw(t, label+".wdepth"), label+".w"), nil)
	}
	if len(nums) > 0 && rapid.IntRange(0, 7).Draw(t, label+".whole") == 0 {
		// un-grouped aggregates: one row; the outer stage may use the very same aggregate texts
		v := nums[rapid.IntRange(0, len(nums)-1).Draw(t, label+".wcol")]
		out := &Table{Cols: []Col{{Name: "cnt", Kind: "int", Pool: []any{1.0, 2.0, 3.0}}, {Name: "tot", Kind: "num", Pool: []any{1.0, 2.5, 4.0}}}}
		return fmt.Sprintf("SELECT COUNT(*) AS cnt, SUM(%s) AS tot FROM %%s%s", v.Name, where), out
	}
	if len(nums) > 0 && rapid.IntRange(0, 3).Draw(t, label+".agg") == 0 {
		// grouped aggregate
		g := &tb.Cols[rapid.IntRange(0, len(tb.Cols)-1).Draw(t, label+".g")]
		v := nums[rapid.IntRange(0, len(nums)-1).Draw(t, label+".aggcol")]
		out := &Table{Cols: []Col{{Name: g.Name, Kind: g.Kind, Pool: g.Pool}, {Name: "cnt", Kind: "int", Pool: []any{1.0, 2.0, 3.0}}, {Name: "tot", Kind: "num", Pool: []any{1.0, 2.5, 4.0}}}}
		return fmt.Sprintf("SELECT %s, COUNT(*) AS cnt, SUM(%s) AS tot FROM %%s%s GROUP BY %s", g.Name, v.Name, where, g.Name), out
	}
	// projection of a subset of columns (+ an optional computed column)
	k := rapid.IntRange(1, len(tb.Cols)).Draw(t, label+".ncols")
	perm := rapid.Permutation(seqInts(len(tb.Cols))).Draw(t, label+".perm")
	out := &Table{}
	var items []string
	for _, i := range perm[:k] {
		items = append(items, tb.Cols[i].Name)
		out.Cols = append(out.Cols, tb.Cols[i])
	}
	if len(nums) > 0 && rapid.Bool().Draw(t, label+".computed") {
		v := nums[rapid.IntRange(0, len(nums)-1).Draw(t, label+".ccol")]
		name := "e" + label[len(label)-1:]
		items = append(items, fmt.Sprintf("(%s + 1) AS %s", v.Name, name))
		out.Cols = append(out.Cols, Col{Name: name, Kind: "num", Pool: []any{1.5, 2.0, 3.5, 5.0}})
	}
	star := rapid.IntRange(0, 4).Draw(t, label+".star") == 0
	// the inner query may sort its rows: the outer stage (e.g. the first-appearance order of its groups)
	// must see that order whether the inner result is named or materialised
	order := ""
	if rapid.IntRange(0, 2).Draw(t, label+".order") == 0 {
		oc := out.Cols[rapid.IntRange(0, len(out.Cols)-1).Draw(t, label+".ordercol")]
		if star {
			oc = tb.Cols[rapid.IntRange(0, len(tb.Cols)-1).Draw(t, label+".ordercolstar")]
		}
		order = " ORDER BY " + oc.Name + rapid.SampledFrom([]string{"", " DESC"}).Draw(t, label+".orderdir")
	}
	if star {
		return fmt.Sprintf("SELECT * FROM %%s%s%s", where, order), &Table{Cols: append([]Col{}, tb.Cols...)}
	}
	return fmt.Sprintf("SELECT %s FROM %%s%s%s", strings.Join(items, ", "), where, order), out
}

// genOuterQuery draws Qo over a source with schema tb; prefix is "" or "x.". ordered reports whether
// the result sequence is determined.
func genOuterQuery(t *rapid.T, tb *Table, prefix string, label string) (string, bool) {
	q, ord := genOuterQueryCore(t, tb, prefix, label)
	if !strings.Contains(q, " LIMIT ") && rapid.IntRange(0, 2).Draw(t, label+".window") == 0 {
		// a window on any outer shape (whole-table and grouped aggregates, plain and filtered projections): it cuts
		// the rows the outer query produces, never the rows it reads from the named result. The engine's row order
		// is a function of the source sequence, which is the same in both forms, so the comparison stays a sequence one
		q += fmt.Sprintf(" LIMIT %d", rapid.IntRange(1, 3).Draw(t, label+".window.n"))
		if rapid.IntRange(0, 2).Draw(t, label+".window.hasoff") == 0 {
			q += fmt.Sprintf(" OFFSET %d", rapid.IntRange(0, 2).Draw(t, label+".window.off"))
		}
	}
	return q, ord
}

func genOuterQueryCore(t *rapid.T, tb *Table, prefix string, label string) (string, bool) {
	ref := func(c *Col) string { return prefix + c.Name }
	where := ""
	if rapid.IntRange(0, 2).Draw(t, label+".haswhere") != 0 {
		where = " WHERE " + sq.Render(genPred(t, tb, &PredSpec{Core: true, Prefix: prefix}, rapid.IntRange(0, 1).Draw(t, label+".wdepth"), label+".w"), nil)
	}
	var nums []*Col
	for i := range tb.Cols {
		if tb.Cols[i].Kind == "int" || tb.Cols[i].Kind == "num" {
			nums = append(nums, &tb.Cols[i])
		}
	}
	switch rapid.IntRange(0, 5).Draw(t, label+".shape") {
	case 5:
		if len(nums) > 0 {
			v := nums[rapid.IntRange(0, len(nums)-1).Draw(t, label+".wcol")]
			return fmt.Sprintf("SELECT COUNT(*) AS cnt, SUM(%s) AS tot FROM %%s%s", ref(v), where), true
		}
		return "SELECT COUNT(*) AS cnt FROM %s" + where, true
	case 0:
		return "SELECT * FROM %s" + where, true
	case 1:
		if len(nums) > 0 {
			g := &tb.Cols[rapid.IntRange(0, len(tb.Cols)-1).Draw(t, label+".g")]
			v := nums[rapid.IntRange(0, len(nums)-1).Draw(t, label+".aggcol")]
			return fmt.Sprintf("SELECT %s AS gk, COUNT(*) AS n2, SUM(%s) AS s2 FROM %%s%s GROUP BY %s", ref(g), ref(v), where, ref(g)), true
		}
		fallthrough
	case 2:
		// ordered + limited projection
		c0 := &tb.Cols[rapid.IntRange(0, len(tb.Cols)-1).Draw(t, label+".ocol")]
		dir := rapid.SampledFrom([]string{"", " DESC"}).Draw(t, label+".dir")
		q := fmt.Sprintf("SELECT %s AS oc FROM %%s%s ORDER BY oc%s", ref(c0), where, dir)
		if rapid.Bool().Draw(t, label+".limit") {
			q += fmt.Sprintf(" LIMIT %d", rapid.IntRange(0, 4).Draw(t, label+".n"))
		}
		return q, true // only the key column is output, so ties are indistinguishable
	default:
		k := rapid.IntRange(1, len(tb.Cols)).Draw(t, label+".ncols")
		perm := rapid.Permutation(seqInts(len(tb.Cols))).Draw(t, label+".perm")
		var items []string
		for j, i := range perm[:k] {
			items = append(items, fmt.Sprintf("%s AS o%d", ref(&tb.Cols[i]), j+1))
		}
		if len(nums) > 0 && rapid.Bool().Draw(t, label+".computed") {
			v := nums[rapid.IntRange(0, len(nums)-1).Draw(t, label+".ccol")]
			items = append(items, fmt.Sprintf("(%s * 2) AS dbl", ref(v)))
		}
		return fmt.Sprintf("SELECT %s FROM %%s%s", strings.Join(items, ", "), where), true
	}
}

func genC07(t *rapid.T) any {
	doc, sc := genC07Doc(t)
	c := &C07Case{Doc: doc}
	c.Form = rapid.SampledFrom([]string{"cte", "derived", "derived", "chain", "twice-join", "twice-insub", "twice-filter-join", "twice-filter-sub", "path", "derived-shadow", "nested-options", "sel-sub", "sel-sub-root", "sel-sub-root", "in-sub", "in-sub-root", "exists", "exists"}).Draw(t, "form")
	switch c.Form {
	case "cte":
		qi, sch := genInnerQuery(t, sc.tb, "i1")
		qo, ord := genOuterQuery(t, sch, "", "o")
		// the name of a CTE may be that of a table of the document (which the inner query does not read):
		// inside the statement the name then denotes the CTE
		name := rapid.SampledFrom([]string{"c", "c", "c", "t2"}).Draw(t, "ctename")
		c.Composed = "WITH " + name + " AS (" + fmt.Sprintf(qi, "t") + ") " + fmt.Sprintf(qo, name)
		c.Stages = []string{fmt.Sprintf(qi, "t"), fmt.Sprintf(qo, "m1")}
		c.Ordered = ord
	case "derived":
		qi, sch := genInnerQuery(t, sc.tb, "i1")
		qo, ord := genOuterQuery(t, sch, "x.", "o")
		c.Composed = fmt.Sprintf(qo, "("+fmt.Sprintf(qi, "t")+") x")
		c.Stages = []string{fmt.Sprintf(qi, "t"), fmt.Sprintf(qo, "m1 x")}
		c.Ordered = ord
	case "nested-options":
		// the inner query, the outer query and a root sub query read the options the statement was built with
		// (GETVAR / CONSTANT): the options of a statement hold in every query nested in it
		cmin := rapid.SampledFrom([]float64{0, 1, 2, 3}).Draw(t, "cmin")
		vmax := rapid.SampledFrom([]float64{1, 2, 3, 5, 9}).Draw(t, "vmax")
		vmin := rapid.SampledFrom([]float64{0, 1, 2}).Draw(t, "vmin")
		c.Vars = map[string]any{"vmax": vmax, "vmin": vmin}
		c.Consts = map[string]any{"cmin": cmin, "tag": "c"}
		qi := fmt.Sprintf("SELECT %s, %s, CONSTANT('tag') AS tg FROM t WHERE %s >= CONSTANT('cmin')", sc.k, sc.v, sc.k)
		sub := fmt.Sprintf("SELECT COUNT(*) AS n FROM `<-t2` WHERE %s >= GETVAR('vmin')", sc.t2c)
		switch rapid.IntRange(0, 2).Draw(t, "shape") {
		case 0:
			qo := "SELECT x." + sc.k + " AS ok, x.tg AS tg, (" + sub + ") AS sb FROM %s x WHERE x." + sc.k + " <= GETVAR('vmax')"
			c.Composed = fmt.Sprintf(qo, "("+qi+")")
			c.Stages = []string{qi, fmt.Sprintf(qo, "m1")}
		case 1:
			qo := "SELECT " + sc.k + ", tg, GETVAR('vmin') AS lo FROM %s WHERE " + sc.k + " <= GETVAR('vmax')"
			c.Composed = "WITH c AS (" + qi + ") " + fmt.Sprintf(qo, "c")
			c.Stages = []string{qi, fmt.Sprintf(qo, "m1")}
		default:
			qm := "SELECT " + sc.k + ", tg FROM %s WHERE " + sc.k + " <= GETVAR('vmax')"
			qo := "SELECT " + sc.k + ", CONSTANT('tag') AS t2g FROM %s WHERE " + sc.k + " IN (SELECT " + sc.t2c + " FROM `<-t2` WHERE " + sc.t2c + " >= GETVAR('vmin'))"
			c.Composed = "WITH c1 AS (" + qi + "), c2 AS (" + fmt.Sprintf(qm, "c1") + ") " + fmt.Sprintf(qo, "c2")
			c.Stages = []string{qi, fmt.Sprintf(qm, "m1"), fmt.Sprintf(qo, "m2")}
		}
		c.Ordered = true
	case "derived-shadow":
		// the derived table is called like a table of the document (the one it reads, or another one), and the
		// outer query also reads that table of the enclosing document through `<-`: the alias names the derived
		// table inside the statement, the document keeps its own table
		where := ""
		if rapid.IntRange(0, 3).Draw(t, "haswhere") != 0 {
			where = " WHERE " + sq.Render(genPred(t, sc.tb, &PredSpec{Core: true}, 0, "w"), nil)
		}
		qi := fmt.Sprintf("SELECT %s, %s FROM t%s", sc.k, sc.v, where)
		if rapid.IntRange(0, 3).Draw(t, "innerlimit") == 0 {
			qi += fmt.Sprintf(" LIMIT %d", rapid.IntRange(0, 3).Draw(t, "innerlimitn"))
		}
		alias := rapid.SampledFrom([]string{"t", "t", "t2"}).Draw(t, "alias")
		col := map[string]string{"t": sc.k, "t2": sc.t2c}[alias]
		sub := fmt.Sprintf("SELECT %s FROM `<-%s`", col, alias)
		switch rapid.IntRange(0, 2).Draw(t, "subform") {
		case 0:
			sub += fmt.Sprintf(" WHERE %s %s %s", col, rapid.SampledFrom(cmpOps).Draw(t, "subop"), sq.NumLit(rapid.SampledFrom([]float64{1, 2, 3}).Draw(t, "subc")))
		case 1:
			sub = fmt.Sprintf("SELECT COUNT(*) AS n, MAX(%s) AS mx FROM `<-%s`", col, alias)
		}
		qo := fmt.Sprintf("SELECT %s.%s AS ok, (%s) AS sb FROM %%s %s", alias, sc.k, sub, alias)
		if rapid.Bool().Draw(t, "inwhere") {
			qo = fmt.Sprintf("SELECT %s.%s AS ok, %s.%s AS ov FROM %%s %s WHERE %s.%s IN (SELECT %s FROM `<-%s`)", alias, sc.k, alias, sc.v, alias, alias, sc.k, col, alias)
		}
		c.Composed = fmt.Sprintf(qo, "("+qi+")")
		c.Stages = []string{qi, fmt.Sprintf(qo, "m1")}
		c.Ordered = true
	case "chain":
		qi, sch1 := genInnerQuery(t, sc.tb, "i1")
		qm, sch2 := genInnerQuery(t, sch1, "i2")
		qo, ord := genOuterQuery(t, sch2, "", "o")
		n2 := rapid.SampledFrom([]string{"c2", "c2", "t2"}).Draw(t, "ctename2")
		c.Composed = "WITH c1 AS (" + fmt.Sprintf(qi, "t") + "), " + n2 + " AS (" + fmt.Sprintf(qm, "c1") + ") " + fmt.Sprintf(qo, n2)
		c.Stages = []string{fmt.Sprintf(qi, "t"), fmt.Sprintf(qm, "m1"), fmt.Sprintf(qo, "m2")}
		c.Ordered = ord
	case "twice-join":
		where := ""
		if rapid.Bool().Draw(t, "haswhere") {
			where = " WHERE " + sq.Render(genPred(t, sc.tb, &PredSpec{Core: true}, 0, "w"), nil)
		}
		qi := fmt.Sprintf("SELECT %s, %s FROM t%s", sc.k, sc.v, where)
		on := fmt.Sprintf("x.%s %s y.%s", sc.k, rapid.SampledFrom([]string{"=", "=", "<"}).Draw(t, "onop"), sc.k)
		c.Composed = "WITH c AS (" + qi + ") SELECT * FROM c x JOIN c y ON " + on
		c.Stages = []string{qi, "SELECT * FROM m1 x JOIN m1 y ON " + on}
	case "twice-insub":
		qi := fmt.Sprintf("SELECT %s, %s FROM t", sc.k, sc.v)
		sub := sq.Render(sq.Cmp(rapid.SampledFrom(cmpOps).Draw(t, "subop"), sq.Col(sc.v), constFor(t, sc.tb.Col(sc.v), "subc")), nil)
		qo := "SELECT * FROM %s WHERE " + sc.k + " IN (SELECT " + sc.k + " FROM `<-%s` WHERE " + sub + ")"
		c.Composed = "WITH c AS (" + qi + ") " + fmt.Sprintf(qo, "c", "c")
		c.Stages = []string{qi, fmt.Sprintf(qo, "m1", "m1")}
		c.Ordered = true
	case "twice-filter-join":
		// a filtered read of the CTE followed by a second read of the same CTE
		p := sq.Render(genPred(t, sc.tb, &PredSpec{Core: true}, 1, "w"), nil)
		qi := fmt.Sprintf("SELECT %s, %s, %s FROM t", sc.k, sc.s, sc.v)
		qd := "SELECT * FROM %s WHERE " + p
		qo := "SELECT x." + sc.k + " AS xk, y." + sc.v + " AS yv FROM %s x JOIN %s y ON x." + sc.k + " = y." + sc.k
		c.Composed = "WITH c AS (" + qi + "), d AS (" + fmt.Sprintf(qd, "c") + ") " + fmt.Sprintf(qo, "d", "c")
		c.Stages = []string{qi, fmt.Sprintf(qd, "m1"), fmt.Sprintf(qo, "m2", "m1")}
	case "twice-filter-sub":
		// the outer query filters the CTE while a subquery re-reads all of it
		p := sq.Render(genPred(t, sc.tb, &PredSpec{Core: true}, 1, "w"), nil)
		qi := fmt.Sprintf("SELECT %s, %s, %s FROM t", sc.k, sc.s, sc.v)
		qo := "SELECT " + sc.k + ", (SELECT COUNT(*) AS n, SUM(" + sc.v + ") AS sv FROM `<-%s`) AS total FROM %s WHERE " + p
		c.Composed = "WITH c AS (" + qi + ") " + fmt.Sprintf(qo, "c", "c")
		c.Stages = []string{qi, fmt.Sprintf(qo, "m1", "m1")}
		c.Ordered = true
	case "path":
		where := ""
		if rapid.Bool().Draw(t, "haswhere") {
			where = " WHERE " + sq.Render(genPred(t, sc.tb, &PredSpec{Core: true}, 0, "w"), nil)
		}
		qi := fmt.Sprintf("SELECT %s, %s FROM t%s", sc.k, sc.items, where)
		qo := "SELECT " + sc.p + " FROM `%s." + sc.items + "`"
		c.Composed = "WITH c AS (" + qi + ") " + fmt.Sprintf(qo, "c")
		c.Stages = []string{qi, fmt.Sprintf(qo, "m1")}
		c.Ordered = true
	case "sel-sub", "sel-sub-root":
		c.SubAlias = "sb"
		if c.Form == "sel-sub" {
			c.Sub = "SELECT " + sc.p + " FROM " + sc.items
			if rapid.IntRange(0, 3).Draw(t, "subdistinct") == 0 {
				// DISTINCT inside the sub query: applies on every row the sub query is evaluated for
				c.Sub = "SELECT DISTINCT " + sc.p + " FROM " + sc.items
			} else if rapid.IntRange(0, 3).Draw(t, "subagg") == 0 {
				// an aggregate-only sub query: one row per outer row, also over an empty nested array
				c.Sub = fmt.Sprintf("SELECT COUNT(*) AS n, %s(%s) AS sv FROM %s", rapid.SampledFrom([]string{"SUM", "MAX", "MIN"}).Draw(t, "subaggfn"), sc.p, sc.items)
			}
			if rapid.Bool().Draw(t, "subwhere") {
				c.Sub += fmt.Sprintf(" WHERE %s %s %s", sc.p, rapid.SampledFrom(cmpOps).Draw(t, "subop"), sq.NumLit(rapid.SampledFrom([]float64{1, 2, 3, 5}).Draw(t, "subc")))
			}
			c.Outer = fmt.Sprintf("SELECT %s, (%s) AS sb FROM t", sc.k, c.Sub)
		} else {
			sub := "SELECT " + sc.t2c + " FROM %s"
			if rapid.Bool().Draw(t, "subwhere") {
				sub += fmt.Sprintf(" WHERE %s %s %s", sc.t2c, rapid.SampledFrom(cmpOps).Draw(t, "subop"), sq.NumLit(rapid.SampledFrom([]float64{1, 2, 3}).Draw(t, "subc")))
			}
			if rapid.Bool().Draw(t, "correlated") {
				// correlated with the outer row through `<-.col`: standalone form gets the row's value as a literal
				sub = "SELECT " + sc.t2c + " FROM %s WHERE " + sc.t2c + " " + rapid.SampledFrom([]string{"=", "<=", ">", "!="}).Draw(t, "corrop") + " %s"
				switch rapid.IntRange(0, 2).Draw(t, "corrplace") {
				case 1:
					// the back reference sits in the select list of the sub query (inside a comparison), not in its WHERE
					sub = "SELECT CASE WHEN " + sc.t2c + " " + rapid.SampledFrom([]string{">", "<=", "="}).Draw(t, "corrcaseop") + " %[2]s THEN 1 ELSE 0 END AS z, " + sc.t2c + " FROM %[1]s"
				}
				c.Sub = fmt.Sprintf(sub, "t2", "{OUTER:"+sc.k+"}")
				c.SubOnDoc = true
				c.Outer = fmt.Sprintf("SELECT %s, (%s) AS sb FROM t", sc.k, fmt.Sprintf(sub, "`<-t2`", "`<-."+sc.k+"`"))
				break
			}
			c.Sub = fmt.Sprintf(sub, "t2")
			c.SubOnDoc = true
			c.Outer = fmt.Sprintf("SELECT %s, (%s) AS sb FROM t", sc.k, fmt.Sprintf(sub, "`<-t2`"))
		}
	case "in-sub":
		c.InCol, c.InSubCol = sc.k, sc.p
		c.Sub = "SELECT " + sc.p + " FROM " + sc.items
		if rapid.Bool().Draw(t, "subwhere") {
			c.Sub += fmt.Sprintf(" WHERE %s %s %s", sc.p, rapid.SampledFrom(cmpOps).Draw(t, "subop"), sq.NumLit(rapid.SampledFrom([]float64{1, 2, 3, 5}).Draw(t, "subc")))
		}
		c.Sub += genSubTail(t, sc.p, "subtail")
		c.Outer = fmt.Sprintf("SELECT %s, %s FROM t WHERE %s IN (%s)", sc.k, sc.v, sc.k, c.Sub)
	case "in-sub-root":
		// IN over a root table, optionally correlated with the outer row
		c.InCol, c.InSubCol = sc.k, sc.t2c
		c.SubOnDoc = true
		if rapid.Bool().Draw(t, "correlated") {
			op := rapid.SampledFrom([]string{"<=", ">=", "!=", "<"}).Draw(t, "corrop")
			tail := genSubTail(t, sc.t2c, "subtail")
			c.Sub = fmt.Sprintf("SELECT %s FROM t2 WHERE %s %s {OUTER:%s}%s", sc.t2c, sc.t2c, op, sc.v, tail)
			c.Outer = fmt.Sprintf("SELECT %s, %s FROM t WHERE %s IN (SELECT %s FROM `<-t2` WHERE %s %s `<-.%s`%s)", sc.k, sc.v, sc.k, sc.t2c, sc.t2c, op, sc.v, tail)
		} else {
			cst := sq.NumLit(rapid.SampledFrom([]float64{1, 2, 3}).Draw(t, "subc"))
			op := rapid.SampledFrom(cmpOps).Draw(t, "subop")
			tail := genSubTail(t, sc.t2c, "subtail")
			where := fmt.Sprintf(" WHERE %s %s %s", sc.t2c, op, cst)
			if rapid.IntRange(0, 2).Draw(t, "nowhere") == 0 {
				where = "" // the plain form: one bare column of one table
			}
			c.Sub = fmt.Sprintf("SELECT %s FROM t2%s%s", sc.t2c, where, tail)
			c.Outer = fmt.Sprintf("SELECT %s, %s FROM t WHERE %s IN (SELECT %s FROM `<-t2`%s%s)", sc.k, sc.v, sc.k, sc.t2c, where, tail)
		}
	case "exists":
		// predicate over element columns p,q and outer columns k,s,v (names disjoint)
		tb := &Table{Cols: []Col{{Name: sc.p, Kind: "int", Pool: []any{1.0, 2.0, 3.0, 5.0}, Nullable: sc.hetero}, {Name: sc.q, Kind: "str", Pool: []any{"a", "b", "ab"}, Nullable: sc.hetero}}}
		tb.Cols = append(tb.Cols, sc.tb.Cols...)
		c.ExPred = genPred(t, tb, &PredSpec{Core: true}, rapid.IntRange(0, 2).Draw(t, "exdepth"), "ex")
		c.Not = rapid.IntRange(0, 2).Draw(t, "not") == 0
		kw := "EXISTS"
		if c.Not {
			kw = "NOT EXISTS"
		}
		pred := c.ExPred
		if rapid.IntRange(0, 2).Draw(t, "exback") == 0 {
			// the outer row's columns written as back references (`<-.col`) instead of bare names
			outer := map[string]bool{sc.k: true, sc.s: true, sc.v: true}
			var re func(e *sq.E) *sq.E
			re = func(e *sq.E) *sq.E {
				n := *e
				if e.K == "col" && outer[e.S] {
					n.S = "<-." + e.S
				}
				n.A = make([]*sq.E, len(e.A))
				for i, a := range e.A {
					n.A[i] = re(a)
				}
				return &n
			}
			pred = re(c.ExPred)
		}
		c.Outer = fmt.Sprintf("SELECT %s, %s FROM t WHERE %s (SELECT %s FROM %s WHERE %s)", sc.k, sc.s, kw, sc.p, sc.items, sq.Render(pred, nil))
		c.InCol = sc.items
	}
	if (c.Form == "cte" || c.Form == "derived" || c.Form == "chain") && rapid.IntRange(0, 4).Draw(t, "stray") == 0 {
		// elements that are not objects among the rows of the table: a query over it sees the objects only, and
		// so does every query that reads that query's result under a name
		rows, _ := c.Doc["t"].([]any)
		pos := rapid.IntRange(0, len(rows)).Draw(t, "stray.pos")
		odd := rapid.SampledFrom([]any{nil, "stray", 7.0, true}).Draw(t, "stray.value")
		c.Doc["t"] = append(append(append([]any{}, rows[:pos]...), odd), rows[pos:]...)
		if c.Form == "derived" && rapid.Bool().Draw(t, "stray.plain") {
			// the barest derived table: (SELECT * FROM t) x
			qo, ord := genOuterQuery(t, sc.tb, "x.", "so")
			c.Composed = fmt.Sprintf(qo, "(SELECT * FROM t) x")
			c.Stages = []string{"SELECT * FROM t", fmt.Sprintf(qo, "m1 x")}
			c.Ordered = ord
		}
	}
	if (c.Form == "sel-sub" || c.Form == "in-sub" || c.Form == "exists") && rapid.IntRange(0, 3).Draw(t, "collide") == 0 {
		// the nested array bears the name of a table of the document (t2) and is missing or NULL in some rows: a
		// sub query over it reads the row's array or nothing, never the table of the enclosing document
		re := regexp.MustCompile(`\b` + regexp.QuoteMeta(sc.items) + `\b`)
		c.Sub = re.ReplaceAllString(c.Sub, "t2")
		c.Outer = re.ReplaceAllString(c.Outer, "t2")
		if c.InCol == sc.items {
			c.InCol = "t2"
		}
		rows, _ := c.Doc["t"].([]any)
		for i, r := range rows {
			rm, ok := r.(map[string]any)
			if !ok {
				continue
			}
			v := rm[sc.items]
			delete(rm, sc.items)
			switch rapid.IntRange(0, 3).Draw(t, fmt.Sprintf("collide.r%d", i)) {
			case 0: // missing
			case 1:
				rm["t2"] = nil
			default:
				rm["t2"] = v
			}
		}
		c.Collide = true
	}
	return c
}

// substOuter replaces {OUTER:col} markers of a standalone subquery by the literal value the outer
// row holds in col (what a reference `<-.col` denotes inside the composed query).
func substOuter(sub string, row map[string]any) string {
	for {
		i := strings.Index(sub, "{OUTER:")
		if i < 0 {
			return sub
		}
		j := strings.Index(sub[i:], "}")
		col := sub[i+7 : i+j]
		lit := "NULL"
		switch v := row[col].(type) {
		case float64:
			lit = sq.NumLit(v)
		case string:
			lit = sq.StrLit(v)
		}
		sub = sub[:i] + lit + sub[i+j+1:]
	}
}

func emptyAsNil(v any) any {
	if s, ok := v.([]any); ok && len(s) == 0 {
		return nil
	}
	return v
}

// extra are the options every run of a nested-options case is built with.
func (c *C07Case) extra() []genql.QueryOption {
	var l []genql.QueryOption
	if c.Vars != nil {
		l = append(l, genql.WithVars(val.CopyMap(c.Vars)))
	}
	if c.Consts != nil {
		l = append(l, genql.WithConstants(val.CopyMap(c.Consts)))
	}
	return l
}

func checkC07(c *C07Case) Result {
	if c.Scale != nil {
		cc := *c
		cc.Doc, cc.Scale = c.Scale.ExpandDoc(c.Doc, "t"), nil
		res := checkC07(&cc)
		res.Labels = append(res.Labels, "large-table")
		return res
	}
	res := Result{Labels: []string{"form:" + c.Form}}
	if c.Collide {
		res.Labels = append(res.Labels, "nested-array-named-like-a-document-table")
	}
	if strings.HasPrefix(c.Composed, "WITH t2 AS") || strings.Contains(c.Composed, "), t2 AS (") {
		res.Labels = append(res.Labels, "cte-named-like-a-document-table")
	}
	rows, _ := c.Doc["t"].([]any)
	switch c.Form {
	case "cte", "derived", "derived-shadow", "nested-options", "chain", "twice-join", "twice-insub", "twice-filter-join", "twice-filter-sub", "path":
		doc := val.CopyMap(c.Doc)
		var last Out
		firstLen := -1
		for i, q := range c.Stages {
			last = Run(val.CopyMap(doc), q, Opts{}, c.extra()...)
			res.Execs++
			if !last.OK() {
				// the staged form itself fails: composition cannot be judged (the failure belongs to another property)
				res.Discard = "staged query fails: " + truncate(last.Describe(), 50)
				return res
			}
			if i == 0 {
				firstLen = len(last.Rows)
			}
			if i < len(c.Stages)-1 {
				// the materialised result exactly as Exec returned it (Go types included), as plain input
				raw := last.Raw
				if raw == nil {
					raw = []any{}
				}
				doc[fmt.Sprintf("m%d", i+1)] = raw
			}
		}
		comp := c.Env.Exec(val.CopyMap(c.Doc), c.Composed)
		if c.Form == "nested-options" {
			comp = Run(val.CopyMap(c.Doc), c.Composed, Opts{}, c.extra()...)
		}
		res.Execs++
		if !comp.OK() {
			res.Violation = fmt.Sprintf("composed query fails but the staged evaluation succeeds\n  composed: %s\n  got %s\n  staged:   %s\n  -> %s", c.Composed, comp.Describe(), strings.Join(c.Stages, " ; "), val.JSON(last.Rows))
			return res
		}
		equal := false
		if c.Ordered {
			equal = val.Equal(comp.Rows, last.Rows)
		} else {
			equal = val.MultisetEqual(comp.Rows, last.Rows)
		}
		if !equal {
			res.Violation = fmt.Sprintf("composed and staged evaluation differ\n  composed: %s\n  -> %s\n  staged:   %s\n  -> %s", c.Composed, val.JSON(comp.Rows), strings.Join(c.Stages, " ; "), val.JSON(last.Rows))
			return res
		}
		// inner result non-empty and the outer stage filters or projects it
		lastQ := c.Stages[len(c.Stages)-1]
		if strings.Contains(lastQ, " LIMIT ") {
			res.Labels = append(res.Labels, "outer-window")
			if strings.HasPrefix(lastQ, "SELECT COUNT(*)") {
				res.Labels = append(res.Labels, "outer-window-over-whole-table-aggregate")
			}
		}
		res.NonTrivial = firstLen > 0 && (strings.Contains(lastQ, " WHERE ") || !strings.HasPrefix(lastQ, "SELECT * FROM m"))
		return res
	case "sel-sub", "sel-sub-root":
		out := c.Env.Exec(val.CopyMap(c.Doc), c.Outer)
		res.Execs++
		if !out.OK() {
			res.Violation = fmt.Sprintf("%s\n  got %s", c.Outer, out.Describe())
			return res
		}
		if len(out.Rows) != len(rows) {
			res.Violation = fmt.Sprintf("%s\n  %d rows for %d source rows: %s", c.Outer, len(out.Rows), len(rows), val.JSON(out.Rows))
			return res
		}
		for i, r := range rows {
			var standalone Out
			if c.SubOnDoc {
				standalone = Run(val.CopyMap(c.Doc), substOuter(c.Sub, r.(map[string]any)), Opts{})
			} else {
				standalone = Run(val.CopyMap(r.(map[string]any)), c.Sub, Opts{})
			}
			res.Execs++
			if !standalone.OK() {
				res.Discard = "standalone subquery fails: " + truncate(standalone.Describe(), 50)
				return res
			}
			got, _ := out.Rows[i].(map[string]any)
			if !val.Equal(emptyAsNil(got[c.SubAlias]), emptyAsNil(any(standalone.Rows))) {
				res.Violation = fmt.Sprintf("%s\n  row %d: subquery column = %s, standalone `%s` on that row returns %s", c.Outer, i, val.JSON(got[c.SubAlias]), c.Sub, val.JSON(standalone.Rows))
				return res
			}
			if len(standalone.Rows) > 0 {
				res.NonTrivial = true
			}
		}
		return res
	case "in-sub", "in-sub-root":
		want := []any{}
		for _, r := range rows {
			rm := r.(map[string]any)
			var standalone Out
			if c.SubOnDoc {
				standalone = Run(val.CopyMap(c.Doc), substOuter(c.Sub, rm), Opts{})
			} else {
				standalone = Run(val.CopyMap(rm), c.Sub, Opts{})
			}
			res.Execs++
			if !standalone.OK() {
				res.Discard = "standalone subquery fails: " + truncate(standalone.Describe(), 50)
				return res
			}
			hit := false
			for _, sr := range standalone.Rows {
				if v, ok := sr.(map[string]any)[c.InSubCol]; ok && val.Equal(v, rm[c.InCol]) {
					hit = true
				}
			}
			if hit {
				want = append(want, r)
			}
		}
		out := c.Env.Exec(val.CopyMap(c.Doc), c.Outer)
		res.Execs++
		if !out.OK() {
			res.Violation = fmt.Sprintf("%s\n  got %s", c.Outer, out.Describe())
			return res
		}
		// outer selects two scalar columns; compare on those
		proj := []any{}
		for _, r := range want {
			rm := r.(map[string]any)
			o := map[string]any{}
			for k := range out0(out.Rows, rm) {
				o[k] = rm[k]
			}
			proj = append(proj, o)
		}
		if len(out.Rows) != len(want) || (len(want) > 0 && !val.Equal(out.Rows, proj)) {
			res.Violation = fmt.Sprintf("%s\n  expected the rows whose %s is among the standalone subquery's values: %s\n  got %s", c.Outer, c.InCol, val.JSON(proj), val.JSON(out.Rows))
			return res
		}
		res.NonTrivial = len(want) > 0 && len(want) < len(rows)
		return res
	case "exists":
		want := []any{}
		for _, r := range rows {
			rm := r.(map[string]any)
			items, _ := rm[c.InCol].([]any)
			some := false
			for _, it := range items {
				merged := map[string]any{}
				for k, v := range rm {
					merged[k] = v
				}
				for k, v := range it.(map[string]any) {
					merged[k] = v
				}
				b, err := sq.EvalBool(c.ExPred, merged, nil)
				if err != nil {
					discardOrHarness(&res, err)
					return res
				}
				if b {
					some = true
				}
			}
			if some != c.Not {
				want = append(want, r)
			}
		}
		out := c.Env.Exec(val.CopyMap(c.Doc), c.Outer)
		res.Execs++
		if !out.OK() {
			res.Violation = fmt.Sprintf("%s\n  got %s", c.Outer, out.Describe())
			return res
		}
		proj := []any{}
		for _, r := range want {
			rm := r.(map[string]any)
			o := map[string]any{}
			for k := range out0(out.Rows, rm) {
				o[k] = rm[k]
			}
			proj = append(proj, o)
		}
		if len(out.Rows) != len(want) || (len(want) > 0 && !val.Equal(out.Rows, proj)) {
			res.Violation = fmt.Sprintf("%s\n  expected (reference: some element satisfies the predicate) %s\n  got %s", c.Outer, val.JSON(proj), val.JSON(out.Rows))
			return res
		}
		res.NonTrivial = len(want) > 0 && len(want) < len(rows)
		if c.Not {
			res.Labels = append(res.Labels, "not-exists")
		}
		return res
	}
	res.Harness = "unknown form " + c.Form
	return res
}

// out0 returns the key set of the first output row (the projected columns), or of fallback.
func out0(rows []any, fallback map[string]any) map[string]any {
	if len(rows) > 0 {
		if m, ok := rows[0].(map[string]any); ok {
			return m
		}
	}
	return map[string]any{}
}

// genSubTail draws what may follow the WHERE of a subquery: nothing (mostly), DISTINCT-free ordering and a window.
func genSubTail(t *rapid.T, col string, label string) string {
	switch rapid.IntRange(0, 5).Draw(t, label) {
	case 0:
		return fmt.Sprintf(" ORDER BY %s%s LIMIT %d", col, rapid.SampledFrom([]string{"", " DESC"}).Draw(t, label+".dir"), rapid.IntRange(0, 2).Draw(t, label+".n"))
	case 1:
		return fmt.Sprintf(" ORDER BY %s%s LIMIT %d OFFSET %d", col, rapid.SampledFrom([]string{"", " DESC"}).Draw(t, label+".dir"), rapid.IntRange(1, 2).Draw(t, label+".n"), rapid.IntRange(0, 2).Draw(t, label+".m"))
	case 2:
		return fmt.Sprintf(" ORDER BY %s%s", col, rapid.SampledFrom([]string{"", " DESC"}).Draw(t, label+".dir"))
	}
	return ""
}

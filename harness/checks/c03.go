package checks

import (
	"fmt"
	"math"
	"strconv"
	"strings"

	"pgregory.net/rapid"
	"verifharness/sq"
	"verifharness/val"
)

// C03 - GROUP BY partitions rows; aggregates cover exactly their group and honour WHERE.

type AggItem struct {
	Fn    string `json:"fn"`            // COUNT SUM MIN MAX AVG
	Col   string `json:"col,omitempty"` // "" = COUNT(*)
	Alias string `json:"alias"`
}

type C03Case struct {
	Doc       map[string]any    `json:"doc"`
	Env       Envelope          `json:"env,omitempty"`      // irrelevant options / table representation / repeated execution
	Limit     int               `json:"limit,omitempty"`    // LIMIT n (n >= 1) on the aggregate query; 0 = none
	Scale     *Scale            `json:"scale,omitempty"`    // large table: t is expanded from the rows of the document by this recipe (one grouping column spread over many keys) before anything is computed
	GoTypes   map[string]string `json:"go_types,omitempty"` // numeric columns handed over as native Go values of that type
	Shape     string            `json:"shape"`              // group | whole | groupagg
	GroupCols []string          `json:"group_cols,omitempty"`
	ShowCols  []string          `json:"show_cols,omitempty"` // grouping columns in the select list
	ShowAs    map[string]string `json:"show_as,omitempty"`   // output names of shown grouping columns: fresh, or the name of another grouping column (GROUP BY names source columns)
	Aggs      []AggItem         `json:"aggs"`
	Star      bool              `json:"star,omitempty"`
	Where     *sq.E             `json:"where,omitempty"`
	Having    *sq.E             `json:"having,omitempty"` // aggregate calls appear as call nodes
	SQL       string            `json:"sql"`
}

func init() {
	Register(&Prop{
		ID:    "C03",
		Title: "GROUP BY partitions rows; aggregates cover exactly their group and honour WHERE",
		Rule: "[Dimensions added in rounds p-r of the seeded-defect evaluation: a seventh of the cases group by 4-6 columns; large tables reach 2600 rows and up to 1300 groups (round-robin keys, rows arriving after the last new group, the spread column among the grouping columns); an aggregate may be shown under the name of its own argument column; a sixth of the enveloped cases run after 1-3 failing statements.] " +
			"rapid draws a table with 1-3 low-cardinality grouping columns (strings incl. several spellings of one number and blanks / numbers, also as native Go types and as int64 / uint64 beyond 2^53 / NULL or missing keys) and 2-3 numeric value " +
			"columns (some nullable), 0-10 rows (about 4% of the cases: 200-700 rows built from the drawn rows in a drawn arrangement, one grouping column spread over 2-400 distinct keys in a drawn order of first appearance), and a query of shape group (GROUP BY with keys, 1-5 aggregates incl. the same function on " +
			"different columns, optional *, WHERE, HAVING with aggregates under comparisons, [NOT] BETWEEN, IS [NOT] NULL, [NOT] IN, unary minus and arithmetic), whole (all-aggregate list without GROUP BY, with/without WHERE, incl. empty input) or " +
			"groupagg (all-aggregate list with GROUP BY), a quarter of them with a trailing LIMIT n >= 1 (which only trims the output sequence); oracle = reference grouping in first-appearance order (sequence equality), three " +
			"executions must agree, conservation law sum(COUNT(*)) = |rows passing WHERE|, groups pairwise distinct. Non-trivial: >=2 groups " +
			"with one of size >=2, or whole-table with WHERE rejecting >=1 row, or two calls of one aggregate function.",
		Assumptions: []string{
			"a third of the cases run inside an envelope that must not change the result: PostgresEscapingDialect / IdiomaticArrays on (the query uses neither double quotes nor brackets), Wrapped() with FROM root.<table>, tables handed over as []map[string]any, a second execution on the same input object, and the same query text run before on a different document",
			"scalar grouping keys only; AVG and COUNT(col) only on non-nullable columns (as the statement says)",
			"aggregate arguments are plain columns",
		},
		Gen: func(t *rapid.T) any {
			c := genC03(t).(*C03Case)
			c.Env = genEnvelope(t, "env")
			return c
		},
		New: func() any { return &C03Case{} },
		Check: func(c any) Result {
			r := checkC03(c.(*C03Case))
			r.Labels = append(r.Labels, c.(*C03Case).Env.Labels()...)
			return r
		},
		Quick:    2500,
		Thorough: 200000,
	})
}

type c03Schema struct {
	groupCols []Col
	valCols   []Col
}

func genC03(t *rapid.T) any {
	names := genNames(t, 9, nil, "names")
	ng := rapid.IntRange(1, 3).Draw(t, "ngroupcols")
	if rapid.IntRange(0, 6).Draw(t, "manygroupcols") == 0 {
		ng = rapid.IntRange(4, 6).Draw(t, "ngroupcols.many") // wide keys: rows may agree on all but the last grouping column
	}
	nv := rapid.IntRange(2, 3).Draw(t, "nvalcols")
	var sch c03Schema
	for i := 0; i < ng; i++ {
		kind := rapid.SampledFrom([]string{"str", "int", "str", "num"}).Draw(t, fmt.Sprintf("g%d.kind", i))
		c := Col{Name: names[i], Kind: kind, Nullable: rapid.IntRange(0, 2).Draw(t, fmt.Sprintf("g%d.nullable", i)) == 0}
		n := rapid.IntRange(1, 3).Draw(t, fmt.Sprintf("g%d.card", i))
		for j := 0; j < n; j++ {
			l := fmt.Sprintf("g%d.v%d", i, j)
			switch kind {
			case "str":
				c.Pool = append(c.Pool, rapid.SampledFrom([]string{"a", "b", "A", "", "x y", "1", "ab", "1.0", "01", "1", "1e0", "7", "007", " a", "a "}).Draw(t, l))
			case "int":
				c.Pool = append(c.Pool, rapid.SampledFrom([]float64{0, 1, 2, -1, 10}).Draw(t, l))
			default:
				c.Pool = append(c.Pool, rapid.SampledFrom([]float64{0.5, 1, 1.5, -2.25}).Draw(t, l))
			}
		}
		sch.groupCols = append(sch.groupCols, c)
	}
	if ng >= 2 && rapid.IntRange(0, 2).Draw(t, "sharedpool") == 0 {
		// two grouping columns over the same values: key tuples that are permutations of each other, (1,2) and (2,1),
		// are different groups
		a := &sch.groupCols[0]
		for len(a.Pool) < 2 {
			switch a.Kind {
			case "str":
				a.Pool = append(a.Pool, rapid.SampledFrom([]string{"b", "1", "x y", ""}).Draw(t, "sharedpool.s"))
			case "int":
				a.Pool = append(a.Pool, rapid.SampledFrom([]float64{2, -1, 10}).Draw(t, "sharedpool.i"))
			default:
				a.Pool = append(a.Pool, rapid.SampledFrom([]float64{1.5, -2.25}).Draw(t, "sharedpool.n"))
			}
		}
		sch.groupCols[1].Kind = a.Kind
		sch.groupCols[1].Pool = append([]any{}, a.Pool...)
	}
	for i := 0; i < nv; i++ {
		c := Col{Name: names[6+i], Kind: "num", Nullable: i > 0 && rapid.Bool().Draw(t, fmt.Sprintf("v%d.nullable", i))}
		n := rapid.IntRange(2, 4).Draw(t, fmt.Sprintf("v%d.card", i))
		for j := 0; j < n; j++ {
			c.Pool = append(c.Pool, rapid.SampledFrom([]float64{-3, -1.5, 0, 1, 2, 2.5, 4, 10, 100.25}).Draw(t, fmt.Sprintf("v%d.p%d", i, j)))
		}
		sch.valCols = append(sch.valCols, c)
	}
	// scale: a large table with many groups. The keys join the pool of one grouping column (so WHERE / HAVING
	// constants and Go types fit them); the case keeps the few rows drawn below plus the recipe, Check expands it
	scale := genScale(t, 14, "scale")
	scaleCol := ""
	if scale != nil {
		var scalePool []any
		nScaleKeys := rapid.SampledFrom([]int{2, 31, 32, 33, 40, 64, 100, 150, 250, 400, 513, 600, 1025, 1300}).Draw(t, "scale.keys")
		gc := &sch.groupCols[rapid.IntRange(0, ng-1).Draw(t, "scale.col")]
		scaleCol = gc.Name
		gc.Nullable = false
		for j := 0; j < nScaleKeys; j++ {
			switch gc.Kind {
			case "str":
				scalePool = append(scalePool, strconv.Itoa(j))
			case "int":
				scalePool = append(scalePool, float64(j))
			default:
				scalePool = append(scalePool, float64(j)*0.5)
			}
		}
		gc.Pool = append(gc.Pool, scalePool...)
		scale.genKeys(t, gc.Name, scalePool, "scale.key")
		if rapid.Bool().Draw(t, "scale.roundrobin") {
			scale.Steps = []int{1} // every key of the pool in turn: as many groups as the pool (or the table) allows
		}
		if nScaleKeys > 500 && scale.Rows <= nScaleKeys {
			scale.Rows = nScaleKeys + rapid.IntRange(1, 300).Draw(t, "scale.morerows") // rows keep arriving after the last new group
		}
	}
	nr := genRowCount(t, 0, 10, "nrows")
	rows := []any{}
	for r := 0; r < nr; r++ {
		row := map[string]any{}
		for _, c := range append(append([]Col{}, sch.groupCols...), sch.valCols...) {
			l := fmt.Sprintf("r%d.%s", r, c.Name)
			if c.Nullable {
				switch rapid.IntRange(0, 4).Draw(t, l+".null") {
				case 0:
					row[c.Name] = nil
					continue
				case 1:
					if rapid.Bool().Draw(t, l+".missing") {
						continue
					}
					row[c.Name] = nil
					continue
				}
			}
			row[c.Name] = rapid.SampledFrom(c.Pool).Draw(t, l)
		}
		rows = append(rows, row)
	}
	c := &C03Case{Doc: map[string]any{"t": rows}}
	c.GoTypes = genGoTypes(t, append(append([]Col{}, sch.groupCols...), sch.valCols...), "gotypes")
	for _, gc := range sch.groupCols {
		// grouping keys that float64 cannot tell apart (WHERE / HAVING constants are small numbers: only when
		// neither mentions the column)
		if gc.Kind == "int" && rapid.IntRange(0, 5).Draw(t, "gotypes.big."+gc.Name) == 0 {
			c.GoTypes[gc.Name] = rapid.SampledFrom([]string{"bigint64", "biguint64"}).Draw(t, "gotypes.bigtype."+gc.Name)
		}
	}
	c.Shape = rapid.SampledFrom([]string{"group", "group", "group", "whole", "whole", "groupagg"}).Draw(t, "shape")
	// aggregates
	na := rapid.IntRange(1, 5).Draw(t, "naggs")
	for i := 0; i < na; i++ {
		l := fmt.Sprintf("agg%d", i)
		fn := rapid.SampledFrom([]string{"COUNT", "SUM", "MIN", "MAX", "AVG", "SUM", "COUNT"}).Draw(t, l+".fn")
		it := AggItem{Fn: fn, Alias: fmt.Sprintf("o%d", i+1)}
		if i > 0 && rapid.IntRange(0, 2).Draw(t, l+".repeat") == 0 {
			// same function as the previous item, on a (likely) different column
			it.Fn = c.Aggs[i-1].Fn
		}
		switch it.Fn {
		case "COUNT":
			if rapid.Bool().Draw(t, l+".star") {
				it.Col = ""
			} else {
				it.Col = sch.valCols[0].Name // non-nullable
			}
		case "AVG":
			var cands []string
			for _, vc := range sch.valCols {
				if !vc.Nullable {
					cands = append(cands, vc.Name)
				}
			}
			it.Col = pick(t, cands, l+".col")
		default:
			it.Col = sch.valCols[rapid.IntRange(0, len(sch.valCols)-1).Draw(t, l+".col")].Name
		}
		c.Aggs = append(c.Aggs, it)
	}
	// a select list of grouping columns only: HAVING (and the partition itself) still ranges over all members
	keysOnly := c.Shape == "group" && rapid.IntRange(0, 4).Draw(t, "keysonly") == 0
	if keysOnly {
		c.Aggs = nil
	}
	if !keysOnly && rapid.IntRange(0, 3).Draw(t, "sameleaf") == 0 {
		// the same aggregate over two columns that share their last path element (ox.v / oy.v): each call ranges
		// over its own argument
		for r, row := range rows {
			rm := row.(map[string]any)
			rm["ox"] = map[string]any{"v": rapid.SampledFrom([]float64{1, 2, 5, 10}).Draw(t, fmt.Sprintf("sameleaf.r%d.x", r))}
			rm["oy"] = map[string]any{"v": rapid.SampledFrom([]float64{-3, 0.5, 7, 100}).Draw(t, fmt.Sprintf("sameleaf.r%d.y", r))}
		}
		fn := rapid.SampledFrom([]string{"SUM", "MIN", "MAX", "AVG", "COUNT"}).Draw(t, "sameleaf.fn")
		c.Aggs = append(c.Aggs, AggItem{Fn: fn, Col: "ox.v", Alias: "sx"}, AggItem{Fn: fn, Col: "oy.v", Alias: "sy"})
	}
	// where over value and grouping columns
	if rapid.IntRange(0, 1).Draw(t, "haswhere") == 0 {
		tb := &Table{}
		for _, gc := range sch.groupCols {
			tb.Cols = append(tb.Cols, gc)
		}
		tb.Cols = append(tb.Cols, sch.valCols...)
		c.Where = genPred(t, tb, &PredSpec{Core: rapid.Bool().Draw(t, "wcore")}, rapid.IntRange(0, 2).Draw(t, "wdepth"), "w")
	}
	if c.Shape != "whole" {
		k := rapid.IntRange(1, ng).Draw(t, "nkeys")
		if ng >= 4 && rapid.Bool().Draw(t, "allkeys") {
			k = ng
		}
		perm := rapid.Permutation(sch.groupCols).Draw(t, "keyperm")
		for _, gc := range perm[:k] {
			c.GroupCols = append(c.GroupCols, gc.Name)
		}
		if scaleCol != "" {
			// the column that is spread over many keys is one of the grouping columns
			has := false
			for _, g := range c.GroupCols {
				has = has || g == scaleCol
			}
			if !has {
				c.GroupCols[len(c.GroupCols)-1] = scaleCol
			}
		}
		if c.Shape == "group" {
			for _, g := range c.GroupCols {
				if rapid.IntRange(0, 3).Draw(t, "show."+g) != 0 {
					c.ShowCols = append(c.ShowCols, g)
				}
			}
			if len(c.ShowCols) == 0 && !c.Star {
				c.ShowCols = append(c.ShowCols, c.GroupCols[0])
			}
			c.Star = rapid.IntRange(0, 3).Draw(t, "star") == 0
		}
		if c.Shape == "group" && !c.Star && len(c.ShowCols) > 0 && rapid.IntRange(0, 4).Draw(t, "showas") == 0 {
			g1 := pick(t, c.ShowCols, "showas.col")
			c.ShowAs = map[string]string{g1: "k_" + g1}
			var others []string
			for _, g := range c.GroupCols {
				if g != g1 {
					others = append(others, g)
				}
			}
			if len(others) > 0 && rapid.IntRange(0, 3).Draw(t, "showas.other") != 0 {
				// the output name is another grouping column's name; that column is shown under a fresh name or not at all
				g2 := pick(t, others, "showas.name")
				c.ShowAs[g1] = g2
				keep := c.ShowCols[:0:0]
				for _, g := range c.ShowCols {
					if g != g2 {
						keep = append(keep, g)
					}
				}
				c.ShowCols = keep
				if rapid.Bool().Draw(t, "showas.both") {
					c.ShowCols = append(c.ShowCols, g2)
					c.ShowAs[g2] = rapid.SampledFrom([]string{"k_" + g2, g1}).Draw(t, "showas.name2")
				}
			}
		}
		if c.ShowAs == nil && (rapid.IntRange(0, 2).Draw(t, "hashaving") == 0 || (keysOnly && rapid.IntRange(0, 3).Draw(t, "keysonly.having") != 0)) {
			c.Having = genHaving(t, &sch, c.GroupCols, rapid.IntRange(0, 2).Draw(t, "hdepth"), "h")
		}
	}
	if rapid.IntRange(0, 3).Draw(t, "haslimit") == 0 {
		c.Limit = rapid.IntRange(1, 4).Draw(t, "limit")
	}
	for _, e := range []*sq.E{c.Where, c.Having} {
		if e != nil {
			e.Walk(func(x *sq.E) {
				if x.K == "col" && strings.HasPrefix(c.GoTypes[x.S], "big") {
					delete(c.GoTypes, x.S) // compared with a small constant: keep the column as it is
				}
			})
		}
	}
	for _, a := range c.Aggs {
		if strings.HasPrefix(c.GoTypes[a.Col], "big") {
			delete(c.GoTypes, a.Col) // aggregated: SUM / AVG of such values is a different matter
		}
	}
	if len(rows) > 0 {
		c.Scale = scale
	}
	if !c.Star && c.Shape != "whole" && rapid.IntRange(0, 4).Draw(t, "aggalias") == 0 {
		// an aggregate shown under the name of the very column it aggregates (SUM(v) AS v): HAVING SUM(v) still is the
		// aggregate of the source column
		for i := range c.Aggs {
			if col := c.Aggs[i].Col; col != "" && !strings.Contains(col, ".") {
				taken := false
				for _, o := range c.Aggs {
					taken = taken || o.Alias == col
				}
				for _, g := range c.GroupCols {
					taken = taken || g == col
				}
				for _, as := range c.ShowAs {
					taken = taken || as == col
				}
				if !taken {
					c.Aggs[i].Alias = col
					break
				}
			}
		}
	}
	c.SQL = renderC03(c)
	return c
}

func genHaving(t *rapid.T, sch *c03Schema, groupCols []string, depth int, label string) *sq.E {
	if depth <= 0 || rapid.IntRange(0, 2).Draw(t, label+".leaf") == 0 {
		switch rapid.IntRange(0, 7).Draw(t, label+".atom") {
		case 4:
			// aggregates below nodes other than a plain comparison
			lo := rapid.IntRange(0, 3).Draw(t, label+".lo")
			return sq.Between(rapid.Bool().Draw(t, label+".notbtw"), sq.Call("COUNT", sq.Raw("*")), sq.Num(float64(lo)), sq.Num(float64(lo+rapid.IntRange(0, 2).Draw(t, label+".span"))))
		case 5:
			vc := sch.valCols[len(sch.valCols)-1]
			fn := rapid.SampledFrom([]string{"SUM", "MIN", "MAX"}).Draw(t, label+".fn")
			return sq.Is(rapid.SampledFrom([]string{"null", "notnull"}).Draw(t, label+".isop"), sq.Call(fn, sq.Col(vc.Name)))
		case 6:
			fn := rapid.SampledFrom([]string{"SUM", "MIN", "MAX"}).Draw(t, label+".fn")
			c1 := rapid.SampledFrom([]float64{-3, 0, 1, 2, 4, 10}).Draw(t, label+".c1")
			c2 := rapid.SampledFrom([]float64{-1.5, 1, 2.5, 5}).Draw(t, label+".c2")
			return sq.In(rapid.Bool().Draw(t, label+".notin"), sq.Call(fn, sq.Col(sch.valCols[0].Name)), sq.Num(c1), sq.Num(c2))
		case 7:
			fn := rapid.SampledFrom([]string{"SUM", "MIN", "MAX", "AVG"}).Draw(t, label+".fn")
			agg := sq.Call(fn, sq.Col(sch.valCols[0].Name))
			var lhs *sq.E
			if rapid.Bool().Draw(t, label+".neg") {
				lhs = sq.Neg(agg)
			} else {
				// (COUNT yields a Go int, which the engine's arithmetic rejects - outside the statement; constants only)
				lhs = sq.Bin(rapid.SampledFrom([]string{"+", "*", "-"}).Draw(t, label+".aop"), agg, sq.Num(rapid.SampledFrom([]float64{1, 2, 0.5}).Draw(t, label+".ac")))
			}
			return sq.Cmp(rapid.SampledFrom(cmpOps).Draw(t, label+".op"), lhs, sq.Num(rapid.SampledFrom([]float64{-2, 0, 1, 3, 6}).Draw(t, label+".c")))
		case 0:
			return sq.Cmp(rapid.SampledFrom(cmpOps).Draw(t, label+".op"), sq.Call("COUNT", sq.Raw("*")), sq.Num(float64(rapid.IntRange(0, 4).Draw(t, label+".n"))))
		case 1:
			fn := rapid.SampledFrom([]string{"SUM", "MIN", "MAX", "AVG"}).Draw(t, label+".fn")
			return sq.Cmp(rapid.SampledFrom(cmpOps).Draw(t, label+".op"), sq.Call(fn, sq.Col(sch.valCols[0].Name)), sq.Num(rapid.SampledFrom([]float64{-1, 0, 1, 2, 2.5, 4, 10}).Draw(t, label+".c")))
		default:
			g := pick(t, groupCols, label+".g")
			var gc *Col
			for i := range sch.groupCols {
				if sch.groupCols[i].Name == g {
					gc = &sch.groupCols[i]
				}
			}
			if gc.Nullable {
				return sq.Is(rapid.SampledFrom([]string{"null", "notnull"}).Draw(t, label+".isop"), sq.Col(g))
			}
			return sq.Cmp(rapid.SampledFrom(cmpOps).Draw(t, label+".op"), sq.Col(g), constFor(t, gc, label+".gc"))
		}
	}
	switch rapid.IntRange(0, 2).Draw(t, label+".conn") {
	case 0:
		return sq.And(genHaving(t, sch, groupCols, depth-1, label+"L"), genHaving(t, sch, groupCols, depth-1, label+"R"))
	case 1:
		return sq.Or(genHaving(t, sch, groupCols, depth-1, label+"L"), genHaving(t, sch, groupCols, depth-1, label+"R"))
	default:
		return sq.Not(genHaving(t, sch, groupCols, depth-1, label+"N"))
	}
}

func renderAgg(a AggItem) string {
	arg := "*"
	if a.Col != "" {
		arg = sq.Ident(a.Col, nil)
	}
	return fmt.Sprintf("%s(%s) AS %s", a.Fn, arg, a.Alias)
}

func renderC03(c *C03Case) string {
	var items []string
	for _, g := range c.ShowCols {
		it := sq.Ident(g, nil)
		if as := c.ShowAs[g]; as != "" {
			it += " AS " + sq.Ident(as, nil)
		}
		items = append(items, it)
	}
	for _, a := range c.Aggs {
		items = append(items, renderAgg(a))
	}
	if c.Star {
		items = append(items, "*")
	}
	s := "SELECT " + strings.Join(items, ", ") + " FROM t"
	if c.Where != nil {
		s += " WHERE " + sq.Render(c.Where, nil)
	}
	if len(c.GroupCols) > 0 {
		var gs []string
		for _, g := range c.GroupCols {
			gs = append(gs, sq.Ident(g, nil))
		}
		s += " GROUP BY " + strings.Join(gs, ", ")
	}
	if c.Having != nil {
		s += " HAVING " + sq.Render(c.Having, nil)
	}
	if c.Limit > 0 {
		s += fmt.Sprintf(" LIMIT %d", c.Limit)
	}
	return s
}

// refAgg computes one aggregate over the member rows.
func refAgg(fn, col string, members []any) any {
	if fn == "COUNT" {
		return float64(len(members))
	}
	var vals []float64
	for _, m := range members {
		v, _ := sq.Lookup(m, col) // a plain column or a path into a nested object
		if v == nil {
			continue
		}
		vals = append(vals, v.(float64))
	}
	if len(vals) == 0 {
		return nil
	}
	switch fn {
	case "SUM", "AVG":
		s := 0.0
		for _, v := range vals {
			s += v
		}
		if fn == "AVG" {
			return s / float64(len(vals))
		}
		return s
	case "MIN":
		m := math.Inf(1)
		for _, v := range vals {
			m = math.Min(m, v)
		}
		return m
	case "MAX":
		m := math.Inf(-1)
		for _, v := range vals {
			m = math.Max(m, v)
		}
		return m
	}
	panic("refAgg " + fn)
}

// substAggs replaces aggregate call nodes by literals computed over members.
func substAggs(e *sq.E, members []any) *sq.E {
	if e.K == "call" {
		col := ""
		if len(e.A) > 0 && e.A[0].K == "col" {
			col = e.A[0].S
		}
		return lit(refAgg(strings.ToUpper(e.S), col, members))
	}
	n := *e
	n.A = make([]*sq.E, len(e.A))
	for i, a := range e.A {
		n.A[i] = substAggs(a, members)
	}
	return &n
}

type refGroup struct {
	key     []any
	members []any
}

func refC03(c *C03Case) ([]any, int, []refGroup, error) {
	rows, _ := c.Doc["t"].([]any)
	env := &sq.Env{Doc: c.Doc}
	var passed []any
	for _, r := range rows {
		if c.Where != nil {
			keep, err := sq.EvalBool(c.Where, r.(map[string]any), env)
			if err != nil {
				return nil, 0, nil, err
			}
			if !keep {
				continue
			}
		}
		passed = append(passed, r)
	}
	out := []any{}
	if c.Shape == "whole" {
		o := map[string]any{}
		for _, a := range c.Aggs {
			o[a.Alias] = refAgg(a.Fn, a.Col, passed)
		}
		return []any{o}, len(passed), nil, nil
	}
	var groups []refGroup
	for _, r := range passed {
		rm := r.(map[string]any)
		key := make([]any, len(c.GroupCols))
		for i, g := range c.GroupCols {
			key[i] = rm[g] // missing -> nil
		}
		found := -1
		for gi, g := range groups {
			if val.Equal(g.key, key) {
				found = gi
				break
			}
		}
		if found < 0 {
			groups = append(groups, refGroup{key: key})
			found = len(groups) - 1
		}
		groups[found].members = append(groups[found].members, r)
	}
	var kept []refGroup
	for _, g := range groups {
		keyRow := map[string]any{}
		for i, name := range c.GroupCols {
			keyRow[name] = g.key[i]
		}
		if c.Having != nil {
			h := substAggs(c.Having, g.members)
			ok, err := sq.EvalBool(h, keyRow, env)
			if err != nil {
				return nil, 0, nil, err
			}
			if !ok {
				continue
			}
		}
		kept = append(kept, g)
		o := map[string]any{}
		for _, name := range c.ShowCols {
			if as := c.ShowAs[name]; as != "" {
				o[as] = keyRow[name]
				continue
			}
			o[name] = keyRow[name]
		}
		for _, a := range c.Aggs {
			o[a.Alias] = refAgg(a.Fn, a.Col, g.members)
		}
		if c.Star {
			for k, v := range keyRow {
				o[k] = v
			}
			o["*"] = g.members
		}
		out = append(out, o)
	}
	return out, len(passed), kept, nil
}

func checkC03(c *C03Case) Result {
	res := Result{}
	if c.Scale != nil {
		cc := *c
		cc.Doc, cc.Scale = c.Scale.ExpandDoc(c.Doc, "t"), nil
		res = checkC03(&cc)
		res.Labels = append(res.Labels, "large-table")
		return res
	}
	want, passed, groups, err := refC03(c)
	if err != nil {
		discardOrHarness(&res, err)
		return res
	}
	if c.Limit > 0 {
		// the aggregates range over all qualifying rows; LIMIT only trims the sequence of output rows
		if len(want) > c.Limit {
			want = want[:c.Limit]
		}
		res.Labels = append(res.Labels, "limit")
	}
	rows, _ := c.Doc["t"].([]any)
	res.Labels = append(res.Labels, "shape:"+c.Shape)
	fnCount := map[string]int{}
	for _, a := range c.Aggs {
		fnCount[a.Fn]++
		l := "agg:" + a.Fn
		if a.Col == "" {
			l += "(*)"
		}
		res.Labels = append(res.Labels, l)
	}
	twice := false
	for fn, n := range fnCount {
		if n >= 2 {
			twice = true
			res.Labels = append(res.Labels, "repeated:"+fn)
		}
	}
	if c.Where != nil {
		res.Labels = append(res.Labels, "where")
	}
	if c.Having != nil {
		res.Labels = append(res.Labels, "having")
	}
	if c.Star {
		res.Labels = append(res.Labels, "star")
	}
	if len(c.Aggs) == 0 {
		res.Labels = append(res.Labels, "keys-only-select-list")
	}
	for g, as := range c.ShowAs {
		if strings.HasPrefix(as, "k_") {
			res.Labels = append(res.Labels, "key-alias:fresh")
		} else if g != as {
			res.Labels = append(res.Labels, "key-alias:other-key-name")
		}
	}
	if len(rows) == 0 {
		res.Labels = append(res.Labels, "empty-table")
	}
	if len(groups) >= 32 {
		res.Labels = append(res.Labels, "groups>=32")
	}
	if len(groups) > 512 {
		res.Labels = append(res.Labels, "groups>512")
		if len(c.GroupCols) >= 2 {
			res.Labels = append(res.Labels, "groups>512:two-or-more-columns")
		}
	}
	res.Labels = dedup(res.Labels)
	big := false
	for _, g := range groups {
		if len(g.members) >= 2 {
			big = true
		}
		for _, k := range g.key {
			if k == nil {
				res.Labels = append(res.Labels, "null-key")
			}
		}
	}
	res.Labels = dedup(res.Labels)
	res.NonTrivial = (c.Shape != "whole" && len(groups) >= 2 && big) || (c.Shape == "whole" && c.Where != nil && passed < len(rows)) || twice

	var first []any
	for i := 0; i < 3; i++ {
		out := c.exec(c.SQL)
		res.Execs++
		if !out.OK() {
			res.Violation = fmt.Sprintf("%s\n  expected rows %s\n  got %s", c.SQL, rowsText(want), out.Describe())
			return res
		}
		if i == 0 {
			first = out.Rows
			if d := diffRows(out.Rows, want); d != "" {
				res.Violation = fmt.Sprintf("%s\n  %s\n  expected rows %s\n  got      rows %s", c.SQL, d, rowsText(want), rowsText(out.Rows))
				return res
			}
		} else if !seqEqual(out.Rows, first) {
			res.Violation = fmt.Sprintf("%s\n  execution %d returned a different sequence: %s vs first %s", c.SQL, i+1, rowsText(out.Rows), rowsText(first))
			return res
		}
	}
	// conservation law, engine only: sum of COUNT(*) over groups = rows passing WHERE
	if c.Shape != "whole" && c.Having == nil {
		csql := "SELECT COUNT(*) AS n FROM t"
		if c.Where != nil {
			csql += " WHERE " + sq.Render(c.Where, nil)
		}
		gsql := csql + " GROUP BY " + strings.Join(c.GroupCols, ", ")
		// grouped query needs a non-aggregate item unless shape groupagg is supported; use keys
		gsql = strings.Replace(gsql, "SELECT COUNT(*) AS n", "SELECT "+c.GroupCols[0]+", COUNT(*) AS n", 1)
		tot := c.exec(csql)
		grp := c.exec(gsql)
		res.Execs += 2
		if !tot.OK() || !grp.OK() || len(tot.Rows) != 1 {
			res.Violation = fmt.Sprintf("conservation queries failed: %s -> %s ; %s -> %s", csql, tot.Describe(), gsql, grp.Describe())
			return res
		}
		sum := 0.0
		for _, r := range grp.Rows {
			n, _ := r.(map[string]any)["n"].(float64)
			sum += n
		}
		total, _ := tot.Rows[0].(map[string]any)["n"].(float64)
		if sum != total || int(total) != passed {
			res.Violation = fmt.Sprintf("conservation law broken: sum of group COUNT(*) = %v, whole-table COUNT(*) = %v, rows passing WHERE = %d\n  %s\n  %s", sum, total, passed, gsql, csql)
			return res
		}
		res.Labels = append(res.Labels, "conservation-checked")
	}
	return res
}

// exec runs one statement of the case on a typed copy of the document; integers handed over beyond 2^53
// are mapped back to the small numbers of the case before the result is normalised.
func (c *C03Case) exec(sql string) Out {
	out := c.Env.Exec(typedDoc(c.Doc, map[string]map[string]string{"t": c.GoTypes}), sql)
	for _, typ := range c.GoTypes {
		if strings.HasPrefix(typ, "big") && out.OK() {
			out.Rows = val.NormRows(unbig(out.Raw).([]any))
			break
		}
	}
	return out
}

package checks

import (
	"fmt"
	"strings"

	"pgregory.net/rapid"
	"verifharness/sq"
	"verifharness/val"
)

// C04 - Joins return the textbook multiset for every join type and strategy.

type C04Case struct {
	Doc map[string]any `json:"doc"` // {"l": [...], "r": [...]}
	// GoTypes: table -> column -> Go numeric type in which the engine receives that key column
	GoTypes map[string]map[string]string `json:"go_types,omitempty"`
	Type    string                       `json:"type"` // inner | left | right
	On      *sq.E                        `json:"on"`
	OnAlt   *sq.E                        `json:"on_alt"` // same condition, conjuncts shuffled / operands flipped
	Reps    int                          `json:"reps"`   // repetitions of PARALLEL variants
	// Alias: the two table aliases ("" = x / y). They may be spelled like a column or like the tables themselves.
	Alias [2]string `json:"alias,omitempty"`
	Env   Envelope  `json:"env,omitempty"` // irrelevant options / table representation / history (never Wrapped: joins name two tables)
	// Scale: one operand (ScaleSide "l" | "r") is expanded to 200-700 rows by this recipe before anything is computed;
	// its first key column is spread over the pair's pool plus many values the other side does not hold
	Scale     *Scale `json:"scale,omitempty"`
	ScaleSide string `json:"scale_side,omitempty"`
}

func init() {
	Register(&Prop{
		ID:    "C04",
		Title: "Joins return the textbook multiset for every join type and strategy",
		Rule: "[Dimensions added in rounds p-r of the seeded-defect evaluation: alias pairs of which one is a prefix of the other or that differ in letter case only; a sixth of the enveloped cases run after 1-3 failing statements (join keys unreadable on a later key column etc.).] " +
			"rapid draws two tables (0-6 rows) with 1-3 key columns per side whose names are drawn independently (so they sort differently on " +
			"the two sides), key values from shared pools of 2-3 values (duplicates, multi-column combinations, strings containing '-' and " +
			"digits-as-text; a third of the numeric key columns are handed over as native Go int*/uint*/float32 values, independently per side; a sixth of the pairs as int64 / uint64 beyond 2^53 on both sides, mapped back exactly from the raw result), an ON tree of column-to-column comparisons (= != < <= > >=, either orientation) joined by AND/OR (depth<=3; pure " +
			"equi-conjunctions forced often) and a join type (about 2% of the pure equi cases expand one operand to 200-700 rows by a recipe, its first key column spread over the shared pool plus up to 300 values the other side lacks); every applicable spelling (JOIN, INNER JOIN, STRAIGHT_JOIN, [LEFT|RIGHT] [OUTER] JOIN, " +
			"HASH_JOIN variants for pure equi ON, each also PARALLEL, PARALLEL ones repeated) plus a permuted/flipped ON is executed; oracle = " +
			"nested-loop reference multiset {x:l,y:r} + unmatched outer rows once. Non-trivial: both sides non-empty, >=1 matching pair and, " +
			"for outer joins, >=1 unmatched preserved row.",
		Assumptions: []string{
			"no NULL join keys; each key column holds one scalar kind on both sides",
			"a third of the cases run the composed query inside an envelope that must not change the result: PostgresEscapingDialect / IdiomaticArrays on (no double quotes or brackets in the text), tables handed over as []map[string]any, a second execution on the same input object, and the same text run before on a different document",
			"explicit HASH_JOIN spellings only with a pure equi-conjunction ON; STRAIGHT_JOIN only inner",
			"an absent alias key in an unmatched outer row is accepted as NULL",
			"thread schedules of PARALLEL variants are whatever the Go scheduler yields under repetition (and under -race in the race shard)",
		},
		Gen: func(t *rapid.T) any {
			c := genC04(t).(*C04Case)
			if rapid.IntRange(0, 3).Draw(t, "alias") == 0 {
				cols := func(table string) []string {
					rows, _ := c.Doc[table].([]any)
					if len(rows) == 0 {
						return []string{"x"}
					}
					return mapKeys(rows[0].(map[string]any))
				}
				switch rapid.IntRange(0, 5).Draw(t, "aliaskind") {
				case 4, 5:
					// one alias is a proper prefix of the other, or they differ in letter case only
					p := rapid.SampledFrom([][2]string{{"o", "oi"}, {"t2", "t"}, {"a", "ab"}, {"x1", "x"}, {"lr", "l"}, {"r", "rr"}, {"u", "U"}, {"x_y", "x"}}).Draw(t, "aliaspair")
					c.Alias = p
				case 0:
					c.Alias = [2]string{"l", "r"} // the tables' own names
				case 1:
					c.Alias = [2]string{"y", "x"}
				case 2:
					c.Alias = [2]string{rapid.SampledFrom(cols("l")).Draw(t, "aliasl"), rapid.SampledFrom(cols("r")).Draw(t, "aliasr")} // spelled like columns
				default:
					c.Alias = [2]string{"r", "l"} // each other's names
				}
			}
			c.Env = genEnvelope(t, "env")
			c.Env.Wrapped = false
			return c
		},
		New: func() any { return &C04Case{} },
		Check: func(c any) Result {
			r := checkC04(c.(*C04Case))
			r.Labels = append(r.Labels, c.(*C04Case).Env.Labels()...)
			return r
		},
		Quick:        1200,
		Thorough:     60000,
		RaceQuick:    60,
		RaceThorough: 4000,
	})
}

var dashStrs = []string{"a", "a-", "-b", "b", "a-b", "1", "10", "-", ""}

func genC04(t *rapid.T) any {
	nk := rapid.IntRange(1, 3).Draw(t, "nkeys")
	lnames := genNames(t, nk+1, nil, "lnames")
	rnames := genNames(t, nk+1, nil, "rnames")
	type pair struct {
		l, r string
		kind string
		pool []any
	}
	var pairs []pair
	for i := 0; i < nk; i++ {
		kind := rapid.SampledFrom([]string{"int", "str"}).Draw(t, fmt.Sprintf("k%d.kind", i))
		n := rapid.IntRange(2, 3).Draw(t, fmt.Sprintf("k%d.card", i))
		var pool []any
		for j := 0; j < n; j++ {
			l := fmt.Sprintf("k%d.p%d", i, j)
			if kind == "int" {
				pool = append(pool, rapid.SampledFrom([]float64{1, 2, 3, 10, -1, 0, 1000000, 2147483648}).Draw(t, l))
			} else {
				pool = append(pool, rapid.SampledFrom(dashStrs).Draw(t, l))
			}
		}
		pairs = append(pairs, pair{l: lnames[i], r: rnames[i], kind: kind, pool: pool})
	}
	mk := func(side string, names []string, label string) []any {
		n := rapid.IntRange(0, 6).Draw(t, label+".nrows")
		if rapid.IntRange(0, 14).Draw(t, label+".many") == 0 {
			n = rapid.IntRange(13, 24).Draw(t, label+".manyrows")
		}
		rows := []any{}
		for r := 0; r < n; r++ {
			row := map[string]any{}
			for i, p := range pairs {
				name := p.l
				if side == "r" {
					name = p.r
				}
				row[name] = rapid.SampledFrom(p.pool).Draw(t, fmt.Sprintf("%s.r%d.k%d", label, r, i))
			}
			// payload: small pool so that fully duplicate rows occur too
			row[names[nk]] = float64(rapid.IntRange(0, 3).Draw(t, fmt.Sprintf("%s.r%d.payload", label, r)))
			rows = append(rows, row)
		}
		return rows
	}
	c := &C04Case{Doc: map[string]any{"l": mk("l", lnames, "l"), "r": mk("r", rnames, "r")}}
	c.GoTypes = map[string]map[string]string{"l": {}, "r": {}}
	for i, p := range pairs {
		if p.kind != "int" {
			continue
		}
		if rapid.IntRange(0, 5).Draw(t, fmt.Sprintf("gotype.big%d", i)) == 0 {
			// both sides of the pair hold integers that float64 cannot tell apart
			big := rapid.SampledFrom([]string{"bigint64", "biguint64"}).Draw(t, fmt.Sprintf("gotype.bigtype%d", i))
			ok := true
			for _, v := range p.pool {
				if f, isNum := v.(float64); !isNum || !fitsGoType(f, big) {
					ok = false
				}
			}
			if ok {
				c.GoTypes["l"][p.l], c.GoTypes["r"][p.r] = big, big
				continue
			}
		}
		if typ := genGoTypesForPool(t, p.pool, fmt.Sprintf("gotype.l%d", i)); typ != "" {
			c.GoTypes["l"][p.l] = typ
		}
		if typ := genGoTypesForPool(t, p.pool, fmt.Sprintf("gotype.r%d", i)); typ != "" {
			c.GoTypes["r"][p.r] = typ
		}
	}
	c.Type = rapid.SampledFrom([]string{"inner", "left", "right"}).Draw(t, "type")
	mode := rapid.IntRange(0, 4).Draw(t, "equi")
	equi := mode <= 1
	// eqor: equalities only, but joined by OR as well as AND (no key tuple decides the partners)
	eqor := mode == 2
	atom := func(i int, label string) *sq.E {
		p := pairs[i]
		op := "="
		if !equi && !eqor {
			op = rapid.SampledFrom([]string{"=", "=", "!=", "<", "<=", ">", ">="}).Draw(t, label+".op")
		}
		return orient(op, "x."+p.l, "y."+p.r, rapid.Bool().Draw(t, label+".flip"))
	}
	if equi {
		// conjunction over a non-empty subset of the key pairs, in random order
		perm := rapid.Permutation(seqInts(nk)).Draw(t, "equi.perm")
		k := rapid.IntRange(1, nk).Draw(t, "equi.k")
		var e *sq.E
		for j := 0; j < k; j++ {
			a := atom(perm[j], fmt.Sprintf("equi.a%d", j))
			if e == nil {
				e = a
			} else {
				e = sq.And(e, a)
			}
		}
		if nk >= 2 && rapid.IntRange(0, 3).Draw(t, "equi.cross") == 0 {
			// one column of one side compared with two different columns of the other side
			// (x.a = y.b AND x.a = y.c): the key columns of the two sides do not pair off one to one
			i := rapid.IntRange(0, nk-1).Draw(t, "equi.cross.i")
			j := rapid.IntRange(0, nk-2).Draw(t, "equi.cross.j")
			if j >= i {
				j++
			}
			big := func(side, col string) bool { return strings.HasPrefix(c.GoTypes[side][col], "big") }
			if pairs[i].kind == pairs[j].kind && !big("l", pairs[i].l) && !big("r", pairs[j].r) && !big("l", pairs[j].l) && !big("r", pairs[i].r) {
				l, r := "x."+pairs[i].l, "y."+pairs[j].r
				if rapid.Bool().Draw(t, "equi.cross.side") {
					l, r = "x."+pairs[j].l, "y."+pairs[i].r
				}
				e = sq.And(e, orient("=", l, r, rapid.Bool().Draw(t, "equi.cross.flip")))
			}
		}
		c.On = e
	} else {
		var gen func(depth int, label string) *sq.E
		gen = func(depth int, label string) *sq.E {
			if depth <= 0 || rapid.IntRange(0, 2).Draw(t, label+".leaf") == 0 {
				return atom(rapid.IntRange(0, nk-1).Draw(t, label+".pair"), label)
			}
			if rapid.Bool().Draw(t, label+".and") {
				return sq.And(gen(depth-1, label+"L"), gen(depth-1, label+"R"))
			}
			return sq.Or(gen(depth-1, label+"L"), gen(depth-1, label+"R"))
		}
		c.On = gen(rapid.IntRange(0, 3).Draw(t, "on.depth"), "on")
		if eqor {
			c.On = sq.Or(gen(rapid.IntRange(0, 1).Draw(t, "on.ldepth"), "onl"), gen(rapid.IntRange(0, 2).Draw(t, "on.rdepth"), "onr"))
		}
	}
	// alternative form: swap children of AND/OR and flip operand orientation at random
	var alt func(e *sq.E, label string) *sq.E
	alt = func(e *sq.E, label string) *sq.E {
		switch e.K {
		case "and", "or":
			a, b := alt(e.A[0], label+"L"), alt(e.A[1], label+"R")
			if rapid.Bool().Draw(t, label+".swap") {
				a, b = b, a
			}
			return &sq.E{K: e.K, A: []*sq.E{a, b}}
		case "cmp":
			if rapid.Bool().Draw(t, label+".flip") {
				return sq.Cmp(mirror(e.Op), e.A[1], e.A[0])
			}
		}
		return e
	}
	c.OnAlt = alt(c.On, "alt")
	c.Reps = 5
	// scale: strategies that depend on the size of an operand (partitioning, chunking, build side) must return the
	// same multiset; pure equi-conjunctions only, so that the result stays small
	if equi && !strings.HasPrefix(c.GoTypes["l"][pairs[0].l], "big") {
		side := rapid.SampledFrom([]string{"l", "r"}).Draw(t, "scale.side")
		if rows, _ := c.Doc[side].([]any); len(rows) > 0 {
			if sc := genScale(t, 14, "scale"); sc != nil {
				pool := append([]any{}, pairs[0].pool...)
				extra := rapid.SampledFrom([]int{0, 5, 60, 300}).Draw(t, "scale.extra")
				for j := 0; j < extra; j++ {
					if pairs[0].kind == "int" {
						pool = append(pool, float64(20+j))
					} else {
						pool = append(pool, fmt.Sprintf("z%d", j))
					}
				}
				col := pairs[0].l
				if side == "r" {
					col = pairs[0].r
				}
				sc.genKeys(t, col, pool, "scale.key")
				c.Scale, c.ScaleSide = sc, side
				c.Reps = 2
			}
		}
	}
	return c
}

func seqInts(n int) []int {
	s := make([]int, n)
	for i := range s {
		s[i] = i
	}
	return s
}

func mirror(op string) string {
	switch op {
	case "<":
		return ">"
	case "<=":
		return ">="
	case ">":
		return "<"
	case ">=":
		return "<="
	}
	return op
}

func orient(op, l, r string, flip bool) *sq.E {
	if flip {
		return sq.Cmp(mirror(op), sq.Col(r), sq.Col(l))
	}
	return sq.Cmp(op, sq.Col(l), sq.Col(r))
}

func isPureEqui(e *sq.E) bool {
	switch e.K {
	case "and":
		return isPureEqui(e.A[0]) && isPureEqui(e.A[1])
	case "cmp":
		return e.Op == "="
	}
	return false
}

func hasOr(e *sq.E) bool {
	f := false
	e.Walk(func(x *sq.E) {
		if x.K == "or" {
			f = true
		}
	})
	return f
}

// renderOn renders an ON tree without the outer parentheses Render adds.
func renderOn(e *sq.E) string { return sq.Render(e, nil) }

func refJoin(l, r []any, on *sq.E, typ string) (rows []any, pairs int, unmatched int, err error) {
	rows = []any{}
	lMatched := make([]bool, len(l))
	rMatched := make([]bool, len(r))
	for i, lr := range l {
		for j, rr := range r {
			b, e := sq.EvalBool(on, map[string]any{"x": lr, "y": rr}, nil)
			if e != nil {
				return nil, 0, 0, e
			}
			if b {
				pairs++
				lMatched[i], rMatched[j] = true, true
				rows = append(rows, map[string]any{"x": lr, "y": rr})
			}
		}
	}
	switch typ {
	case "left":
		for i, lr := range l {
			if !lMatched[i] {
				unmatched++
				rows = append(rows, map[string]any{"x": lr, "y": nil})
			}
		}
	case "right":
		for j, rr := range r {
			if !rMatched[j] {
				unmatched++
				rows = append(rows, map[string]any{"x": nil, "y": rr})
			}
		}
	}
	return rows, pairs, unmatched, nil
}

// normJoinRows makes an absent alias key an explicit NULL.
func normJoinRows(rows []any) []any {
	out := make([]any, len(rows))
	for i, r := range rows {
		m, ok := r.(map[string]any)
		if !ok {
			out[i] = r
			continue
		}
		n := map[string]any{"x": nil, "y": nil}
		for k, v := range m {
			n[k] = v
		}
		out[i] = n
	}
	return out
}

type joinSpelling struct {
	kw       string
	parallel bool
	hash     bool
}

func spellingsFor(typ string, equi bool) []joinSpelling {
	var s []joinSpelling
	add := func(kw string, hash bool) {
		s = append(s, joinSpelling{kw: kw, hash: hash}, joinSpelling{kw: "PARALLEL " + kw, parallel: true, hash: hash})
	}
	switch typ {
	case "inner":
		add("JOIN", false)
		add("INNER JOIN", false)
		add("STRAIGHT_JOIN", false)
		if equi {
			add("HASH_JOIN", true)
			add("INNER HASH_JOIN", true)
		}
	case "left":
		add("LEFT JOIN", false)
		add("LEFT OUTER JOIN", false)
		if equi {
			add("LEFT HASH_JOIN", true)
			add("LEFT OUTER HASH_JOIN", true)
		}
	case "right":
		add("RIGHT JOIN", false)
		add("RIGHT OUTER JOIN", false)
		if equi {
			add("RIGHT HASH_JOIN", true)
			add("RIGHT OUTER HASH_JOIN", true)
		}
	}
	return s
}

func (c *C04Case) aliases() (string, string) {
	if c.Alias[0] == "" || c.Alias[1] == "" || c.Alias[0] == c.Alias[1] {
		return "x", "y"
	}
	return c.Alias[0], c.Alias[1]
}

// joinSQL renders the join under the case's aliases (the ON tree is written over x / y).
func (c *C04Case) joinSQL(kw string, on *sq.E) string {
	ax, ay := c.aliases()
	var re func(e *sq.E) *sq.E
	re = func(e *sq.E) *sq.E {
		n := *e
		if e.K == "col" {
			switch {
			case strings.HasPrefix(e.S, "x."):
				n.S = ax + e.S[1:]
			case strings.HasPrefix(e.S, "y."):
				n.S = ay + e.S[1:]
			}
		}
		n.A = make([]*sq.E, len(e.A))
		for i, a := range e.A {
			n.A[i] = re(a)
		}
		return &n
	}
	return "SELECT * FROM l " + ax + " " + kw + " r " + ay + " ON " + renderOn(re(on))
}

// unalias renames the alias keys of result rows back to x / y.
func (c *C04Case) unalias(rows []any) []any {
	ax, ay := c.aliases()
	if ax == "x" && ay == "y" {
		return rows
	}
	out := make([]any, len(rows))
	for i, r := range rows {
		m, ok := r.(map[string]any)
		if !ok {
			out[i] = r
			continue
		}
		n := make(map[string]any, len(m))
		for k, v := range m {
			switch k {
			case ax:
				n["x"] = v
			case ay:
				n["y"] = v
			default:
				n["other:"+k] = v
			}
		}
		out[i] = n
	}
	return out
}

// c04KnownKey classifies a case into the open known-finding classes (generator-level predicate).
func c04KnownKey(c *C04Case) string {
	return ""
}

func checkC04(c *C04Case) Result {
	res := Result{}
	if c.Scale != nil {
		cc := *c
		cc.Doc, cc.Scale = c.Scale.ExpandDoc(c.Doc, c.ScaleSide), nil
		res = checkC04(&cc)
		res.Labels = append(res.Labels, "large-operand:"+c.ScaleSide)
		return res
	}
	l, _ := c.Doc["l"].([]any)
	r, _ := c.Doc["r"].([]any)
	want, pairs, unmatched, err := refJoin(l, r, c.On, c.Type)
	if err != nil {
		discardOrHarness(&res, err)
		return res
	}
	equi := isPureEqui(c.On)
	class := "non-equi"
	if equi {
		class = "equi"
	} else if hasOr(c.On) {
		class = "or"
	}
	res.Labels = append(res.Labels, "type:"+c.Type, "on:"+class, c.Type+"/"+class)
	ncmp := 0
	c.On.Walk(func(e *sq.E) {
		if e.K == "cmp" {
			ncmp++
		}
	})
	if ncmp >= 2 {
		res.Labels = append(res.Labels, "multi-column")
	}
	res.NonTrivial = len(l) > 0 && len(r) > 0 && pairs >= 1 && (c.Type == "inner" || unmatched >= 1)
	res.KnownKey = c04KnownKey(c)
	reps := c.Reps
	if reps <= 0 {
		reps = 1
	}
	big := false
	for _, cols := range c.GoTypes {
		for _, typ := range cols {
			if strings.HasPrefix(typ, "big") {
				big = true
			}
		}
	}
	if big {
		res.Labels = append(res.Labels, "keys-beyond-2^53")
	}
	run := func(sql string, label string) string {
		out := c.Env.Exec(typedDoc(c.Doc, c.GoTypes), sql)
		res.Execs++
		if !out.OK() {
			return fmt.Sprintf("%s\n  expected multiset %s\n  got %s", sql, val.JSON(want), out.Describe())
		}
		got := normJoinRows(c.unalias(out.Rows))
		if big {
			got = normJoinRows(c.unalias(val.NormRows(unbig(out.Raw).([]any))))
		}
		if !val.MultisetEqual(got, want) {
			return fmt.Sprintf("%s (%s)\n  expected multiset (%d rows) %s\n  got               (%d rows) %s", sql, label, len(want), val.JSON(want), len(got), val.JSON(got))
		}
		return ""
	}
	for _, sp := range spellingsFor(c.Type, equi) {
		n := 1
		if sp.parallel {
			n = reps
		}
		for i := 0; i < n; i++ {
			if v := run(c.joinSQL(sp.kw, c.On), "strategy "+sp.kw); v != "" {
				res.Violation = v
				return res
			}
		}
		res.Labels = append(res.Labels, "kw:"+strings.ReplaceAll(sp.kw, " ", "_"))
	}
	if c.OnAlt != nil {
		kw := map[string]string{"inner": "JOIN", "left": "LEFT JOIN", "right": "RIGHT JOIN"}[c.Type]
		if v := run(c.joinSQL(kw, c.OnAlt), "ON conjuncts permuted / operands flipped"); v != "" {
			res.Violation = v
			return res
		}
	}
	return res
}

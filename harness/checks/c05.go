package checks

import (
	"fmt"
	"math"
	"strconv"
	"strings"

	"pgregory.net/rapid"
	"verifharness/sq"
	"verifharness/val"
)

// C05 - ORDER BY sorts, LIMIT/OFFSET return the exact window and never fail.

type OrderKey struct {
	Col  string `json:"col"`
	Desc bool   `json:"desc,omitempty"`
	Dir  string `json:"dir"` // "", "ASC", "DESC" as spelled
}

type C05Case struct {
	Doc      map[string]any    `json:"doc"`
	Env      Envelope          `json:"env,omitempty"`   // irrelevant options / table representation / repeated execution
	Cols     []string          `json:"cols,omitempty"`  // select list (empty = *)
	Alias    []string          `json:"alias,omitempty"` // output names of Cols ("" = its own name); may be fresh or a permutation of the selected columns' names
	Where    *sq.E             `json:"where,omitempty"`
	Keys     []OrderKey        `json:"keys,omitempty"`
	HasLimit bool              `json:"has_limit,omitempty"`
	Limit    int               `json:"limit,omitempty"`
	Offset   int               `json:"offset,omitempty"`
	Spelling string            `json:"spelling,omitempty"` // "limit" | "limit-offset" | "comma"
	Distinct bool              `json:"distinct,omitempty"`
	UnionWin bool              `json:"union_win,omitempty"` // also run (ordered window) UNION ALL (window of the reversed order): each arm is its own sequence
	Big      *BigKey           `json:"big,omitempty"`       // one key column handed over as native integers far beyond 2^53 (order-isomorphic to the small values in doc)
	Scale    *Scale            `json:"scale,omitempty"`     // large table: t is expanded from the rows of the document by this recipe (first sort key spread over many values) before anything is computed
	NulTails bool              `json:"nul_tails,omitempty"` // no WHERE: every second row gets a NUL byte appended to the text in its first sort key ("ab" < "ab\x00" < "ab\x00\x00" byte-wise)
	NullAt   []int             `json:"null_at,omitempty"`   // with Scale, a single sort key and no WHERE: the expanded rows at these positions hold NULL in the key column
	Stretch  bool              `json:"stretch,omitempty"`   // with Scale: LIMIT and OFFSET are stretched by the same factor as the table
	GoTypes  map[string]string `json:"go_types,omitempty"`  // numeric columns handed over as native Go values of that type // SELECT DISTINCT: the window applies to the de-duplicated sequence
}

func init() {
	Register(&Prop{
		ID:    "C05",
		Title: "ORDER BY sorts, LIMIT/OFFSET return the exact window and never fail",
		Rule: "[Dimensions added in rounds p-r of the seeded-defect evaluation: large tables in 6% of the cases, a quarter of them 1000-2600 rows; with a single key and no WHERE, NULL keys at up to three of the first eight rows under a short window; without WHERE, NUL bytes appended to every second text key; a sixth of the enveloped cases run after 1-3 failing statements (sorts that fail part-way among them).] " +
			"rapid draws a table (0-10 rows, ties frequent; about 3% of the cases expand it to 200-700 rows by a recipe, the first sort key spread over 3-700 values, LIMIT / OFFSET stretched along in half of them), a select list that is `*` or columns under their own, fresh or mutually swapped output names, 0-3 sort keys among the output columns with random directions (a single key may be " +
			"nullable), an optional WHERE, an optional DISTINCT, numeric columns also as native Go types (one key column sometimes as int64 / int / uint64 / uint beyond 2^53) and an optional LIMIT n [OFFSET m] in all three spellings with n,m in 0..len+3; oracles: the unordered " +
			"result equals the reference filter; the ordered result is a permutation of it whose adjacent pairs respect the key list " +
			"lexicographically with NULL keys last (single key); the limited result has length min(n, max(0,|S|-m)), its key tuples equal those of " +
			"S[m:m+n], it is a sub-multiset of S, and without ORDER BY it equals S[m:m+n] exactly; a third of the ordered windows also run as `(window) UNION ALL (window of the reversed order)` whose arms must be the windows of their own sequences; never an error. Non-trivial: >=2 rows not already " +
			"in order, or a window with m+n > |S| > m.",
		Assumptions: []string{
			"a third of the cases run inside an envelope that must not change the result: PostgresEscapingDialect / IdiomaticArrays on (the query uses neither double quotes nor brackets), Wrapped() with FROM root.<table>, tables handed over as []map[string]any, a second execution on the same input object, and the same query text run before on a different document",
			"tie order is not checked (an unstable sort is allowed)",
			"NULL keys only in single-key ORDER BY; keys of one scalar kind",
		},
		Gen: func(t *rapid.T) any {
			c := genC05(t).(*C05Case)
			c.Env = genEnvelope(t, "env")
			return c
		},
		New: func() any { return &C05Case{} },
		Check: func(c any) Result {
			r := checkC05(c.(*C05Case))
			r.Labels = append(r.Labels, c.(*C05Case).Env.Labels()...)
			return r
		},
		Quick:    3000,
		Thorough: 300000,
	})
}

func genC05(t *rapid.T) any {
	tb := genTable(t, TableSpec{MinCols: 2, MaxCols: 4, MinRows: 0, MaxRows: 10, Kinds: []string{"int", "num", "str"}, Nullable: true, MissingKeys: true, ForceKinds: []string{"int"}}, "t")
	c := &C05Case{Doc: map[string]any{"t": tb.Rows}}
	if rapid.IntRange(0, 2).Draw(t, "project") == 0 {
		k := rapid.IntRange(1, len(tb.Cols)).Draw(t, "ncols")
		for _, col := range tb.Cols[:k] {
			c.Cols = append(c.Cols, col.Name)
		}
	}
	avail := tb.Cols
	if len(c.Cols) > 0 {
		avail = tb.Cols[:len(c.Cols)]
		switch rapid.IntRange(0, 5).Draw(t, "aliasmode") {
		case 0: // fresh output names for some of the columns
			c.Alias = make([]string, len(c.Cols))
			for i := range c.Cols {
				if rapid.Bool().Draw(t, fmt.Sprintf("fresh%d", i)) {
					c.Alias[i] = fmt.Sprintf("o%d", i)
				}
			}
		case 1: // the selected columns' own names, handed round: the output column x is not the source column x
			if len(c.Cols) > 1 {
				pm := rapid.Permutation(seqInts(len(c.Cols))).Draw(t, "aliasperm")
				c.Alias = make([]string, len(c.Cols))
				for i := range c.Cols {
					if pm[i] != i {
						c.Alias[i] = c.Cols[pm[i]]
					}
				}
			}
		}
		if c.Alias != nil {
			// the sort keys are output columns: name, kind and nullability of the column behind each output name
			out := make([]Col, len(avail))
			for i, col := range avail {
				out[i] = col
				if c.Alias[i] != "" {
					out[i].Name = c.Alias[i]
				}
			}
			avail = out
		}
	}
	if rapid.IntRange(0, 2).Draw(t, "haswhere") == 0 {
		c.Where = genPred(t, tb, &PredSpec{Core: rapid.Bool().Draw(t, "wcore")}, 1, "w")
	}
	nk := rapid.IntRange(0, 3).Draw(t, "nkeys")
	if nk > len(avail) {
		nk = len(avail)
	}
	perm := rapid.Permutation(seqInts(len(avail))).Draw(t, "keyperm")
	for i := 0; i < nk; i++ {
		col := avail[perm[i]]
		if col.Nullable && nk > 1 {
			continue
		}
		dir := rapid.SampledFrom([]string{"", "ASC", "DESC", "DESC"}).Draw(t, fmt.Sprintf("dir%d", i))
		c.Keys = append(c.Keys, OrderKey{Col: col.Name, Dir: dir, Desc: dir == "DESC"})
	}
	if len(c.Keys) > 0 && rapid.IntRange(0, 5).Draw(t, "repeatkey") == 0 {
		// a column named twice in the key list, the second time with the other direction: the first occurrence
		// decides, the repetition only ever sees ties
		nullable := false
		for _, col := range avail {
			if col.Name == c.Keys[0].Col && col.Nullable {
				nullable = true
			}
		}
		if !nullable {
			k := c.Keys[rapid.IntRange(0, len(c.Keys)-1).Draw(t, "repeatkey.which")]
			r := OrderKey{Col: k.Col, Desc: !k.Desc, Dir: "DESC"}
			if k.Desc {
				r.Dir = rapid.SampledFrom([]string{"", "ASC"}).Draw(t, "repeatkey.dir")
			}
			c.Keys = append(c.Keys, r)
		}
	}
	if len(c.Keys) > 0 && rapid.IntRange(0, 5).Draw(t, "keywhere") == 0 {
		// a WHERE that names a sort key: equalities with constants below OR / NOT, next to other conjuncts
		// (the key is not constant in the surviving rows, however much the predicate looks like pinning it)
		src := c.Keys[0].Col
		for i, a := range c.Alias {
			if a == src {
				src = c.Cols[i]
				break
			}
		}
		if col := tb.Col(src); col != nil && !col.Nullable {
			eq := func(l string) *sq.E { return sq.Cmp("=", sq.Col(src), constFor(t, col, l)) }
			switch rapid.IntRange(0, 4).Draw(t, "keywhere.form") {
			case 0:
				c.Where = sq.Or(eq("kw.a"), eq("kw.b"))
			case 1:
				c.Where = sq.Not(sq.Par(eq("kw.a")))
			case 2:
				c.Where = sq.Or(eq("kw.a"), genPred(t, tb, &PredSpec{Core: true}, 1, "kw.o"))
			case 3:
				c.Where = sq.And(sq.Par(sq.Or(eq("kw.a"), eq("kw.b"))), genPred(t, tb, &PredSpec{Core: true}, 1, "kw.o"))
			default:
				c.Where = sq.And(eq("kw.a"), genPred(t, tb, &PredSpec{Core: true}, 1, "kw.o"))
			}
		}
	}
	c.Distinct = rapid.IntRange(0, 3).Draw(t, "distinct") == 0
	c.GoTypes = genGoTypes(t, tb.Cols, "gotypes")
	if c.Where == nil && c.Alias == nil && len(c.Keys) > 0 && rapid.IntRange(0, 4).Draw(t, "big") == 0 {
		// integers that float64 cannot tell apart: the engine receives base+v for the column's small
		// values v, the reference keeps working on v (same order, same equalities)
		for _, k := range c.Keys {
			col := tb.Col(k.Col)
			small := col != nil && col.Kind == "int"
			if small {
				for _, v := range col.Pool {
					if f, ok := v.(float64); !ok || math.Abs(f) > 1000 {
						small = false
					}
				}
			}
			if small {
				b := rapid.SampledFrom(bigBases).Draw(t, "bigbase")
				c.Big = &BigKey{Col: k.Col, Type: b.Type, Base: b.Base}
				delete(c.GoTypes, k.Col)
				break
			}
		}
	}
	c.UnionWin = rapid.IntRange(0, 2).Draw(t, "unionwin") == 0
	if rapid.IntRange(0, 3).Draw(t, "haslimit") != 0 {
		c.HasLimit = true
		n := len(tb.Rows)
		c.Limit = rapid.IntRange(0, n+3).Draw(t, "limit")
		if rapid.IntRange(0, 9).Draw(t, "hugelimit") == 0 {
			// "values beyond the row count" up to the largest the syntax admits
			c.Limit = rapid.SampledFrom([]int{math.MaxInt64, math.MaxInt64 - 1, 1 << 62, 1 << 32, 1<<31 - 1, 1000000}).Draw(t, "hugelimitval")
		}
		c.Spelling = rapid.SampledFrom([]string{"limit", "limit-offset", "comma", "limit-offset"}).Draw(t, "spelling")
		if c.Spelling != "limit" {
			c.Offset = rapid.IntRange(0, n+3).Draw(t, "offset")
			if rapid.IntRange(0, 14).Draw(t, "hugeoffset") == 0 {
				c.Offset = rapid.SampledFrom([]int{math.MaxInt64, 1 << 62, 1 << 32, 1000000}).Draw(t, "hugeoffsetval")
			}
		}
	}
	// scale: the whole sequence is ordered and the window exact whatever the size of the table
	if c.Big == nil && len(tb.Rows) > 0 {
		if sc := genScale(t, 9, "scale"); sc != nil {
			if len(c.Keys) > 0 {
				if kc := tb.Col(c.Keys[0].Col); kc != nil && (kc.Kind == "int" || kc.Kind == "num" || kc.Kind == "str") {
					var pool []any
					nk := rapid.SampledFrom([]int{3, 50, 200, 513, 700}).Draw(t, "scale.keys")
					for j := 0; j < nk; j++ {
						switch kc.Kind {
						case "str":
							pool = append(pool, strconv.Itoa(j))
						case "int":
							pool = append(pool, float64(j-nk/3))
						default:
							pool = append(pool, float64(j-nk/3)*0.25)
						}
					}
					sc.genKeys(t, kc.Name, pool, "scale.key")
				}
			}
			c.Scale = sc
			c.Stretch = rapid.Bool().Draw(t, "scale.stretch")
			c.NulTails = c.Where == nil && rapid.Bool().Draw(t, "scale.nultails")
			if len(c.Keys) == 1 && c.Where == nil && rapid.Bool().Draw(t, "scale.nullhead") {
				// NULL keys among the very first rows of a large table (they belong behind every other row)
				c.NullAt = rapid.SliceOfN(rapid.IntRange(0, 7), 1, 3).Draw(t, "scale.nullat")
				if rapid.Bool().Draw(t, "scale.nullhead.huge") {
					sc.Rows = rapid.IntRange(1024, 2600).Draw(t, "scale.nullhead.rows")
				}
				if !c.HasLimit || c.Limit == 0 || rapid.Bool().Draw(t, "scale.nullhead.window") {
					// a short window at the front of the ordered sequence
					c.HasLimit, c.Stretch = true, false
					c.Limit = rapid.IntRange(1, 9).Draw(t, "scale.nullhead.limit")
					if c.Spelling == "" {
						c.Spelling = "limit"
					}
					if c.Offset > 40 {
						c.Offset = rapid.IntRange(0, 6).Draw(t, "scale.nullhead.offset")
					}
				}
			}
		}
	}
	return c
}

func (c *C05Case) sql(order, limit bool) string {
	sel := "*"
	if len(c.Cols) > 0 {
		var its []string
		for i, col := range c.Cols {
			if i < len(c.Alias) && c.Alias[i] != "" {
				col += " AS " + c.Alias[i]
			}
			its = append(its, col)
		}
		sel = strings.Join(its, ", ")
	}
	s := "SELECT " + sel + " FROM t"
	if c.Distinct {
		s = "SELECT DISTINCT " + sel + " FROM t"
	}
	if c.Where != nil {
		s += " WHERE " + sq.Render(c.Where, nil)
	}
	if order && len(c.Keys) > 0 {
		var ks []string
		for _, k := range c.Keys {
			x := k.Col
			if k.Dir != "" {
				x += " " + k.Dir
			}
			ks = append(ks, x)
		}
		s += " ORDER BY " + strings.Join(ks, ", ")
	}
	if limit && c.HasLimit {
		switch c.Spelling {
		case "limit":
			s += fmt.Sprintf(" LIMIT %d", c.Limit)
		case "comma":
			s += fmt.Sprintf(" LIMIT %d, %d", c.Offset, c.Limit)
		default:
			s += fmt.Sprintf(" LIMIT %d OFFSET %d", c.Limit, c.Offset)
		}
	}
	return s
}

// keyCmp compares two rows under the key list; NULL (or missing) sorts after non-NULL in either
// direction (only reachable for single-key lists by construction).
func keyCmp(a, b map[string]any, keys []OrderKey) (int, error) {
	for _, k := range keys {
		x, y := a[k.Col], b[k.Col]
		switch {
		case x == nil && y == nil:
			continue
		case x == nil:
			return 1, nil
		case y == nil:
			return -1, nil
		}
		c, ok := sq.CompareScalars(x, y)
		if !ok {
			return 0, fmt.Errorf("keys of different kinds: %T vs %T", x, y)
		}
		if c == 0 {
			continue
		}
		if k.Desc {
			c = -c
		}
		return c, nil
	}
	return 0, nil
}

func keyTuple(r any, keys []OrderKey) []any {
	m, _ := r.(map[string]any)
	t := make([]any, len(keys))
	for i, k := range keys {
		t[i] = m[k.Col]
	}
	return t
}

func checkC05(c *C05Case) Result {
	res := Result{}
	if c.Scale != nil {
		cc := *c
		cc.Doc, cc.Scale = c.Scale.ExpandDoc(c.Doc, "t"), nil
		if len(c.NullAt) > 0 && len(c.Keys) == 1 && c.Where == nil {
			src := c.Keys[0].Col
			for i, a := range c.Alias {
				if a == src && i < len(c.Cols) {
					src = c.Cols[i]
					break
				}
			}
			big, _ := cc.Doc["t"].([]any)
			for _, at := range c.NullAt {
				if at < len(big) {
					if rm, ok := big[at].(map[string]any); ok {
						rm[src] = nil
					}
				}
			}
			cc.NullAt = nil
		}
		if base, _ := c.Doc["t"].([]any); c.Stretch && len(base) > 0 {
			f := c.Scale.Rows / (len(base) + 3)
			if cc.Limit <= len(base)+3 {
				cc.Limit *= f
			}
			if cc.Offset <= len(base)+3 {
				cc.Offset *= f
			}
		}
		res = checkC05(&cc)
		res.Labels = append(res.Labels, "large-table")
		return res
	}
	if c.NulTails && c.Where == nil && len(c.Keys) > 0 {
		cc := *c
		cc.NulTails = false
		src := c.Keys[0].Col
		for i, a := range c.Alias {
			if a == src && i < len(c.Cols) {
				src = c.Cols[i]
				break
			}
		}
		cc.Doc = val.CopyMap(c.Doc)
		rows, _ := cc.Doc["t"].([]any)
		for i, r := range rows {
			if rm, ok := r.(map[string]any); ok {
				if s, ok := rm[src].(string); ok && i%2 == 1 {
					rm[src] = s + strings.Repeat("\x00", 1+i%4/3)
				}
			}
		}
		res = checkC05(&cc)
		res.Labels = append(res.Labels, "nul-tails")
		return res
	}
	rows, _ := c.Doc["t"].([]any)
	// reference for the unordered result
	var items []SelItem
	for i, col := range c.Cols {
		it := SelItem{Expr: sq.Col(col)}
		if i < len(c.Alias) && c.Alias[i] != "" {
			it.Alias = c.Alias[i]
			if it.Alias[0] == 'o' {
				res.Labels = append(res.Labels, "alias:fresh")
			} else {
				res.Labels = append(res.Labels, "alias:swapped")
			}
		}
		items = append(items, it)
	}
	star := 0
	if len(c.Cols) == 0 {
		star = 1
	}
	wantU, err := refProject(rows, items, star, c.Where, &sq.Env{Doc: c.Doc})
	if err != nil {
		discardOrHarness(&res, err)
		return res
	}
	if c.Distinct {
		wantU = dedupRows(wantU)
		res.Labels = append(res.Labels, "distinct")
	}
	res.Labels = append(res.Labels, fmt.Sprintf("keys:%d", len(c.Keys)))
	for _, k := range c.Keys {
		if k.Desc {
			res.Labels = append(res.Labels, "desc")
		} else {
			res.Labels = append(res.Labels, "asc")
		}
	}
	if c.HasLimit {
		res.Labels = append(res.Labels, "spelling:"+c.Spelling)
	}
	if c.Big != nil {
		res.Labels = append(res.Labels, "key-beyond-2^53:"+c.Big.Type)
	}
	res.Labels = dedup(res.Labels)

	u := c.exec(c.sql(false, false))
	res.Execs++
	if !u.OK() || diffRows(u.Rows, wantU) != "" {
		res.Violation = fmt.Sprintf("unordered result wrong: %s\n  expected %s\n  got %s", c.sql(false, false), val.JSON(wantU), u.Describe())
		return res
	}
	s := u
	outOfOrder := false
	if len(c.Keys) > 0 {
		s = c.exec(c.sql(true, false))
		res.Execs++
		if !s.OK() {
			res.Violation = fmt.Sprintf("%s\n  got %s", c.sql(true, false), s.Describe())
			return res
		}
		if !val.MultisetEqual(s.Rows, u.Rows) {
			res.Violation = fmt.Sprintf("ordered result is not a permutation of the unordered one: %s\n  unordered %s\n  ordered   %s", c.sql(true, false), val.JSON(u.Rows), val.JSON(s.Rows))
			return res
		}
		for i := 0; i+1 < len(s.Rows); i++ {
			a, _ := s.Rows[i].(map[string]any)
			b, _ := s.Rows[i+1].(map[string]any)
			cmp, err := keyCmp(a, b, c.Keys)
			if err != nil {
				res.Harness = err.Error()
				return res
			}
			if cmp > 0 {
				res.Violation = fmt.Sprintf("%s\n  rows %d and %d are out of order: %s then %s\n  full result %s", c.sql(true, false), i, i+1, val.JSON(a), val.JSON(b), val.JSON(s.Rows))
				return res
			}
		}
		for i := 0; i+1 < len(u.Rows); i++ {
			a, _ := u.Rows[i].(map[string]any)
			b, _ := u.Rows[i+1].(map[string]any)
			if cmp, _ := keyCmp(a, b, c.Keys); cmp > 0 {
				outOfOrder = true
			}
		}
		hasNull := false
		for _, r := range u.Rows {
			for _, v := range keyTuple(r, c.Keys) {
				if v == nil {
					hasNull = true
				}
			}
		}
		if hasNull {
			res.Labels = append(res.Labels, "null-key")
		}
	}
	straddle := false
	if c.HasLimit {
		l := c.exec(c.sql(true, true))
		res.Execs++
		if !l.OK() {
			res.Violation = fmt.Sprintf("%s (over %d rows)\n  got %s", c.sql(true, true), len(s.Rows), l.Describe())
			return res
		}
		n, m := c.Limit, c.Offset
		// all arithmetic relative to the sequence length: n and m may be as large as MaxInt64
		total := len(s.Rows)
		lo := minInt(m, total)
		hi := total
		if n < total-lo {
			hi = lo + n
		}
		window := s.Rows[lo:hi]
		straddle = m < total && n > total-m
		switch {
		case m >= len(s.Rows):
			res.Labels = append(res.Labels, "window:offset-beyond")
		case straddle:
			res.Labels = append(res.Labels, "window:straddle")
		case n == 0:
			res.Labels = append(res.Labels, "window:zero")
		case m <= total && n == total-m:
			res.Labels = append(res.Labels, "window:exact-end")
		default:
			res.Labels = append(res.Labels, "window:inside")
		}
		if len(l.Rows) != len(window) {
			res.Violation = fmt.Sprintf("%s over a sequence of %d rows returned %d rows, expected %d\n  got %s", c.sql(true, true), len(s.Rows), len(l.Rows), len(window), val.JSON(l.Rows))
			return res
		}
		if len(c.Keys) == 0 {
			if !seqEqual(l.Rows, window) {
				res.Violation = fmt.Sprintf("%s\n  expected exactly positions %d..%d of the sequence: %s\n  got %s", c.sql(true, true), lo, hi-1, val.JSON(window), val.JSON(l.Rows))
				return res
			}
		} else {
			for i := range window {
				if !val.Equal(keyTuple(l.Rows[i], c.Keys), keyTuple(window[i], c.Keys)) {
					res.Violation = fmt.Sprintf("%s\n  key tuple at position %d is %s, expected %s\n  window %s\n  got    %s", c.sql(true, true), i, val.JSON(keyTuple(l.Rows[i], c.Keys)), val.JSON(keyTuple(window[i], c.Keys)), val.JSON(window), val.JSON(l.Rows))
					return res
				}
			}
			if !val.SubMultiset(l.Rows, s.Rows) {
				res.Violation = fmt.Sprintf("%s returned rows that are not part of the sequence\n  sequence %s\n  got      %s", c.sql(true, true), val.JSON(s.Rows), val.JSON(l.Rows))
				return res
			}
		}
	}
	res.NonTrivial = (len(c.Keys) > 0 && len(u.Rows) >= 2 && outOfOrder) || straddle
	if c.UnionWin && c.HasLimit && len(c.Keys) > 0 {
		// two windows of the same table in one statement: the first arm in the requested order, the second in
		// the reversed one; each arm is the window of its own sequence (compared by key tuples, ties are free)
		rev := *c
		rev.Keys = nil
		for _, k := range c.Keys {
			r := OrderKey{Col: k.Col, Desc: !k.Desc, Dir: "DESC"}
			if k.Desc {
				r.Dir = []string{"", "ASC"}[len(c.Keys)%2]
			}
			rev.Keys = append(rev.Keys, r)
		}
		s2 := c.exec(rev.sql(true, false))
		usql := "(" + c.sql(true, true) + ") UNION ALL (" + rev.sql(true, true) + ")"
		un := c.exec(usql)
		res.Execs += 2
		if !s2.OK() || !un.OK() {
			res.Violation = fmt.Sprintf("%s\n  got %s\n  (reversed sequence: %s)", usql, un.Describe(), s2.Describe())
			return res
		}
		win := func(seq []any) []any {
			lo := minInt(c.Offset, len(seq))
			hi := len(seq)
			if c.Limit < len(seq)-lo {
				hi = lo + c.Limit
			}
			return seq[lo:hi]
		}
		want := append(append([]any{}, win(s.Rows)...), win(s2.Rows)...)
		ok := len(un.Rows) == len(want)
		for i := 0; ok && i < len(want); i++ {
			ok = val.Equal(keyTuple(un.Rows[i], c.Keys), keyTuple(want[i], c.Keys))
		}
		if !ok {
			res.Violation = fmt.Sprintf("%s\n  the arms are not the windows of their own sequences\n  expected key tuples of %s\n  got %s", usql, val.JSON(want), val.JSON(un.Rows))
			return res
		}
		res.Labels = append(res.Labels, "union-of-two-windows")
	}
	if c.UnionWin && c.HasLimit {
		// the window of a longer sequence made of the same rows: `<unordered query> UNION ALL <unordered query>`
		// is the unordered result twice in a row; LIMIT / OFFSET on the statement cut exactly positions m..m+n-1
		rest := ""
		switch c.Spelling {
		case "limit":
			rest = fmt.Sprintf(" LIMIT %d", c.Limit)
		case "comma":
			rest = fmt.Sprintf(" LIMIT %d, %d", c.Offset, c.Limit)
		default:
			rest = fmt.Sprintf(" LIMIT %d OFFSET %d", c.Limit, c.Offset)
		}
		for _, n := range []int{c.Limit, len(u.Rows) + 1} {
			// the drawn bound, and the bound one past the end of the first arm
			r := rest
			if n != c.Limit {
				r = fmt.Sprintf(" LIMIT %d", n)
				if c.Spelling != "limit" {
					continue
				}
			}
			usql := c.sql(false, false) + " UNION ALL " + c.sql(false, false) + r
			un := c.exec(usql)
			res.Execs++
			seq := append(append([]any{}, u.Rows...), u.Rows...)
			off := c.Offset
			if c.Spelling == "limit" {
				off = 0
			}
			lo := minInt(off, len(seq))
			hi := len(seq)
			if n < len(seq)-lo {
				hi = lo + n
			}
			if !un.OK() || !seqEqual(un.Rows, seq[lo:hi]) {
				res.Violation = fmt.Sprintf("%s\n  expected exactly positions %d..%d of the %d-row sequence: %s\n  got %s", usql, lo, hi-1, len(seq), val.JSON(seq[lo:hi]), un.Describe())
				return res
			}
		}
		res.Labels = append(res.Labels, "window-of-a-union")
	}
	return res
}

// BigKey: column Col reaches the engine as Base+v of Go type Type, v being the small integer held in the case's doc.
type BigKey struct {
	Col  string `json:"col"`
	Type string `json:"type"` // int64 | int | uint64 | uint
	Base string `json:"base"` // decimal
}

var bigBases = []BigKey{
	{Type: "int64", Base: "9007199254740992"}, {Type: "int64", Base: "4611686018427387904"}, {Type: "int64", Base: "-4611686018427387904"},
	{Type: "int64", Base: "9223372036854770000"}, {Type: "int64", Base: "-9223372036854770000"}, {Type: "int", Base: "9007199254740992"}, {Type: "int", Base: "-9007199254740993"},
	{Type: "uint64", Base: "9007199254740992"}, {Type: "uint64", Base: "9223372036854775808"}, {Type: "uint64", Base: "18446744073709550000"}, {Type: "uint", Base: "13835058055282163712"},
}

func (b *BigKey) up(v float64) any {
	d := int64(v)
	switch b.Type {
	case "uint64", "uint":
		base, _ := strconv.ParseUint(b.Base, 10, 64)
		x := base + uint64(d) // two's complement: adds negative d correctly
		if b.Type == "uint" {
			return uint(x)
		}
		return x
	}
	base, _ := strconv.ParseInt(b.Base, 10, 64)
	if b.Type == "int" {
		return int(base + d)
	}
	return base + d
}

// down maps a value returned by the engine back to the small integer; anything that is not the
// native type handed in is returned unchanged (and will not match the reference).
func (b *BigKey) down(x any) any {
	switch b.Type {
	case "uint64", "uint":
		base, _ := strconv.ParseUint(b.Base, 10, 64)
		var u uint64
		switch n := x.(type) {
		case uint64:
			u = n
		case uint:
			u = uint64(n)
		default:
			return x
		}
		return float64(int64(u - base))
	}
	base, _ := strconv.ParseInt(b.Base, 10, 64)
	switch n := x.(type) {
	case int64:
		return float64(n - base)
	case int:
		return float64(int64(n) - base)
	}
	return x
}

// exec runs one statement of the case on a fresh typed copy of the document.
func (c *C05Case) exec(sql string) Out {
	doc := typedDoc(c.Doc, map[string]map[string]string{"t": c.GoTypes})
	if c.Big == nil {
		return c.Env.Exec(doc, sql)
	}
	rows, _ := doc["t"].([]any)
	for _, r := range rows {
		if m, ok := r.(map[string]any); ok {
			if f, ok := m[c.Big.Col].(float64); ok {
				m[c.Big.Col] = c.Big.up(f)
			}
		}
	}
	out := c.Env.Exec(doc, sql)
	if !out.OK() {
		return out
	}
	back := make([]any, len(out.Raw))
	for i, r := range out.Raw {
		m, ok := r.(map[string]any)
		if !ok {
			back[i] = r
			continue
		}
		cp := make(map[string]any, len(m))
		for k, v := range m {
			if k == c.Big.Col && v != nil {
				v = c.Big.down(v)
			}
			cp[k] = v
		}
		back[i] = cp
	}
	out.Rows = val.NormRows(back)
	return out
}

package checks

import (
	"fmt"
	"math"
	"strconv"
	"strings"

	"pgregory.net/rapid"
	"verifharness/sq"
	"verifharness/val"
)

// Safe identifiers: not SQL keywords in the library's dialect (checked by TestNamesParse), distinct
// first letters spread over the alphabet so that "names on the two sides sort differently" happens.
var namePool = []string{"aa", "bq", "cx", "dz", "ee", "fy", "gk", "hh", "jj", "kv", "lm", "nn", "pp", "qr", "rs", "tt", "uu", "vw", "xy", "zz"}

// Col describes one typed column of a generated table.
type Col struct {
	Name     string `json:"name"`
	Kind     string `json:"kind"` // int | num | str | bool | obj
	Nullable bool   `json:"nullable,omitempty"`
	NonZero  bool   `json:"nonzero,omitempty"`
	Pool     []any  `json:"-"`
	Sub      []Col  `json:"sub,omitempty"` // for obj
}

type Table struct {
	Cols []Col
	Rows []any
}

func (t *Table) Col(name string) *Col {
	for i := range t.Cols {
		if t.Cols[i].Name == name {
			return &t.Cols[i]
		}
	}
	return nil
}

func (t *Table) ByKind(kinds ...string) []*Col {
	var out []*Col
	for i := range t.Cols {
		for _, k := range kinds {
			if t.Cols[i].Kind == k {
				out = append(out, &t.Cols[i])
			}
		}
	}
	return out
}

var smallInts = []float64{-3, -2, -1, 0, 1, 2, 3, 4, 5, 6, 7, 10, 12, 100, 255, 256, 1024}
var bigInts = []float64{65535, 1 << 31, 1 << 40, -(1 << 31)}
var fracs = []float64{-2.5, -0.75, -0.5, 0.25, 0.5, 1.5, 2.25, 2.5, 3.75, 9.5, 10.5, 99.75, 1000000.5}

// plain strings (ASCII letters/digits/space, mixed case, with shared prefixes and numeric-looking ones)
var plainStrs = []string{"", "a", "b", "ab", "abc", "B", "Ab", "aB", "b a", "10", "9", "1", "1.0", "01", "1e0", "007", "7", "7.0", "x", "xy", "xyz", "Zed", "zed", "m-n", "m", "日本", "日", "→x"}

// LIKE-hostile strings: regexp metacharacters, wildcards as data, newline
var hostileStrs = []string{"(", "a(b", "a.b", "axb", "a*b", "a+", "[x]", "^a", "a$", "a|b", "{1}", "a?b", "50%", "a_b", "a%b", "a\nb", "A.B", "it's", "q?", "\\d", "a\\b", "c:\\x"}

func genIntVal(t *rapid.T, label string) float64 {
	if rapid.IntRange(0, 19).Draw(t, label+".big") == 0 {
		return rapid.SampledFrom(bigInts).Draw(t, label)
	}
	return rapid.SampledFrom(smallInts).Draw(t, label)
}

func genNumVal(t *rapid.T, label string) float64 {
	if rapid.IntRange(0, 2).Draw(t, label+".frac") == 0 {
		return rapid.SampledFrom(fracs).Draw(t, label)
	}
	return genIntVal(t, label)
}

// genPool draws the value pool of a column: small, so duplicates, ties and matches are frequent.
func genPool(t *rapid.T, kind string, hostile bool, nonZero bool, label string) []any {
	n := rapid.IntRange(1, 5).Draw(t, label+".poolsize")
	pool := make([]any, 0, n)
	for i := 0; i < n; i++ {
		l := fmt.Sprintf("%s.pool%d", label, i)
		switch kind {
		case "int":
			v := genIntVal(t, l)
			if nonZero && v == 0 {
				v = 8
			}
			pool = append(pool, v)
		case "num":
			v := genNumVal(t, l)
			if nonZero && v == 0 {
				v = 0.5
			}
			pool = append(pool, v)
		case "str":
			if hostile && rapid.IntRange(0, 2).Draw(t, l+".h") == 0 {
				pool = append(pool, rapid.SampledFrom(hostileStrs).Draw(t, l))
			} else {
				pool = append(pool, rapid.SampledFrom(plainStrs).Draw(t, l))
			}
		case "bool":
			pool = append(pool, rapid.Bool().Draw(t, l))
		}
	}
	if kind == "str" {
		// texts that denote the same number in different spellings are different strings: when one is in
		// the pool, its twin often is too
		twins := map[string][]string{"1": {"1.0", "01", "1e0"}, "1.0": {"1"}, "01": {"1"}, "1e0": {"1", "1.0"}, "7": {"007", "7.0"}, "007": {"7"}, "7.0": {"7", "007"}, "10": {"1e1"}}
		for _, v := range pool {
			if tw, ok := twins[v.(string)]; ok && rapid.Bool().Draw(t, label+".twin") {
				pool = append(pool, rapid.SampledFrom(tw).Draw(t, label+".twinval"))
				break
			}
		}
	}
	return pool
}

// TableSpec constrains genTable.
type TableSpec struct {
	MinCols, MaxCols int
	MinRows, MaxRows int
	Kinds            []string // allowed kinds
	Nullable         bool     // allow nullable columns
	Hostile          bool     // allow LIKE-hostile strings
	Names            []string // names to draw from (default namePool)
	ForceKinds       []string // first columns get exactly these kinds
	MissingKeys      bool     // nullable columns may be absent from a row instead of holding null
}

func genNames(t *rapid.T, n int, pool []string, label string) []string {
	if pool == nil {
		pool = namePool
	}
	perm := rapid.Permutation(pool).Draw(t, label)
	return append([]string{}, perm[:n]...)
}

func genTable(t *rapid.T, sp TableSpec, label string) *Table {
	if sp.Kinds == nil {
		sp.Kinds = []string{"int", "num", "str", "bool"}
	}
	nc := rapid.IntRange(sp.MinCols, sp.MaxCols).Draw(t, label+".ncols")
	if nc < len(sp.ForceKinds) {
		nc = len(sp.ForceKinds)
	}
	names := genNames(t, nc, sp.Names, label+".names")
	tb := &Table{}
	for i := 0; i < nc; i++ {
		l := fmt.Sprintf("%s.col%d", label, i)
		var kind string
		if i < len(sp.ForceKinds) {
			kind = sp.ForceKinds[i]
		} else {
			kind = rapid.SampledFrom(sp.Kinds).Draw(t, l+".kind")
		}
		c := Col{Name: names[i], Kind: kind}
		if sp.Nullable && i >= len(sp.ForceKinds) && rapid.IntRange(0, 3).Draw(t, l+".nullable") == 0 {
			c.Nullable = true
		}
		c.Pool = genPool(t, kind, sp.Hostile, false, l)
		tb.Cols = append(tb.Cols, c)
	}
	nr := rapid.IntRange(sp.MinRows, sp.MaxRows).Draw(t, label+".nrows")
	if sp.MaxRows >= 8 {
		nr = genRowCount(t, sp.MinRows, sp.MaxRows, label+".nrows")
	}
	for r := 0; r < nr; r++ {
		row := map[string]any{}
		for ci := range tb.Cols {
			c := &tb.Cols[ci]
			l := fmt.Sprintf("%s.r%d.%s", label, r, c.Name)
			if c.Nullable && rapid.IntRange(0, 3).Draw(t, l+".null") == 0 {
				if sp.MissingKeys && rapid.Bool().Draw(t, l+".missing") {
					continue
				}
				row[c.Name] = nil
				continue
			}
			row[c.Name] = rapid.SampledFrom(c.Pool).Draw(t, l)
		}
		tb.Rows = append(tb.Rows, row)
	}
	if tb.Rows == nil {
		tb.Rows = []any{}
	}
	return tb
}

// constFor draws a constant comparable with column c: mostly from the column's own pool (so hits
// and boundary cases occur), sometimes a fresh value of the same kind.
func constFor(t *rapid.T, c *Col, label string) *sq.E {
	if len(c.Pool) > 0 && rapid.IntRange(0, 3).Draw(t, label+".own") != 0 {
		return lit(rapid.SampledFrom(c.Pool).Draw(t, label))
	}
	switch c.Kind {
	case "int":
		// an integer column is also compared with fractional constants (numeric order on numbers)
		if rapid.IntRange(0, 2).Draw(t, label+".fracconst") == 0 {
			return sq.Num(rapid.SampledFrom(fracs).Draw(t, label))
		}
		return sq.Num(genIntVal(t, label))
	case "num":
		return sq.Num(genNumVal(t, label))
	case "str":
		return sq.Str(rapid.SampledFrom(plainStrs).Draw(t, label))
	case "bool":
		return sq.Bool(rapid.Bool().Draw(t, label))
	}
	panic("constFor: kind " + c.Kind)
}

func lit(v any) *sq.E {
	switch x := v.(type) {
	case float64:
		return sq.Num(x)
	case string:
		return sq.Str(x)
	case bool:
		return sq.Bool(x)
	case nil:
		return sq.Null()
	}
	panic(fmt.Sprintf("lit: %T", v))
}

var cmpOps = []string{"=", "!=", "<>", "<", "<=", ">", ">="}

func sameOrderKind(a, b *Col) bool {
	na := a.Kind == "int" || a.Kind == "num"
	nb := b.Kind == "int" || b.Kind == "num"
	if na && nb {
		return true
	}
	return a.Kind == "str" && b.Kind == "str"
}

// PredSpec constrains genPred.
type PredSpec struct {
	Depth     int
	SubTable  string // key of a flat table in the same document usable for IN-subqueries ("" = none)
	SubCols   []Col
	NoLike    bool
	NoBetween bool
	NoIn      bool
	Prefix    string // column-path prefix (e.g. "x." for aliased sources)
	Core      bool   // conservative subset: comparisons with constants, AND/OR/NOT, IS NULL
}

func colRef(ps *PredSpec, c *Col) *sq.E { return sq.Col(ps.Prefix + c.Name) }

// likePattern builds a LIKE pattern from fragments of an existing value plus wildcards,
// metacharacters and case flips (no backslash: MySQL treats it as an escape, the property says
// "literal", so it is left out as unspecified).
func likePattern(t *rapid.T, c *Col, label string) string {
	base := ""
	if len(c.Pool) > 0 {
		base, _ = rapid.SampledFrom(c.Pool).Draw(t, label+".base").(string)
	}
	r := []rune(base)
	var sb strings.Builder
	mode := rapid.SampledFrom([]int{0, 1, 2, 3, 4, 5, 6, 7, 7, 7, 8, 8, 9, 9, 10, 10, 10}).Draw(t, label+".mode")
	switch mode {
	case 7: // prefix%suffix taken from one value; the two parts may overlap in it (then only longer values match)
		i := rapid.IntRange(0, len(r)).Draw(t, label+".i")
		j := rapid.IntRange(0, len(r)).Draw(t, label+".j")
		sb.WriteString(string(r[:j]) + "%" + string(r[i:]))
	case 10: // head%mid%tail cut out of one value so that mid shares characters with the tail or with the head: the
		// value itself does not match (it is too short to hold the three one after the other), longer values may
		if len(r) >= 2 {
			k := rapid.IntRange(1, len(r)).Draw(t, label+".k") // mid ends here (exclusive)
			j := rapid.IntRange(0, k-1).Draw(t, label+".j")    // mid starts here
			if rapid.Bool().Draw(t, label+".withtail") {
				i := rapid.IntRange(0, k-1).Draw(t, label+".i") // tail starts before mid ends
				h := rapid.IntRange(0, j).Draw(t, label+".h")
				sb.WriteString(string(r[:h]) + "%" + string(r[j:k]) + "%" + string(r[i:]))
			} else {
				h := rapid.IntRange(j+1, len(r)).Draw(t, label+".h") // head ends after mid starts
				i := rapid.IntRange(k, len(r)).Draw(t, label+".i")
				sb.WriteString(string(r[:h]) + "%" + string(r[j:k]) + "%" + string(r[i:]))
			}
		} else {
			sb.WriteString(base + "%" + base + "%" + base)
		}
	case 9: // two to four arbitrary fragments of one value with % between them (and maybe around them): the fragments
		// may overlap in the value or come in another order, so that the value itself matches only if the
		// fragments can be placed one after the other without sharing characters
		n := rapid.IntRange(2, 4).Draw(t, label+".nseg")
		if rapid.Bool().Draw(t, label+".lead") {
			sb.WriteString("%")
		}
		for k := 0; k < n; k++ {
			if k > 0 {
				sb.WriteString("%")
			}
			i := rapid.IntRange(0, len(r)).Draw(t, fmt.Sprintf("%s.f%di", label, k))
			j := rapid.IntRange(i, minInt(len(r), i+2)).Draw(t, fmt.Sprintf("%s.f%dj", label, k))
			sb.WriteString(string(r[i:j]))
		}
		if rapid.Bool().Draw(t, label+".trail") {
			sb.WriteString("%")
		}
	case 8: // several wildcards between fragments of the value
		for i, ch := range r {
			sb.WriteRune(ch)
			if rapid.IntRange(0, 2).Draw(t, fmt.Sprintf("%s.w%d", label, i)) == 0 {
				sb.WriteString(rapid.SampledFrom([]string{"%", "%", "_", "%%", "%_"}).Draw(t, fmt.Sprintf("%s.wc%d", label, i)))
			}
		}
	case 0: // exact (maybe case-flipped)
		sb.WriteString(base)
	case 1: // prefix%
		k := rapid.IntRange(0, len(r)).Draw(t, label+".k")
		sb.WriteString(string(r[:k]) + "%")
	case 2: // %suffix
		k := rapid.IntRange(0, len(r)).Draw(t, label+".k")
		sb.WriteString("%" + string(r[k:]))
	case 3: // replace some characters by _
		for i, ch := range r {
			if rapid.IntRange(0, 2).Draw(t, fmt.Sprintf("%s.u%d", label, i)) == 0 {
				sb.WriteRune('_')
			} else {
				sb.WriteRune(ch)
			}
		}
	case 4: // %infix%
		if len(r) > 0 {
			i := rapid.IntRange(0, len(r)-1).Draw(t, label+".i")
			j := rapid.IntRange(i, len(r)).Draw(t, label+".j")
			sb.WriteString("%" + string(r[i:j]) + "%")
		} else {
			sb.WriteString("%")
		}
	case 5: // free mix over a small alphabet with metacharacters
		alpha := []string{"a", "b", "A", "x", "%", "_", ".", "(", "*", "+", "?", "[", "]", "^", "$", "|", "{", ")", " "}
		n := rapid.IntRange(0, 4).Draw(t, label+".n")
		for i := 0; i < n; i++ {
			sb.WriteString(rapid.SampledFrom(alpha).Draw(t, fmt.Sprintf("%s.f%d", label, i)))
		}
	case 6: // metacharacter literal pattern taken from the hostile list
		sb.WriteString(rapid.SampledFrom(hostileStrs).Draw(t, label+".h"))
	}
	p := sb.String()
	// a backslash is an ordinary character of a pattern when an ordinary character follows it; in front of a
	// wildcard, of another backslash or at the end it may be read as an escape (left open): such patterns are
	// not generated
	for i := 0; i < len(p); i++ {
		if p[i] == '\\' && (i+1 == len(p) || strings.ContainsRune("%_\\", rune(p[i+1]))) {
			p = strings.ReplaceAll(p, "\\", "")
			break
		}
	}
	if rapid.IntRange(0, 3).Draw(t, label+".flip") == 0 {
		if rapid.Bool().Draw(t, label+".up") {
			p = strings.ToUpper(p)
		} else {
			p = strings.ToLower(p)
		}
	}
	return p
}

func genAtom(t *rapid.T, tb *Table, ps *PredSpec, label string) *sq.E {
	// choose a column
	c := &tb.Cols[rapid.IntRange(0, len(tb.Cols)-1).Draw(t, label+".col")]
	if c.Nullable {
		op := "null"
		if rapid.Bool().Draw(t, label+".nn") {
			op = "notnull"
		}
		return sq.Is(op, colRef(ps, c))
	}
	switch c.Kind {
	case "bool":
		switch rapid.IntRange(0, 5).Draw(t, label+".boolform") {
		case 0:
			return sq.Is("true", colRef(ps, c))
		case 1:
			return sq.Is("false", colRef(ps, c))
		case 2:
			return sq.Is("nottrue", colRef(ps, c))
		case 3:
			return sq.Is("notfalse", colRef(ps, c))
		case 4:
			return sq.Cmp("=", colRef(ps, c), sq.Bool(rapid.Bool().Draw(t, label+".b")))
		default:
			return sq.Cmp("!=", colRef(ps, c), sq.Bool(rapid.Bool().Draw(t, label+".b")))
		}
	}
	forms := []string{"cmpc", "cmpc", "ccmp", "colcol"}
	if !ps.Core {
		if !ps.NoIn {
			forms = append(forms, "in", "notin")
			if ps.SubTable != "" {
				forms = append(forms, "insub")
			}
		}
		if !ps.NoBetween {
			forms = append(forms, "btw", "btw")
		}
		if c.Kind == "str" && !ps.NoLike {
			forms = append(forms, "like", "like", "like")
		}
	}
	switch rapid.SampledFrom(forms).Draw(t, label+".form") {
	case "cmpc":
		return sq.Cmp(rapid.SampledFrom(cmpOps).Draw(t, label+".op"), colRef(ps, c), constFor(t, c, label+".c"))
	case "ccmp":
		return sq.Cmp(rapid.SampledFrom(cmpOps).Draw(t, label+".op"), constFor(t, c, label+".c"), colRef(ps, c))
	case "colcol":
		var cands []*Col
		for i := range tb.Cols {
			o := &tb.Cols[i]
			if !o.Nullable && sameOrderKind(c, o) {
				cands = append(cands, o)
			}
		}
		o := cands[rapid.IntRange(0, len(cands)-1).Draw(t, label+".other")]
		return sq.Cmp(rapid.SampledFrom(cmpOps).Draw(t, label+".op"), colRef(ps, c), colRef(ps, o))
	case "in", "notin":
		n := rapid.IntRange(1, 4).Draw(t, label+".n")
		list := make([]*sq.E, n)
		for i := range list {
			list[i] = constFor(t, c, fmt.Sprintf("%s.in%d", label, i))
		}
		if rapid.IntRange(0, 7).Draw(t, label+".long") == 0 {
			// a long list (30-120 members): a few members as above at drawn places, the rest a run of numbers
			// (negative ones, zero and fractions among them, not in ascending order) / strings computed from a start,
			// a multiplier and a step - membership in a long list is membership all the same
			m := rapid.IntRange(30, 120).Draw(t, label+".longn")
			start := rapid.IntRange(-60, 3).Draw(t, label+".start")
			mul := rapid.SampledFrom([]int{1, 7, 11, 13, 29, -1}).Draw(t, label+".mul")
			long := make([]*sq.E, m)
			for i := range long {
				k := ((i*mul)%m + m) % m
				switch c.Kind {
				case "str":
					long[i] = sq.Str(rapid.SampledFrom([]string{"w", "", "A", "zed"}).Draw(t, label+".pfx") + strconv.Itoa(start+k))
				case "num":
					long[i] = sq.Num(float64(start+k) + []float64{0, 0, 0.25, 0.5, 0}[i%5])
				default:
					long[i] = sq.Num(float64(start + k))
				}
			}
			for i, e := range list {
				long[rapid.IntRange(0, m-1).Draw(t, fmt.Sprintf("%s.at%d", label, i))] = e
			}
			list = long
		}
		return sq.In(rapid.SampledFrom([]bool{false, true}).Draw(t, label+".not"), colRef(ps, c), list...)
	case "insub":
		var cands []Col
		for _, sc := range ps.SubCols {
			if !sc.Nullable && sameOrderKind(c, &sc) {
				cands = append(cands, sc)
			}
		}
		if len(cands) == 0 {
			return sq.Cmp("=", colRef(ps, c), constFor(t, c, label+".c"))
		}
		sc := cands[rapid.IntRange(0, len(cands)-1).Draw(t, label+".subcol")]
		var where *sq.E
		if rapid.Bool().Draw(t, label+".subwhere") {
			where = sq.Cmp(rapid.SampledFrom(cmpOps).Draw(t, label+".subop"), sq.Col(sc.Name), constFor(t, &sc, label+".subc"))
		}
		return sq.InSub(colRef(ps, c), ps.SubTable, sc.Name, where)
	case "btw":
		return sq.Between(rapid.IntRange(0, 2).Draw(t, label+".not") == 0, colRef(ps, c), constFor(t, c, label+".lo"), constFor(t, c, label+".hi"))
	case "like":
		return sq.Like(rapid.IntRange(0, 2).Draw(t, label+".not") == 0, colRef(ps, c), likePattern(t, c, label+".pat"))
	}
	panic("genAtom")
}

// genPred draws a predicate tree of at most ps.Depth connective levels.
func genPred(t *rapid.T, tb *Table, ps *PredSpec, depth int, label string) *sq.E {
	if depth <= 0 || rapid.IntRange(0, 2).Draw(t, label+".leaf") == 0 {
		return genAtom(t, tb, ps, label)
	}
	switch rapid.IntRange(0, 3).Draw(t, label+".conn") {
	case 0:
		return sq.And(genPred(t, tb, ps, depth-1, label+"L"), genPred(t, tb, ps, depth-1, label+"R"))
	case 1:
		return sq.Or(genPred(t, tb, ps, depth-1, label+"L"), genPred(t, tb, ps, depth-1, label+"R"))
	case 2:
		return sq.Not(genPred(t, tb, ps, depth-1, label+"N"))
	default:
		return sq.Par(genPred(t, tb, ps, depth-1, label+"P"))
	}
}

func isIntegral(f float64) bool { return f == math.Trunc(f) }

// ------------------------------------------------------------------------------------------------
// Natively built Go data: numeric columns held in Go types other than float64.

var goIntTypes = []string{"int", "int64", "int32", "int16", "int8", "uint", "uint64", "uint32", "uint16", "uint8"}

// goTyped converts a float64 value to the named Go numeric type (the value must fit).
func goTyped(v float64, typ string) any {
	switch typ {
	case "bigint64":
		return bigBaseInt + int64(v)
	case "biguint64":
		return bigBaseUint + uint64(int64(v))
	case "int":
		return int(v)
	case "int64":
		return int64(v)
	case "int32":
		return int32(v)
	case "int16":
		return int16(v)
	case "int8":
		return int8(v)
	case "uint":
		return uint(v)
	case "uint64":
		return uint64(v)
	case "uint32":
		return uint32(v)
	case "uint16":
		return uint16(v)
	case "uint8":
		return uint8(v)
	case "float32":
		return float32(v)
	}
	return v
}

// bigint64 / biguint64: order-isomorphic images of small integers beyond float64's exact range
// (bigBaseInt + v, bigBaseUint + v). The case files keep the small v; unbig maps results back.
const (
	bigBaseInt  = int64(1) << 53
	bigBaseUint = uint64(1) << 63
)

// unbig maps every int64 / uint64 near the big bases back to the small number it stands for, deeply.
func unbig(v any) any {
	switch x := v.(type) {
	case int64:
		if x > bigBaseInt-(1<<41) && x < bigBaseInt+(1<<41) {
			return float64(x - bigBaseInt)
		}
	case uint64:
		if x > bigBaseUint-(1<<41) && x < bigBaseUint+(1<<41) {
			return float64(int64(x - bigBaseUint))
		}
	case map[string]any:
		m := make(map[string]any, len(x))
		for k, e := range x {
			m[k] = unbig(e)
		}
		return m
	case []any:
		a := make([]any, len(x))
		for i, e := range x {
			a[i] = unbig(e)
		}
		return a
	}
	return v
}

func fitsGoType(v float64, typ string) bool {
	if typ == "bigint64" || typ == "biguint64" {
		return v == math.Trunc(v) && math.Abs(v) < (1<<40)
	}
	if typ == "float32" {
		return float64(float32(v)) == v
	}
	if typ == "float64" || typ == "" {
		return true
	}
	if v != math.Trunc(v) {
		return false
	}
	lim := map[string][2]float64{"int": {-1 << 53, 1 << 53}, "int64": {-1 << 53, 1 << 53}, "int32": {-1 << 31, 1<<31 - 1}, "int16": {-1 << 15, 1<<15 - 1}, "int8": {-128, 127},
		"uint": {0, 1 << 53}, "uint64": {0, 1 << 53}, "uint32": {0, 1<<32 - 1}, "uint16": {0, 1<<16 - 1}, "uint8": {0, 255}}[typ]
	return v >= lim[0] && v <= lim[1]
}

// genGoTypes draws, for some numeric columns, a Go type that can hold every value of the column's pool.
func genGoTypes(t *rapid.T, cols []Col, label string) map[string]string {
	out := map[string]string{}
	for _, c := range cols {
		if (c.Kind != "int" && c.Kind != "num") || rapid.IntRange(0, 2).Draw(t, label+"."+c.Name+".typed") != 0 {
			continue
		}
		cands := append([]string{"float32"}, goIntTypes...)
		perm := rapid.Permutation(cands).Draw(t, label+"."+c.Name+".type")
		for _, typ := range perm {
			ok := true
			for _, v := range c.Pool {
				if f, isNum := v.(float64); !isNum || !fitsGoType(f, typ) {
					ok = false
					break
				}
			}
			if ok {
				out[c.Name] = typ
				break
			}
		}
	}
	return out
}

// applyGoTypes returns a copy of rows in which the named columns hold values of the given Go types.
func applyGoTypes(rows []any, types map[string]string) []any {
	if len(types) == 0 {
		return rows
	}
	out := make([]any, len(rows))
	for i, r := range rows {
		rm, ok := r.(map[string]any)
		if !ok {
			out[i] = r
			continue
		}
		m := make(map[string]any, len(rm))
		for k, v := range rm {
			if typ, ok := types[k]; ok {
				if f, isNum := v.(float64); isNum && fitsGoType(f, typ) {
					m[k] = goTyped(f, typ)
					continue
				}
			}
			m[k] = v
		}
		out[i] = m
	}
	return out
}

// typedDoc returns a fresh copy of doc in which, for every table named in types, the listed columns
// hold native Go values of the given numeric type.
func typedDoc(doc map[string]any, types map[string]map[string]string) map[string]any {
	d := val.CopyMap(doc)
	for table, cols := range types {
		if rows, ok := d[table].([]any); ok && len(cols) > 0 {
			d[table] = applyGoTypes(rows, cols)
		}
	}
	return d
}

// genGoTypesForPool draws a Go numeric type able to hold every value of pool ("" = keep float64).
func genGoTypesForPool(t *rapid.T, pool []any, label string) string {
	if rapid.IntRange(0, 2).Draw(t, label+".typed") != 0 {
		return ""
	}
	cands := append([]string{"float32"}, goIntTypes...)
	for _, typ := range rapid.Permutation(cands).Draw(t, label+".type") {
		ok := true
		for _, v := range pool {
			if f, isNum := v.(float64); !isNum || !fitsGoType(f, typ) {
				ok = false
				break
			}
		}
		if ok {
			return typ
		}
	}
	return ""
}

// genRowCount draws a row count in lo..hi, and now and then one well beyond (13..40): algorithms that
// switch strategy with the input size (sorting, hashing, chunking) are exercised on both sides of the switch.
func genRowCount(t *rapid.T, lo, hi int, label string) int {
	if rapid.IntRange(0, 9).Draw(t, label+".many") == 0 {
		return rapid.IntRange(13, 40).Draw(t, label+".manyrows")
	}
	return rapid.IntRange(lo, hi).Draw(t, label)
}

// ------------------------------------------------------------------------------------------------
// Scale: a small share of the cases run on a table far larger than the ordinary 0..40 rows, so that
// strategies the engine only switches to beyond some size (chunked, batched or parallel processing of rows or
// groups) are exercised on both sides of the switch, with row counts of every residue.
//
// The case keeps the few drawn rows plus a short recipe; Check expands it (a pure function of the case), so
// large cases cost a handful of draws, stay small on disk and shrink quickly.

type Scale struct {
	Rows  int   `json:"rows"`  // size of the expanded table (200..700, a quarter of them 1000..2600)
	Block []int `json:"block"` // row i of the expanded table is a copy of drawn row Block[i mod len] (mod number of drawn rows)
	// optionally one column is spread over many distinct values: the index into KeyPool starts at Start and
	// advances from row to row by the cycle Steps (1 = round robin, 0 = runs, larger = keys first met out of
	// pool order); rows whose drawn row holds NULL in / lacks the column keep that
	KeyCol  string `json:"key_col,omitempty"`
	KeyPool []any  `json:"key_pool,omitempty"`
	Steps   []int  `json:"steps,omitempty"`
	Start   int    `json:"start,omitempty"`
}

// genScale draws a large-table recipe for a small share of the cases; nil = ordinary table. rapid favours small
// values and the ends of a range (IntRange(0, 49) yields 0 in 8% of the draws), hence a residue of a wide draw;
// that is still not uniform: the measured share is about 0.55/oneIn (oneIn 20: 2.5%, 14: 4.3% of the cases).
func genScale(t *rapid.T, oneIn int, label string) *Scale {
	if rapid.IntRange(0, 1<<20).Draw(t, label+".large")%oneIn != oneIn-1 {
		return nil
	}
	rows := rapid.IntRange(200, 700).Draw(t, label+".rows")
	if rapid.IntRange(0, 3).Draw(t, label+".huge") == 0 {
		// a quarter of the large tables is larger still: thresholds of size-dependent strategies need not be small
		rows = rapid.IntRange(1000, 2600).Draw(t, label+".hugerows")
	}
	return &Scale{
		Rows:  rows,
		Block: rapid.SliceOfN(rapid.IntRange(0, 63), 1, 16).Draw(t, label+".block"),
	}
}

// genKeys adds the spreading of column col over pool to the recipe.
func (s *Scale) genKeys(t *rapid.T, col string, pool []any, label string) {
	s.KeyCol, s.KeyPool = col, pool
	s.Steps = rapid.SliceOfN(rapid.IntRange(0, len(pool)-1), 0, 5).Draw(t, label+".steps")
	s.Steps = append(s.Steps, rapid.IntRange(1, len(pool)).Draw(t, label+".laststep")) // at least one step moves on
	s.Start = rapid.IntRange(0, len(pool)-1).Draw(t, label+".start")
}

// Expand builds the large table from the drawn rows (every row a deep copy: no map occurs twice).
func (s *Scale) Expand(base []any) []any {
	if s == nil || len(base) == 0 || len(s.Block) == 0 {
		return base
	}
	rows := make([]any, 0, s.Rows)
	cur := s.Start
	for i := 0; i < s.Rows; i++ {
		r := val.Copy(base[s.Block[i%len(s.Block)]%len(base)])
		if len(s.KeyPool) > 0 && len(s.Steps) > 0 {
			if rm, ok := r.(map[string]any); ok {
				if v, has := rm[s.KeyCol]; has && v != nil {
					rm[s.KeyCol] = s.KeyPool[cur%len(s.KeyPool)]
				}
			}
			cur = (cur + s.Steps[i%len(s.Steps)]) % len(s.KeyPool)
		}
		rows = append(rows, r)
	}
	return rows
}

// ExpandDoc returns doc with the named table expanded (doc itself when there is no recipe).
func (s *Scale) ExpandDoc(doc map[string]any, table string) map[string]any {
	base, ok := doc[table].([]any)
	if s == nil || !ok || len(base) == 0 {
		return doc
	}
	d := make(map[string]any, len(doc))
	for k, v := range doc {
		d[k] = v
	}
	d[table] = s.Expand(base)
	return d
}

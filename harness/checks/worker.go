package checks

import (
	"bufio"
	"encoding/json"
	"fmt"
	"io"
	"os"
	"os/exec"
	"runtime"
	"runtime/debug"
	"strconv"
	"strings"
	"sync"
	"syscall"
	"time"

	"verifharness/val"
)

// WJob is one unit of work for the child process.
type WJob struct {
	ID   int             `json:"id"`
	Kind string          `json:"kind"` // query | selector | batch
	Doc  json.RawMessage `json:"doc,omitempty"`
	SQL  string          `json:"sql,omitempty"`
	Opts Opts            `json:"opts,omitempty"`
	// fault plan for vf_fail
	FailAt int64 `json:"fail_at,omitempty"`
	Panic  int   `json:"panic,omitempty"`
	// Settle: wait this many milliseconds after Exec returned (lets fire-and-forget goroutines run
	// so that a panic in them is attributed to this job)
	SettleMs int `json:"settle_ms,omitempty"`
	// Reexec > 1: the same Query object is executed this many times
	Reexec int `json:"reexec,omitempty"`
	// Burst > 0: the query is constructed and executed this many times with the fault plan in force, then once
	// more without faults; the job's outcome is that of the last run unless a panic escaped earlier
	Burst int `json:"burst,omitempty"`
	// batch (C13)
	Batch *C13Batch `json:"batch,omitempty"`
}

type WResult struct {
	ID     int    `json:"id"`
	Status string `json:"status"` // ok | error | panic (a panic escaped New/Exec) | mismatch (batch)
	Detail string `json:"detail,omitempty"`
	Rows   int    `json:"rows"`
	Calls  int64  `json:"calls"`
}

// WorkerMain is the child's main loop: one JSON job per line on stdin, one JSON result per line on stdout.
func WorkerMain() {
	debug.SetMaxStack(64 << 20)
	if s := os.Getenv("VERIF_GOMAXPROCS"); s != "" {
		var n int
		fmt.Sscanf(s, "%d", &n)
		if n > 0 {
			runtime.GOMAXPROCS(n)
		}
	}
	in := bufio.NewReaderSize(os.Stdin, 1<<20)
	out := bufio.NewWriter(os.Stdout)
	for {
		line, err := in.ReadBytes('\n')
		if len(line) > 0 {
			var job WJob
			if jerr := json.Unmarshal(line, &job); jerr != nil {
				fmt.Fprintf(os.Stderr, "worker: bad job: %v\n", jerr)
				os.Exit(3)
			}
			res := runJob(&job)
			b, _ := json.Marshal(res)
			out.Write(b)
			out.WriteByte('\n')
			out.Flush()
		}
		if err != nil {
			return
		}
	}
}

func runJob(job *WJob) WResult {
	res := WResult{ID: job.ID}
	switch job.Kind {
	case "batch":
		return runBatch(job)
	case "selector":
		var doc any
		_ = json.Unmarshal(job.Doc, &doc)
		_, e, p := ReadSel(doc, job.SQL)
		switch {
		case p != "":
			res.Status, res.Detail = "panic", p
		case e != "":
			res.Status, res.Detail = "error", e
		default:
			res.Status = "ok"
		}
		return res
	}
	var doc map[string]any
	if len(job.Doc) > 0 {
		if err := json.Unmarshal(job.Doc, &doc); err != nil {
			res.Status, res.Detail = "error", "harness: bad document: "+err.Error()
			return res
		}
	}
	injReset(job.FailAt, job.Panic)
	var o Out
	if job.Burst > 0 {
		for i := 0; i < job.Burst; i++ {
			injReset(job.FailAt, job.Panic)
			if ob := Run(doc, job.SQL, job.Opts); ob.Panic != "" {
				res.Status, res.Detail = "panic", fmt.Sprintf("round %d of the burst: %s", i+1, ob.Panic)
				return res
			}
		}
		if job.SettleMs > 0 {
			time.Sleep(time.Duration(job.SettleMs) * time.Millisecond)
		}
		injReset(0, 0)
	}
	if job.Reexec > 1 {
		o = RunN(doc, job.SQL, job.Opts, job.Reexec)
	} else {
		o = Run(doc, job.SQL, job.Opts)
	}
	if job.SettleMs > 0 {
		time.Sleep(time.Duration(job.SettleMs) * time.Millisecond)
	}
	res.Calls = injCalls()
	switch {
	case o.Panic != "":
		res.Status, res.Detail = "panic", o.Panic
	case o.Err != "":
		res.Status, res.Detail = "error", truncate(o.Err, 300)
	default:
		res.Status, res.Rows = "ok", len(o.Rows)
	}
	return res
}

// ------------------------------------------------------------------------------------------------
// parent side

type Worker struct {
	mu     sync.Mutex
	cmd    *exec.Cmd
	stdin  io.WriteCloser
	stdout *bufio.Reader
	stderr *tailBuffer
	race   bool
	env    []string
	nextID int
}

type tailBuffer struct {
	mu  sync.Mutex
	buf []byte
}

func (t *tailBuffer) Write(p []byte) (int, error) {
	t.mu.Lock()
	t.buf = append(t.buf, p...)
	if len(t.buf) > 64<<10 {
		t.buf = t.buf[len(t.buf)-(64<<10):]
	}
	t.mu.Unlock()
	return len(p), nil
}

func (t *tailBuffer) String() string {
	t.mu.Lock()
	defer t.mu.Unlock()
	return string(t.buf)
}

func workerPath(race bool) string {
	p := os.Getenv("VERIF_WORKER")
	if p == "" {
		p = "/verif/.build/worker"
	}
	if race {
		p += ".race"
	}
	return p
}

func NewWorker(race bool, env ...string) *Worker {
	return &Worker{race: race, env: env}
}

func (w *Worker) start() error {
	cmd := exec.Command(workerPath(w.race))
	cmd.Env = append(os.Environ(), "GORACE=halt_on_error=1 exitcode=66", "GOTRACEBACK=single")
	cmd.Env = append(cmd.Env, w.env...)
	cmd.SysProcAttr = &syscall.SysProcAttr{Setpgid: true, Pdeathsig: syscall.SIGKILL}
	stdin, err := cmd.StdinPipe()
	if err != nil {
		return err
	}
	stdout, err := cmd.StdoutPipe()
	if err != nil {
		return err
	}
	w.stderr = &tailBuffer{}
	cmd.Stderr = w.stderr
	if err := cmd.Start(); err != nil {
		return err
	}
	w.cmd, w.stdin, w.stdout = cmd, stdin, bufio.NewReaderSize(stdout, 1<<20)
	return nil
}

func (w *Worker) Kill() {
	if w.cmd != nil && w.cmd.Process != nil {
		_ = syscall.Kill(-w.cmd.Process.Pid, syscall.SIGKILL)
		_ = w.cmd.Wait()
	}
	w.cmd = nil
}

// WOutcome is what the parent learns about one job.
type WOutcome struct {
	Res     *WResult
	Died    bool   // the child exited / was killed by the runtime while executing the job
	Timeout bool   // no answer within the watchdog
	Stderr  string // tail of the child's stderr when it died
	Harness string // harness-side failure (could not start the child, ...)
}

// Do sends one job and waits for its result.
func (w *Worker) Do(job *WJob, timeout time.Duration) WOutcome {
	w.mu.Lock()
	defer w.mu.Unlock()
	if w.cmd == nil {
		if err := w.start(); err != nil {
			return WOutcome{Harness: "cannot start worker: " + err.Error()}
		}
	}
	w.nextID++
	job.ID = w.nextID
	b, err := json.Marshal(job)
	if err != nil {
		return WOutcome{Harness: "cannot encode job: " + err.Error()}
	}
	b = append(b, '\n')
	type rd struct {
		line []byte
		err  error
	}
	ch := make(chan rd, 1)
	go func() {
		if _, err := w.stdin.Write(b); err != nil {
			ch <- rd{nil, err}
			return
		}
		line, err := w.stdout.ReadBytes('\n')
		ch <- rd{line, err}
	}()
	select {
	case r := <-ch:
		if r.err != nil || len(r.line) == 0 {
			// child died
			_ = w.cmd.Wait()
			st := w.stderr.String()
			w.cmd = nil
			return WOutcome{Died: true, Stderr: st}
		}
		var res WResult
		if err := json.Unmarshal(r.line, &res); err != nil {
			w.Kill()
			return WOutcome{Harness: "bad worker answer: " + err.Error() + ": " + truncate(string(r.line), 200)}
		}
		return WOutcome{Res: &res}
	case why := <-w.watch(timeout):
		st := why
		if w.cmd != nil && w.cmd.Process != nil {
			// ask the runtime for a goroutine dump, then kill
			_ = w.cmd.Process.Signal(syscall.SIGQUIT)
			time.Sleep(300 * time.Millisecond)
			st += w.stderr.String()
		}
		w.Kill()
		return WOutcome{Timeout: true, Stderr: st}
	}
}

// fatalSummary extracts the Go runtime's message from a dead child's stderr.
func fatalSummary(stderr string) string {
	for _, marker := range []string{"fatal error:", "panic:", "WARNING: DATA RACE", "runtime: goroutine stack exceeds"} {
		if i := strings.Index(stderr, marker); i >= 0 {
			s := stderr[i:]
			if len(s) > 1500 {
				s = s[:1500]
			}
			return s
		}
	}
	if len(stderr) > 1500 {
		return stderr[len(stderr)-1500:]
	}
	return stderr
}

func docJSON(doc any) json.RawMessage {
	b, err := json.Marshal(doc)
	if err != nil {
		return json.RawMessage("null")
	}
	return b
}

var _ = val.JSON

// workerRSSLimit is the resident set size (bytes) beyond which a child counts as having run away.
var workerRSSLimit = func() int64 {
	if v, err := strconv.ParseInt(os.Getenv("VERIF_CHILD_RSS_MB"), 10, 64); err == nil && v > 0 {
		return v << 20
	}
	return 3 << 30
}()

// watch fires when the job has neither answered within timeout nor kept its memory within bounds
// (a child that grows without limit is stopped early so that it cannot take the machine down).
func (w *Worker) watch(timeout time.Duration) <-chan string {
	ch := make(chan string, 1)
	pid := 0
	if w.cmd != nil && w.cmd.Process != nil {
		pid = w.cmd.Process.Pid
	}
	go func() {
		deadline := time.Now().Add(timeout)
		for time.Now().Before(deadline) {
			time.Sleep(50 * time.Millisecond)
			if rss := rssOf(pid); rss > workerRSSLimit {
				ch <- fmt.Sprintf("no answer yet and the resident set of the child grew to %d MiB (limit %d MiB)\n", rss>>20, workerRSSLimit>>20)
				return
			}
		}
		ch <- ""
	}()
	return ch
}

func rssOf(pid int) int64 {
	if pid <= 0 {
		return 0
	}
	b, err := os.ReadFile(fmt.Sprintf("/proc/%d/statm", pid))
	if err != nil {
		return 0
	}
	f := strings.Fields(string(b))
	if len(f) < 2 {
		return 0
	}
	pages, _ := strconv.ParseInt(f[1], 10, 64)
	return pages * int64(os.Getpagesize())
}

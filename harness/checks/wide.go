package checks

import (
	"fmt"
	"strings"

	"pgregory.net/rapid"
	"verifharness/sq"
)

// Wide query generator shared by C10/C11/C12/C19: one query per case drawn from templates that
// together cover every clause and composition form of the supported grammar. A template contains
// fault markers `{F@position:expr}`; rendering replaces one chosen marker by `vf_fail(expr)`
// (identity unless the injected fault fires) and all others by `expr`.
//
// {T} / {T2} stand for the two tables (t / t2, or root.t / root.t2 under Wrapped).

type WideQ struct {
	Doc       map[string]any `json:"doc"`
	Tpl       string         `json:"tpl"`
	Construct string         `json:"construct"`
	Wrapped   bool           `json:"wrapped,omitempty"`
	// Side: side-channel options (UnReportedErrors, CompletedCallback, WithVars, WithConstants) that never change what New/Exec return
	Side Opts `json:"side,omitempty"`
	// Unordered: row order of the result is not determined by the query (grouping / joins without a
	// total ORDER BY): compare as multiset.
	Unordered bool `json:"unordered,omitempty"`
}

type wideMarker struct {
	Name       string
	Expr       string
	Start, End int
}

func (w *WideQ) markers() []wideMarker {
	var out []wideMarker
	s := w.Tpl
	for i := 0; i < len(s); {
		j := strings.Index(s[i:], "{F@")
		if j < 0 {
			break
		}
		j += i
		colon := strings.Index(s[j:], ":")
		end := strings.Index(s[j:], "}")
		if colon < 0 || end < 0 || colon > end {
			break
		}
		out = append(out, wideMarker{Name: s[j+3 : j+colon], Expr: s[j+colon+1 : j+end], Start: j, End: j + end + 1})
		i = j + end + 1
	}
	return out
}

// SQL renders the template; plant is the index of the marker that becomes vf_fail(expr) (-1 = none).
// wrapFn is the function used for the planted marker (default vf_fail).
func (w *WideQ) SQL(plant int, wrapFn string) string {
	if wrapFn == "" {
		wrapFn = "vf_fail"
	}
	ms := w.markers()
	var sb strings.Builder
	pos := 0
	for i, m := range ms {
		sb.WriteString(w.Tpl[pos:m.Start])
		if i == plant {
			if strings.Contains(wrapFn, "%s") || strings.Contains(wrapFn, "%.0s") {
				sb.WriteString(fmt.Sprintf(wrapFn, m.Expr))
			} else {
				sb.WriteString(wrapFn + "(" + m.Expr + ")")
			}
		} else {
			sb.WriteString(m.Expr)
		}
		pos = m.End
	}
	sb.WriteString(w.Tpl[pos:])
	s := sb.String()
	t1, t2 := "t", "t2"
	if w.Wrapped {
		t1, t2 = "root.t", "root.t2"
	}
	s = strings.ReplaceAll(s, "{T2}", t2)
	s = strings.ReplaceAll(s, "{T}", t1)
	return s
}

func (w *WideQ) opts() Opts {
	o := w.Side
	o.Wrapped, o.PG, o.Arrays = w.Wrapped, false, false
	return o
}

var wideConstructs = []string{"filter", "case", "in-list", "between", "fn-args", "group", "group-having", "group-by-expr", "whole-agg", "join", "left-join", "parallel-join",
	"hash-join", "cte", "cte-twice", "derived", "sel-sub", "sel-sub-root", "in-sub", "exists", "not-exists", "union", "union-all", "order-limit", "distinct", "nested-from", "star-sub", "like-is", "join-derived", "cte-join", "in-sub-root", "exists-outer", "having-agg",
	"join-on-fn", "join-on-fn", "join-unaliased", "join-unaliased", "derived-cte", "join-derived-cte", "in-sub-cte", "sel-sub-cte", "exists-cte", "cte-union", "cte-nested", "selector-item", "selector-item", "selector-item", "fuse-item", "cte-path", "star-plain", "star-plain", "group-qualified", "cte-union-nested", "in-array-column"}

func genWide(t *rapid.T, only []string) *WideQ {
	doc, sc := genC07Doc(t)
	return genWideOn(t, doc, sc, only)
}

// genWideOn draws a wide query over an existing document / schema.
func genWideOn(t *rapid.T, doc map[string]any, sc *c07Schema, only []string) *WideQ {
	w := &WideQ{Doc: doc}
	pool := wideConstructs
	if only != nil {
		pool = only
	}
	w.Construct = rapid.SampledFrom(pool).Draw(t, "construct")
	k, s, v, items, p, q, c2 := sc.k, sc.s, sc.v, sc.items, sc.p, sc.q, sc.t2c
	num := func(l string) string {
		return sq.NumLit(rapid.SampledFrom([]float64{0, 1, 2, 3, 0.5, 2.5}).Draw(t, l))
	}
	op := func(l string) string { return rapid.SampledFrom([]string{">", "<", ">=", "<=", "=", "!="}).Draw(t, l) }
	strc := func(l string) string { return sq.StrLit(rapid.SampledFrom([]string{"a", "b", "ab", "z"}).Draw(t, l)) }
	optWhere := func(l string, prefix string) string {
		switch rapid.IntRange(0, 2).Draw(t, l+".w") {
		case 0:
			return ""
		case 1:
			return fmt.Sprintf(" WHERE {F@where:%s%s} %s %s", prefix, v, op(l+".op"), num(l+".c"))
		default:
			return fmt.Sprintf(" WHERE {F@where:%s%s} %s %s AND %s%s != %s", prefix, k, op(l+".op"), num(l+".c"), prefix, s, strc(l+".s"))
		}
	}
	switch w.Construct {
	case "filter":
		w.Tpl = fmt.Sprintf("SELECT {F@select-item:%s} AS a1, %s, (%s * 2) AS dbl FROM {T} WHERE {F@where:%s} %s %s", k, s, v, v, op("op"), num("c"))
		if rapid.Bool().Draw(t, "or") {
			w.Tpl += fmt.Sprintf(" OR NOT (%s = %s)", s, strc("s"))
		}
	case "case":
		w.Tpl = fmt.Sprintf("SELECT %s, CASE WHEN {F@case-condition:%s} %s %s THEN {F@case-branch:%s} WHEN %s = %s THEN 'same' ELSE {F@case-else:'z'} END AS c FROM {T}%s", k, k, op("op"), num("c"), s, s, strc("s"), optWhere("w", ""))
	case "in-list":
		w.Tpl = fmt.Sprintf("SELECT %s, %s FROM {T} WHERE %s %sIN (%s, {F@in-list:%s}, %s)", k, s, k, rapid.SampledFrom([]string{"", "NOT "}).Draw(t, "not"), num("a"), num("b"), num("c"))
	case "between":
		w.Tpl = fmt.Sprintf("SELECT %s, %s FROM {T} WHERE %s %sBETWEEN {F@between-bound:%s} AND {F@between-bound-hi:%s}", k, v, v, rapid.SampledFrom([]string{"", "NOT "}).Draw(t, "not"), num("lo"), num("hi"))
	case "fn-args":
		w.Tpl = fmt.Sprintf("SELECT CONCAT(%s, {F@function-argument:%s}) AS c, IF({F@function-argument-condition:%s} %s %s, %s, 'n') AS i, FIRST(%s) AS f, vf_id({F@nested-function-argument:%s}) AS w FROM {T}%s", s, s, k, op("op"), num("c"), s, items, v, optWhere("w", ""))
	case "group":
		w.Tpl = fmt.Sprintf("SELECT %s, COUNT(*) AS n, SUM({F@aggregate-argument:%s}) AS sv, MAX(%s) AS mx FROM {T}%s GROUP BY %s", k, v, v, optWhere("w", ""), k)
		w.Unordered = true
	case "group-having":
		w.Tpl = fmt.Sprintf("SELECT %s, COUNT(*) AS n FROM {T}%s GROUP BY %s HAVING COUNT(*) %s {F@having:%s}", s, optWhere("w", ""), s, op("hop"), num("hc"))
		if rapid.IntRange(0, 2).Draw(t, "gh-selectfn") == 0 {
			// functions in the select list of a grouped query that also has a HAVING clause (aliased and not)
			w.Tpl = fmt.Sprintf("SELECT %s, {F@grouped-select-item:%s} AS gs, COUNT(*) AS n, {F@grouped-select-item-2:MAX(%s)} AS mx FROM {T}%s GROUP BY %s HAVING COUNT(*) %s %s OR {F@having:%s} = 'zz'",
				s, s, v, optWhere("w", ""), s, op("hop"), num("hc"), s)
		}
		w.Unordered = true
	case "group-by-expr":
		w.Tpl = fmt.Sprintf("SELECT COUNT(*) AS n, MIN(%s) AS mn FROM {T}%s GROUP BY {F@group-by-expression:%s}", v, optWhere("w", ""), k)
		w.Unordered = true
	case "whole-agg":
		w.Tpl = fmt.Sprintf("SELECT COUNT(*) AS n, SUM({F@whole-aggregate-argument:%s}) AS sv, AVG(%s) AS av FROM {T}%s", v, k, optWhere("w", ""))
	case "join", "left-join", "parallel-join", "hash-join":
		kw := map[string][]string{"join": {"JOIN", "INNER JOIN", "STRAIGHT_JOIN"}, "left-join": {"LEFT JOIN", "RIGHT JOIN", "LEFT OUTER JOIN"},
			"parallel-join": {"PARALLEL JOIN", "PARALLEL LEFT JOIN", "PARALLEL HASH_JOIN"}, "hash-join": {"HASH_JOIN", "LEFT HASH_JOIN", "RIGHT HASH_JOIN"}}[w.Construct]
		on := fmt.Sprintf("{F@join-on:x.%s} = y.%s", k, c2)
		if w.Construct == "join" && rapid.Bool().Draw(t, "noneq") {
			on = fmt.Sprintf("{F@join-on:x.%s} %s y.%s", k, op("jop"), c2)
		}
		w.Tpl = fmt.Sprintf("SELECT * FROM {T} x %s {T2} y ON %s%s", rapid.SampledFrom(kw).Draw(t, "kw"), on, optWhere("w", "x."))
		w.Unordered = true
	case "cte":
		w.Tpl = fmt.Sprintf("WITH c AS (SELECT %s, {F@cte-body:%s} AS w, %s FROM {T}%s) SELECT %s, w FROM c WHERE {F@outer-where:w} %s %s", k, v, s, optWhere("w", ""), k, op("op"), num("c"))
	case "cte-twice":
		w.Tpl = fmt.Sprintf("WITH c AS (SELECT %s, {F@cte-body:%s} AS w FROM {T}) SELECT x.%s, y.w FROM c x JOIN c y ON x.%s = y.%s", k, v, k, k, k)
		w.Unordered = true
	case "derived":
		w.Tpl = fmt.Sprintf("SELECT x.%s, x.w FROM (SELECT %s, {F@derived-table:%s} AS w FROM {T} WHERE {F@derived-table-where:%s} %s %s) x WHERE x.w %s %s", k, k, v, k, op("iop"), num("ic"), op("oop"), num("oc"))
	case "sel-sub":
		w.Tpl = fmt.Sprintf("SELECT %s, (SELECT {F@subquery-select-item:%s} FROM %s WHERE {F@subquery-where:%s} %s %s) AS sb FROM {T}%s", k, p, items, p, op("sop"), num("sc"), optWhere("w", ""))
	case "sel-sub-root":
		w.Tpl = fmt.Sprintf("SELECT %s, (SELECT {F@root-subquery:%s} FROM `<-t2` WHERE %s %s %s) AS sb FROM t%s", k, c2, c2, op("sop"), num("sc"), optWhere("w", ""))
	case "in-sub":
		w.Tpl = fmt.Sprintf("SELECT %s, %s FROM {T} WHERE %s IN (SELECT {F@in-subquery:%s} FROM %s WHERE %s %s %s)", k, v, k, p, items, p, op("sop"), num("sc"))
	case "exists", "not-exists":
		kw := "EXISTS"
		if w.Construct == "not-exists" {
			kw = "NOT EXISTS"
		}
		w.Tpl = fmt.Sprintf("SELECT %s, %s FROM {T} WHERE %s (SELECT %s FROM %s WHERE {F@exists-body:%s} %s %s AND %s != %s)", k, s, kw, p, items, p, op("eop"), num("ec"), q, strc("es"))
	case "union", "union-all":
		kw := "UNION"
		if w.Construct == "union-all" {
			kw = "UNION ALL"
		}
		w.Tpl = fmt.Sprintf("SELECT {F@union-left:%s} AS u FROM {T}%s %s SELECT {F@union-branch:%s} AS u FROM {T2}", k, optWhere("w", ""), kw, c2)
		if rapid.Bool().Draw(t, "third") {
			w.Tpl += fmt.Sprintf(" %s SELECT {F@union-third:%s} AS u FROM {T}", kw, k)
		}
		w.Unordered = w.Construct == "union"
	case "order-limit":
		w.Tpl = fmt.Sprintf("SELECT %s, {F@select-item:%s} AS w, %s FROM {T}%s ORDER BY w %s, %s, %s", k, v, s, optWhere("w", ""), rapid.SampledFrom([]string{"ASC", "DESC"}).Draw(t, "dir"), k, s)
		if rapid.IntRange(0, 2).Draw(t, "hiddenkey") == 0 {
			// ordering by columns the select list does not output (the order itself is not judged here, only that
			// the query behaves: no crash, input untouched, plain data, same answer every time)
			w.Tpl = fmt.Sprintf("SELECT {F@select-item:%s} AS w FROM {T}%s ORDER BY %s %s, %s", s, optWhere("w2", ""), v, rapid.SampledFrom([]string{"ASC", "DESC"}).Draw(t, "dir2"), k)
			w.Unordered = true
		}
		if rapid.Bool().Draw(t, "limit") {
			w.Tpl += fmt.Sprintf(" LIMIT %d", rapid.IntRange(0, 4).Draw(t, "n"))
			if rapid.Bool().Draw(t, "offset") {
				w.Tpl += fmt.Sprintf(" OFFSET %d", rapid.IntRange(0, 3).Draw(t, "m"))
			}
		}
	case "distinct":
		w.Tpl = fmt.Sprintf("SELECT DISTINCT {F@select-item:%s} AS a, %s FROM {T}%s", k, s, optWhere("w", ""))
	case "nested-from":
		w.Tpl = fmt.Sprintf("SELECT {F@nested-select-item:%s} AS pp, %s FROM `{T}.%s` WHERE {F@nested-where:%s} %s %s", p, q, items, p, op("op"), num("c"))
	case "star-sub":
		w.Tpl = fmt.Sprintf("SELECT *, (SELECT %s FROM %s WHERE {F@subquery-where:%s} %s %s) AS sb FROM {T}%s", p, items, p, op("sop"), num("sc"), optWhere("w", ""))
	case "join-derived":
		w.Tpl = fmt.Sprintf("SELECT * FROM (SELECT {F@join-derived-left:%s} AS k2, %s FROM {T}%s) x %s (SELECT {F@join-derived-right:%s} AS c3 FROM {T2}) y ON x.k2 = y.c3", k, s, optWhere("w", ""), rapid.SampledFrom([]string{"JOIN", "LEFT JOIN", "RIGHT JOIN", "HASH_JOIN", "PARALLEL JOIN"}).Draw(t, "kw"), c2)
		w.Unordered = true
	case "cte-join":
		w.Tpl = fmt.Sprintf("WITH c AS (SELECT {F@cte-body:%s} AS k2, %s FROM {T}%s) SELECT * FROM c x %s {T2} y ON x.k2 = y.%s", k, v, optWhere("w", ""), rapid.SampledFrom([]string{"JOIN", "LEFT JOIN", "HASH_JOIN"}).Draw(t, "kw"), c2)
		w.Unordered = true
	case "in-sub-root":
		w.Tpl = fmt.Sprintf("SELECT %s, %s FROM t WHERE %s IN (SELECT {F@in-subquery-root:%s} FROM `<-t2` WHERE %s %s %s)", k, s, k, c2, c2, op("sop"), num("sc"))
	case "exists-outer":
		w.Tpl = fmt.Sprintf("SELECT %s, %s FROM {T} WHERE EXISTS (SELECT %s FROM %s WHERE %s %s {F@exists-outer-column:%s})", k, s, p, items, p, op("eop"), k)
	case "having-agg":
		w.Tpl = fmt.Sprintf("SELECT %s, SUM(%s) AS sv FROM {T}%s GROUP BY %s HAVING {F@having-aggregate:SUM(%s)} %s %s", k, v, optWhere("w", ""), k, v, op("hop"), num("hc"))
		w.Unordered = true
	case "join-on-fn":
		// a boolean-valued call as a conjunct of ON (the only place where ON accepts a function)
		w.Tpl = fmt.Sprintf("SELECT * FROM {T} x %s {T2} y ON x.%s %s y.%s AND {F@join-on-conjunct:TRUE}%s", rapid.SampledFrom([]string{"JOIN", "LEFT JOIN", "RIGHT JOIN", "PARALLEL JOIN", "PARALLEL LEFT JOIN", "INNER JOIN"}).Draw(t, "kw"),
			k, rapid.SampledFrom([]string{"!=", "<", ">=", "<>", "="}).Draw(t, "jop"), c2, optWhere("w", "x."))
		w.Unordered = true
	case "join-unaliased":
		// one side of the join carries no alias: its rows are merged as they are
		if rapid.Bool().Draw(t, "leftside") {
			w.Tpl = fmt.Sprintf("SELECT * FROM {T} %s {T2} y ON %s %s y.%s%s", rapid.SampledFrom([]string{"LEFT JOIN", "JOIN", "LEFT HASH_JOIN", "PARALLEL LEFT JOIN"}).Draw(t, "kw"), k, rapid.SampledFrom([]string{"=", "=", "<", "!="}).Draw(t, "jop"), c2, optWhere("w", ""))
		} else {
			w.Tpl = fmt.Sprintf("SELECT * FROM {T} x %s {T2} ON x.%s %s %s%s", rapid.SampledFrom([]string{"RIGHT JOIN", "JOIN", "RIGHT HASH_JOIN", "PARALLEL RIGHT JOIN"}).Draw(t, "kw"), k, rapid.SampledFrom([]string{"=", "=", ">", "!="}).Draw(t, "jop"), c2, optWhere("w", "x."))
		}
		w.Unordered = true
	case "derived-cte":
		w.Tpl = fmt.Sprintf("SELECT x.%s, x.w FROM (WITH c AS (SELECT %s, {F@cte-in-derived-table:%s} AS w FROM {T}%s) SELECT * FROM c) x", k, k, v, optWhere("w", ""))
	case "join-derived-cte":
		w.Tpl = fmt.Sprintf("SELECT * FROM (WITH c AS (SELECT {F@cte-in-join-side:%s} AS k2 FROM {T}) SELECT * FROM c) x %s {T2} y ON x.k2 = y.%s", k, rapid.SampledFrom([]string{"JOIN", "LEFT JOIN", "HASH_JOIN"}).Draw(t, "kw"), c2)
		w.Unordered = true
	case "in-sub-cte":
		w.Tpl = fmt.Sprintf("SELECT %s, %s FROM {T} WHERE %s IN (WITH c AS (SELECT {F@cte-in-in-subquery:%s} FROM %s) SELECT %s FROM c)", k, s, k, p, items, p)
	case "sel-sub-cte":
		w.Tpl = fmt.Sprintf("SELECT %s, (WITH c AS (SELECT {F@cte-in-select-subquery:%s} FROM %s) SELECT %s FROM c WHERE %s %s %s) AS sb FROM {T}%s", k, p, items, p, p, op("sop"), num("sc"), optWhere("w", ""))
	case "exists-cte":
		w.Tpl = fmt.Sprintf("SELECT %s FROM {T} WHERE EXISTS (WITH c AS (SELECT %s FROM %s) SELECT %s FROM c WHERE {F@cte-in-exists:%s} %s %s)", k, p, items, p, p, op("eop"), num("ec"))
	case "cte-union":
		w.Tpl = fmt.Sprintf("WITH a AS (SELECT {F@cte-body:%s} AS u FROM {T}%s) SELECT u FROM a UNION ALL SELECT {F@union-branch:%s} AS u FROM {T2}", k, optWhere("w", ""), c2)
	case "cte-nested":
		w.Tpl = fmt.Sprintf("WITH a AS (WITH b AS (SELECT %s, {F@inner-cte-body:%s} AS w FROM {T}) SELECT %s, w FROM b WHERE w %s %s) SELECT * FROM a", k, v, k, op("op"), num("c"))
	case "selector-item":
		// every row carries a small matrix that select items and conditions read through
		// multi-dimensional bracket selectors (index / each / range per dimension, keep=>)
		rows, _ := doc["t"].([]any)
		for r, row := range rows {
			rm, ok := row.(map[string]any)
			if !ok {
				continue
			}
			nr := rapid.IntRange(2, 3).Draw(t, fmt.Sprintf("mx%d.rows", r))
			mx := []any{}
			for i := 0; i < nr; i++ {
				nc := rapid.SampledFrom([]int{3, 3, 2, 4, 3, 3, 1, 0}).Draw(t, fmt.Sprintf("mx%d.r%d.cols", r, i))
				in := []any{}
				for j := 0; j < nc; j++ {
					in = append(in, fmt.Sprintf("%c%d", 'a'+i, j))
				}
				mx = append(mx, in)
			}
			rm["mx"] = mx
			rm["tags"] = []any{"a", "a", rapid.SampledFrom([]string{"b", "a", "c"}).Draw(t, fmt.Sprintf("tags%d", r)), "c"}
		}
		sel := func(l string) string {
			n := rapid.IntRange(1, 2).Draw(t, l+".ndims")
			var dims []string
			for i := 0; i < n; i++ {
				dims = append(dims, rapid.SampledFrom([]string{"each", "each", "0", "1", "(0:1)", "(1:2)", "(0:2)", "(begin:1)", "(1:end)", "(0:0)"}).Draw(t, fmt.Sprintf("%s.d%d", l, i)))
			}
			return "`mx[" + rapid.SampledFrom([]string{"", "", "keep=>"}).Draw(t, l+".keep") + strings.Join(dims, rapid.SampledFrom([]string{",", ":", ", "}).Draw(t, l+".sep")) + "]`"
		}
		w.Tpl = fmt.Sprintf("SELECT {F@select-item:%s} AS a1, %s AS g", k, sel("s1"))
		if rapid.IntRange(0, 2).Draw(t, "toplevelfn") == 0 {
			// top-level functions over arrays of the document (duplicates inside)
			w.Tpl += ", " + rapid.SampledFrom([]string{"`distinct=>tags`", "`distinct=>mx[0]`", "`mix=>mx`", "`distinct=>tags[(0:3)]`"}).Draw(t, "tlf") + " AS tl"
		}
		if rapid.IntRange(0, 2).Draw(t, "continued") == 0 {
			// `::` continues with the whole result of the stage before it: the first stage hands on an array of
			// the document itself (a key, an index, a range), later stages project its elements
			w.Tpl += ", " + rapid.SampledFrom([]string{"`" + items + "::" + p + "`", "`" + items + "[(0:1)]::" + p + "`", "`" + items + "::{" + p + "}`", "`" + items + "::{" + p + "|string," + q + "}`",
				"`tags::[0]`", "`mx[0]::[1]`", "`mx::[each,0]`", "`" + items + "::" + q + "::[0]`", "`" + items + "[(begin:1)]::" + q + "`", "`mx[(0:2)]::[0]`"}).Draw(t, "cont") + " AS ct"
		}
		if rapid.Bool().Draw(t, "unwind") {
			w.Tpl += fmt.Sprintf(", UNWIND(%s) AS u", sel("s2"))
		}
		w.Tpl += " FROM {T}"
		if rapid.Bool().Draw(t, "where") {
			w.Tpl += fmt.Sprintf(" WHERE FIRST(%s) = %s", sel("s3"), rapid.SampledFrom([]string{"'a0'", "'a1'", "'b0'"}).Draw(t, "first"))
		}
	case "fuse-item":
		// FUSE spreads the keys of an object of the document over the output row, in any position of the select list
		rows, _ := doc["t"].([]any)
		for r, row := range rows {
			if rm, ok := row.(map[string]any); ok {
				rm["o"] = map[string]any{"u": float64(r), "w": rapid.SampledFrom([]string{"x", "y"}).Draw(t, fmt.Sprintf("o%d", r))}
			}
		}
		fuse := rapid.SampledFrom([]string{"FUSE(o)", "FUSE(o)", "FUSE(FIRST(" + items + "))", "FUSE((SELECT " + p + " FROM " + items + " LIMIT 1))"}).Draw(t, "fuse")
		its := []string{fuse, fmt.Sprintf("{F@select-item:%s} AS a1", k), s}
		if rapid.Bool().Draw(t, "fusestar") {
			its = append(its, "*")
		}
		perm := rapid.Permutation(its).Draw(t, "fuseorder")
		w.Tpl = "SELECT " + strings.Join(perm, ", ") + " FROM {T}" + optWhere("w", "")
	case "cte-path":
		// a CTE read through a path selector (index, key, each, range, mix=>), in FROM and in a back reference
		path := rapid.SampledFrom([]string{"`c[0]`", "`c[(0:1)]`", "c." + items, "`c[each]." + items + "`", "`mix=>c." + items + "`", "`c[9]`", "`c::[0]`"}).Draw(t, "ctepath")
		w.Tpl = fmt.Sprintf("WITH c AS (SELECT {F@cte-body:%s} AS kk, %s, %s FROM {T}%s) SELECT * FROM %s", k, s, items, optWhere("w", ""), path)
		if rapid.IntRange(0, 3).Draw(t, "cteback") == 0 {
			w.Tpl = fmt.Sprintf("WITH c AS (SELECT {F@cte-body:%s} AS kk, %s FROM {T}) SELECT %s, (SELECT kk FROM `<-c[0]`) AS sb FROM {T}", k, s, k)
		}
	case "star-plain":
		// the bare star: rows go through as they are - also under WHERE, ORDER BY, DISTINCT and LIMIT
		w.Tpl = "SELECT " + rapid.SampledFrom([]string{"*", "*", "DISTINCT *"}).Draw(t, "starkind") + " FROM {T}" + optWhere("w", "")
		if rapid.Bool().Draw(t, "starorder") {
			w.Tpl += fmt.Sprintf(" ORDER BY %s %s, %s", k, rapid.SampledFrom([]string{"ASC", "DESC"}).Draw(t, "dir"), v)
		}
		if rapid.IntRange(0, 2).Draw(t, "starlimit") == 0 {
			w.Tpl += fmt.Sprintf(" LIMIT %d", rapid.IntRange(0, 3).Draw(t, "n"))
		}
	case "group-qualified":
		// grouping keys written as paths: alias.column on an aliased table, object.key on a nested object that
		// some rows lack (or that lacks the key)
		rows, _ := doc["t"].([]any)
		for r, row := range rows {
			if rm, ok := row.(map[string]any); ok {
				switch rapid.IntRange(0, 3).Draw(t, fmt.Sprintf("gq%d", r)) {
				case 0:
					rm["o"] = map[string]any{"u": float64(r % 2)}
				case 1:
					// no object at all
				default:
					rm["o"] = map[string]any{"u": float64(r % 2), "w": rapid.SampledFrom([]string{"x", "y"}).Draw(t, fmt.Sprintf("gq%d.w", r))}
				}
				if rapid.IntRange(0, 3).Draw(t, fmt.Sprintf("gq%d.drop", r)) == 0 {
					delete(rm, s)
				}
			}
		}
		switch rapid.IntRange(0, 2).Draw(t, "gqform") {
		case 0:
			w.Tpl = fmt.Sprintf("SELECT COUNT(*) AS n, SUM({F@aggregate-argument:%s}) AS sv FROM {T} GROUP BY o.w", v)
		case 1:
			w.Tpl = fmt.Sprintf("SELECT x.%s, COUNT(*) AS n FROM {T} x GROUP BY x.%s", s, s)
		default:
			w.Tpl = fmt.Sprintf("SELECT COUNT(*) AS n FROM {T} x JOIN {T2} y ON x.%s = y.%s GROUP BY x.%s, x.o.w", k, c2, s)
		}
		w.Unordered = true
	case "cte-union-nested":
		// a UNION below the level of the WITH clause (in a derived table, as the body of a second CTE) whose arms both read the CTE
		if rapid.Bool().Draw(t, "cun-derived") {
			w.Tpl = fmt.Sprintf("WITH c AS (SELECT {F@cte-body:%s} AS u FROM {T}%s) SELECT x.u FROM (SELECT u FROM c UNION ALL SELECT u FROM c) x", k, optWhere("w", ""))
		} else {
			w.Tpl = fmt.Sprintf("WITH c AS (SELECT {F@cte-body:%s} AS u FROM {T}), d AS (SELECT u FROM c UNION SELECT u FROM c WHERE u %s %s) SELECT * FROM d", k, op("op"), num("c"))
			w.Unordered = true
		}
	case "in-array-column":
		// IN / NOT IN whose list is (or contains) an array-valued column of the row: elements that are objects
		// with one key, scalars, NULL
		rows, _ := doc["t"].([]any)
		for r, row := range rows {
			if rm, ok := row.(map[string]any); ok {
				rm["lst"] = []any{map[string]any{"r": rapid.SampledFrom([]any{1.0, "a", 2.0}).Draw(t, fmt.Sprintf("lst%d.a", r))}, map[string]any{"r": "b"}, rapid.SampledFrom([]any{"a", 1.0, nil, 3.0}).Draw(t, fmt.Sprintf("lst%d.b", r))}
			}
		}
		w.Tpl = fmt.Sprintf("SELECT {F@select-item:%s} AS a1, %s FROM {T} WHERE %s %sIN (%s)", k, s, rapid.SampledFrom([]string{k, s}).Draw(t, "inarr.col"), rapid.SampledFrom([]string{"", "NOT "}).Draw(t, "inarr.not"),
			rapid.SampledFrom([]string{"lst", items, "lst, 5", "`lst[each].r`", "lst, " + items}).Draw(t, "inarr.list"))
	case "union-windowed":
		// (not in wideConstructs: drawn only by checks that list it themselves, see c11Constructs)
		// 2-3 union arms, each with its own select list (bare star / plain columns / computed), source, optional WHERE,
		// and - parenthesised - its own ORDER BY / LIMIT [OFFSET] window; at top level, as the body of a CTE, or in a derived table
		narms := rapid.IntRange(2, 3).Draw(t, "uw.arms")
		body := ""
		for i := 0; i < narms; i++ {
			l := fmt.Sprintf("uw.a%d", i)
			src, cols, key := "{T}", k+", "+s, k
			switch rapid.IntRange(0, 5).Draw(t, l+".src") {
			case 0, 1:
				src, cols, key = "{T2}", c2, c2
			case 2:
				src, cols, key = "`{T}."+items+"`", p+", "+q, p
			}
			var sel string
			switch rapid.IntRange(0, 3).Draw(t, l+".sel") {
			case 0, 1:
				sel = "*"
			case 2:
				sel = cols
			default:
				sel = fmt.Sprintf("{F@union-arm-%d:%s} AS u", i+1, key)
				if rapid.Bool().Draw(t, l+".twocols") {
					sel += fmt.Sprintf(", (%s * 2) AS dbl", key)
				}
			}
			arm := "SELECT " + sel + " FROM " + src
			if rapid.IntRange(0, 2).Draw(t, l+".where") == 0 {
				arm += fmt.Sprintf(" WHERE {F@union-arm-where-%d:%s} %s %s", i+1, key, op(l+".op"), num(l+".c"))
			}
			paren := rapid.Bool().Draw(t, l+".paren")
			if rapid.IntRange(0, 4).Draw(t, l+".order") == 0 {
				arm += fmt.Sprintf(" ORDER BY %s %s", key, rapid.SampledFrom([]string{"ASC", "DESC"}).Draw(t, l+".dir"))
				paren = true
			}
			if rapid.IntRange(0, 3).Draw(t, l+".window") != 0 {
				arm += fmt.Sprintf(" LIMIT %d", rapid.IntRange(0, 3).Draw(t, l+".n"))
				if rapid.IntRange(0, 2).Draw(t, l+".offset") == 0 {
					arm += fmt.Sprintf(" OFFSET %d", rapid.IntRange(0, 2).Draw(t, l+".m"))
				}
				paren = true
			}
			if paren {
				arm = "(" + arm + ")"
			}
			if i > 0 {
				kw := rapid.SampledFrom([]string{"UNION ALL", "UNION ALL", "UNION"}).Draw(t, l+".kw")
				if kw == "UNION" {
					w.Unordered = true
				}
				body += " " + kw + " "
			}
			body += arm
		}
		if rapid.IntRange(0, 5).Draw(t, "uw.outerlimit") == 0 {
			body += fmt.Sprintf(" LIMIT %d", rapid.IntRange(0, 5).Draw(t, "uw.on"))
		}
		switch rapid.IntRange(0, 3).Draw(t, "uw.place") {
		case 0, 1:
			w.Tpl = body
		case 2:
			w.Tpl = fmt.Sprintf("WITH c AS (%s) SELECT %s FROM c", body, rapid.SampledFrom([]string{"*", "*", k, c2, "u"}).Draw(t, "uw.ctesel"))
			if rapid.IntRange(0, 2).Draw(t, "uw.ctewhere") == 0 {
				w.Tpl += fmt.Sprintf(" WHERE {F@outer-where:%s} %s %s", rapid.SampledFrom([]string{k, c2, "u"}).Draw(t, "uw.ctewcol"), op("uw.cteop"), num("uw.ctec"))
			}
		default:
			w.Tpl = fmt.Sprintf("SELECT %s FROM (%s) x", rapid.SampledFrom([]string{"*", "*", "x." + k, "x." + c2, "x.u"}).Draw(t, "uw.dersel"), body)
		}
	case "like-is":
		w.Tpl = fmt.Sprintf("SELECT %s, %s FROM {T} WHERE {F@like-operand:%s} LIKE %s OR {F@is-operand:%s} IS NULL OR %s IS NOT NULL", k, s, s, sq.StrLit(rapid.SampledFrom([]string{"a%", "%b", "_", "%"}).Draw(t, "pat")), "nokey", v)
	}
	if w.Construct != "sel-sub-root" && w.Construct != "in-sub-root" && rapid.IntRange(0, 3).Draw(t, "wrapped") == 0 {
		w.Wrapped = true
	}
	if rapid.IntRange(0, 3).Draw(t, "side") == 0 {
		b := rapid.IntRange(1, 15).Draw(t, "sidebits")
		w.Side = Opts{Unreported: b&1 != 0, Callback: b&2 != 0, Vars: b&4 != 0, Consts: b&8 != 0}
	}
	return w
}

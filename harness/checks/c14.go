package checks

import (
	"fmt"
	"strings"
	"time"

	"pgregory.net/rapid"
	"verifharness/sq"
	"verifharness/val"
)

// C14 - function execution strategies change timing, never results.

type C14Item struct {
	Q     string `json:"q"`     // "" | async | spinasync | spin | once
	Fn    string `json:"fn"`    // vf_tag | vf_tag2 | vf_tag3 (distinct names so that several ONCE calls can coexist)
	Tag   string `json:"tag"`   // unique per item; starts with 'g' when the call goes through the gate
	Arg   string `json:"arg"`   // column name, or a literal rendered as is (ONCE)
	Alias string `json:"alias"` // "" for spin / spinasync
	// Cond, when set (ASYNC / unqualified calls only), wraps the call: CASE WHEN a > Cond THEN call ELSE 'none' END
	Cond *float64 `json:"cond,omitempty"`
}

type C14Case struct {
	Rows  []any     `json:"rows"`
	Where *sq.E     `json:"where,omitempty"`
	Items []C14Item `json:"items"`
	Order []int     `json:"order"`          // release permutation over the gated calls (arrival index -> completion rank)
	Tail  string    `json:"tail,omitempty"` // "" | distinct | orderby (ASYNC column under DISTINCT / as ORDER BY key) | derived-distinct | derived-orderby (the calls sit in a derived table, the outer query de-duplicates / sorts) | nested | union-all
	Imm   string    `json:"imm,omitempty"`  // immediate-function rejection case: the qualified call text
	// Grouped: SELECT s AS rs, ONCE.<fn>('tag', <const>) AS o0, COUNT(a) AS n FROM t [WHERE] GROUP BY s [HAVING ONCE...]:
	// one invocation for the whole query, the same value in every group
	Grouped string `json:"grouped,omitempty"` // "" | select | having
	Wrapped bool   `json:"wrapped,omitempty"`
	// Cur: the select list starts with SETVAR('cur', a) and some calls take GETVAR('cur') as argument (query
	// built WithVars): a call's arguments are what they are on its row when the row is evaluated, whenever the
	// call itself runs
	Cur bool `json:"cur,omitempty"`
}

func genC14(t *rapid.T) any {
	c := &C14Case{}
	if rapid.IntRange(0, 7).Draw(t, "immcase") == 0 {
		q := rapid.SampledFrom([]string{"ASYNC", "SPIN", "SPINASYNC"}).Draw(t, "q")
		call := rapid.SampledFrom([]string{"vf_imm(a)", "vfImmCamel(a)", "vfimmcamel(a)", "VFIMMCAMEL(a)", "VF_IMM_UPPER(a)", "vf_imm_upper(a)", "VF_IMM(a)", "TO_UPPER(s)", "to_upper(s)", "GETVAR('x')", "CONSTANT('pi')", "DATERANGE(s, s)", "TO_LOWER(s)", "TIMESTAMP()"}).Draw(t, "immfn")
		c.Imm = q + "." + call
		c.Rows = []any{map[string]any{"a": 1.0, "s": "x"}, map[string]any{"a": 2.0, "s": "y"}}
		if rapid.Bool().Draw(t, "norows") {
			c.Rows = []any{}
		}
		return c
	}
	if rapid.IntRange(0, 9).Draw(t, "groupedcase") == 0 {
		c.Grouped = rapid.SampledFrom([]string{"select", "select", "having"}).Draw(t, "groupedkind")
		nr := rapid.IntRange(1, 7).Draw(t, "g.nrows")
		for r := 0; r < nr; r++ {
			c.Rows = append(c.Rows, map[string]any{"a": rapid.SampledFrom([]float64{1, 2, 3, 4}).Draw(t, fmt.Sprintf("g.r%d.a", r)), "s": rapid.SampledFrom([]any{"x", "y", "zz"}).Draw(t, fmt.Sprintf("g.r%d.s", r))})
		}
		if rapid.Bool().Draw(t, "g.where") {
			c.Where = sq.Cmp(">", sq.Col("a"), sq.Num(rapid.SampledFrom([]float64{0, 1, 2}).Draw(t, "g.wc")))
		}
		c.Items = []C14Item{{Q: "once", Fn: rapid.SampledFrom([]string{"vf_tag", "vf_tag2"}).Draw(t, "g.fn"), Tag: "n0", Arg: rapid.SampledFrom([]string{"5", "'k'", "2.5"}).Draw(t, "g.const"), Alias: "o0"}}
		return c
	}
	n := genRowCount(t, 1, 6, "nrows") // now and then 13-40 rows: dozens of qualified calls in flight at once
	for r := 0; r < n; r++ {
		c.Rows = append(c.Rows, map[string]any{
			"a": rapid.SampledFrom([]float64{1, 2, 3, 4, 7, -1}).Draw(t, fmt.Sprintf("r%d.a", r)),
			"s": rapid.SampledFrom([]any{"x", "y", "zz", "", nil}).Draw(t, fmt.Sprintf("r%d.s", r)),
		})
	}
	if rapid.IntRange(0, 2).Draw(t, "where") == 0 {
		c.Where = sq.Cmp(rapid.SampledFrom([]string{">", "<", "!="}).Draw(t, "wop"), sq.Col("a"), sq.Num(rapid.SampledFrom([]float64{1, 2, 3}).Draw(t, "wc")))
	}
	ni := rapid.IntRange(1, 5).Draw(t, "nitems")
	onceUsed := map[string]bool{}
	gated := 0
	for i := 0; i < ni; i++ {
		l := fmt.Sprintf("i%d", i)
		q := rapid.SampledFrom([]string{"", "async", "async", "async", "spinasync", "spinasync", "spin", "once"}).Draw(t, l+".q")
		fn := rapid.SampledFrom([]string{"vf_tag", "vf_tag2", "vf_tag3"}).Draw(t, l+".fn")
		it := C14Item{Q: q, Fn: fn, Arg: rapid.SampledFrom([]string{"a", "s"}).Draw(t, l+".arg"), Alias: fmt.Sprintf("o%d", i)}
		switch q {
		case "once":
			if onceUsed[fn] {
				it.Q = ""
				it.Tag = fmt.Sprintf("p%d", i)
				break
			}
			onceUsed[fn] = true
			it.Tag = fmt.Sprintf("n%d", i)
			// a constant, or a column: the single invocation then receives the value of one of the selected rows
			it.Arg = rapid.SampledFrom([]string{"5", "'k'", "2.5", "a", "s"}).Draw(t, l+".const")
		case "":
			it.Tag = fmt.Sprintf("p%d", i)
		case "spin", "spinasync":
			it.Tag = fmt.Sprintf("g%d", i)
			it.Alias = ""
			gated++
		default:
			it.Tag = fmt.Sprintf("g%d", i)
			gated++
		}
		if (it.Q == "async" || it.Q == "") && rapid.IntRange(0, 3).Draw(t, l+".conditional") == 0 {
			v := rapid.SampledFrom([]float64{0, 1, 2, 3}).Draw(t, l+".cond")
			it.Cond = &v
		}
		c.Items = append(c.Items, it)
	}
	// release permutation over at most n*gated calls
	total := n * gated
	if total > 0 {
		switch rapid.IntRange(0, 5).Draw(t, "ordermode") {
		case 0: // arrival order
			c.Order = seqInts(total)
		case 1: // reversed
			c.Order = seqInts(total)
			for i, j := 0, total-1; i < j; i, j = i+1, j-1 {
				c.Order[i], c.Order[j] = c.Order[j], c.Order[i]
			}
		default:
			c.Order = rapid.Permutation(seqInts(total)).Draw(t, "order")
		}
	}
	hasAsyncCol := false
	for _, it := range c.Items {
		if it.Q == "async" {
			hasAsyncCol = true
		}
	}
	if hasAsyncCol && rapid.IntRange(0, 5).Draw(t, "tail") == 0 {
		c.Tail = rapid.SampledFrom([]string{"distinct", "orderby", "derived-distinct", "derived-orderby", "cte-distinct", "cte-orderby"}).Draw(t, "tailkind")
	} else if rapid.IntRange(0, 6).Draw(t, "unionall") == 0 {
		c.Tail = "union-all"
	} else if rapid.IntRange(0, 5).Draw(t, "nested") == 0 {
		// multi-dimensional FROM; ONCE there is outside the statement (once per query vs. per inner array)
		c.Tail = "nested"
		for i := range c.Items {
			if c.Items[i].Q == "once" {
				c.Items[i].Q = ""
				c.Items[i].Tag = "p" + c.Items[i].Tag[1:]
			}
		}
	}
	if rapid.IntRange(0, 3).Draw(t, "cur") == 0 {
		for i := range c.Items {
			if (c.Items[i].Q == "" || c.Items[i].Q == "async") && c.Items[i].Arg == "a" && rapid.Bool().Draw(t, fmt.Sprintf("cur.i%d", i)) {
				c.Items[i].Arg = "GETVAR('cur')"
				c.Cur = true
			}
		}
	}
	return c
}

func (c *C14Case) sql(qualified bool) string {
	epoch := injEpoch.Load()
	var parts []string
	if c.Cur {
		parts = append(parts, "SETVAR('cur', a)")
	}
	parts = append(parts, "a AS ra", "s AS rs")
	firstAsync := ""
	for _, it := range c.Items {
		call := fmt.Sprintf("%s(%s, %s)", it.Fn, sq.StrLit(fmt.Sprintf("%s#%d", it.Tag, epoch)), it.Arg)
		if qualified && it.Q != "" {
			call = strings.ToUpper(it.Q) + "." + call
		}
		if !qualified && (it.Q == "spin" || it.Q == "spinasync") {
			continue // the unqualified comparison query has no counterpart for calls that add no column
		}
		if it.Cond != nil {
			call = fmt.Sprintf("CASE WHEN a > %s THEN %s ELSE 'none' END", sq.NumLit(*it.Cond), call)
		}
		if it.Alias != "" {
			call += " AS " + it.Alias
			if it.Q == "async" && firstAsync == "" {
				firstAsync = it.Alias
			}
		}
		parts = append(parts, call)
	}
	sel := "SELECT "
	if c.Tail == "distinct" {
		sel = "SELECT DISTINCT "
	}
	from := "t"
	if c.Tail == "nested" {
		from = "nn"
	}
	s := sel + strings.Join(parts, ", ") + " FROM " + from
	if c.Where != nil {
		s += " WHERE " + sq.Render(c.Where, nil)
	}
	if c.Tail == "orderby" && firstAsync != "" {
		s += " ORDER BY " + firstAsync + " DESC, ra, rs"
	}
	if strings.HasPrefix(c.Tail, "derived-") || strings.HasPrefix(c.Tail, "cte-") {
		// the calls are made by a derived table / a CTE; the outer query de-duplicates / sorts on their values
		pre := "d."
		if strings.HasPrefix(c.Tail, "cte-") {
			pre = ""
		}
		cols := []string{pre + "ra AS ra", pre + "rs AS rs"}
		for _, it := range c.Items {
			if it.Alias != "" && (qualified || (it.Q != "spin" && it.Q != "spinasync")) {
				cols = append(cols, pre+it.Alias+" AS "+it.Alias)
			}
		}
		outer := "SELECT "
		if strings.HasSuffix(c.Tail, "-distinct") {
			outer = "SELECT DISTINCT "
		}
		if pre == "" {
			s = "WITH c AS (" + s + ") " + outer + strings.Join(cols, ", ") + " FROM c"
		} else {
			s = outer + strings.Join(cols, ", ") + " FROM (" + s + ") d"
		}
		if strings.HasSuffix(c.Tail, "-orderby") && firstAsync != "" {
			s += " ORDER BY " + firstAsync + " DESC, ra, rs"
		}
	}
	if c.Tail == "union-all" {
		// the query as the first arm of a UNION ALL whose second arm selects nothing and calls nothing
		s += " UNION ALL SELECT a AS ra, s AS rs FROM t WHERE a > 100000"
	}
	return s
}

func checkC14(c *C14Case) Result {
	res := Result{}
	if c.Imm != "" {
		return checkC14Imm(c)
	}
	if c.Grouped != "" {
		return checkC14Grouped(c)
	}
	// rows passing WHERE (reference)
	var selected []map[string]any
	for _, r := range c.Rows {
		row := r.(map[string]any)
		if c.Where != nil {
			keep, err := sq.EvalBool(c.Where, row, nil)
			if err != nil {
				res.Harness = err.Error()
				return res
			}
			if !keep {
				continue
			}
		}
		selected = append(selected, row)
	}
	gatedItems := 0
	expectedGated := 0
	for _, it := range c.Items {
		if strings.HasPrefix(it.Tag, "g") {
			gatedItems++
			expectedGated += len(selected)
			if it.Cond != nil {
				expectedGated -= len(selected)
				for _, row := range selected {
					if row["a"].(float64) > *it.Cond {
						expectedGated++
					}
				}
			}
		}
	}
	mix := map[string]bool{}
	for _, it := range c.Items {
		q := it.Q
		if q == "" {
			q = "plain"
		}
		mix[q] = true
	}
	for q := range mix {
		res.Labels = append(res.Labels, "qualifier:"+q)
	}
	if c.Tail != "" {
		res.Labels = append(res.Labels, "async-under-"+c.Tail)
	}

	// qualified run under the gate
	g := newGate(expectedGated, c.Order)
	injNewRun(g)
	stop := make(chan struct{})
	pumpDone := make(chan struct{})
	go func() {
		defer close(pumpDone)
		last := -1
		tick := time.NewTicker(2 * time.Millisecond)
		defer tick.Stop()
		for {
			select {
			case <-stop:
				return
			case <-tick.C:
				last = g.pump(last)
			}
		}
	}()
	sqlQ := c.sql(true)
	out := Run(c.doc(), sqlQ, Opts{Vars: c.Cur})
	res.Execs++
	// observations at the moment Exec returned
	inj.mu.Lock()
	calls := map[string]int{}
	done := map[string]int{}
	for k, v := range inj.tagCalls {
		calls[k] = v
	}
	for k, v := range inj.tagDone {
		done[k] = v
	}
	argsSeen := map[string][]any{}
	for k, v := range inj.tagArgs {
		argsSeen[k] = append([]any{}, v...)
	}
	inj.mu.Unlock()
	// let fire-and-forget SPIN calls finish before the next case
	g.openAll()
	deadline := time.Now().Add(5 * time.Second)
	for {
		a, f := g.counts()
		if a == f || time.Now().After(deadline) {
			break
		}
		time.Sleep(time.Millisecond)
	}
	close(stop)
	<-pumpDone
	finish := g.finishOrder()

	identity := true
	for i, r := range finish {
		if r != i {
			identity = false
		}
	}
	if len(finish) == 0 {
		res.Labels = append(res.Labels, "completion-order:no-gated-call-ran")
	} else if !identity {
		res.Labels = append(res.Labels, "completion-order:permuted")
	} else {
		res.Labels = append(res.Labels, "completion-order:arrival")
	}
	res.NonTrivial = len(selected) >= 2 && gatedItems >= 1 && !identity
	if c.Cur {
		res.Labels = append(res.Labels, "argument-reads-a-register-written-per-row")
	}

	ctx := fmt.Sprintf("%s over %s (release order %v, completion order %v)", sqlQ, val.JSON(c.Rows), c.Order, finish)
	if !out.OK() {
		res.Violation = fmt.Sprintf("%s\n  %s", ctx, out.Describe())
		return res
	}
	// a ONCE call over a column: whichever row's value the single invocation received, it must be the value of
	// a selected row, and every row shows the function's value for that one argument
	onceArg := map[string]any{}
	for _, it := range c.Items {
		if it.Q != "once" || (it.Arg != "a" && it.Arg != "s") || len(selected) == 0 {
			continue
		}
		res.Labels = append(res.Labels, "once-over-column")
		if len(argsSeen[it.Tag]) != 1 {
			res.Violation = fmt.Sprintf("%s\n  the ONCE call tagged %s was invoked %d times; expected 1; arguments seen: %s", ctx, it.Tag, len(argsSeen[it.Tag]), val.JSON(argsSeen[it.Tag]))
			return res
		}
		got := val.Norm(argsSeen[it.Tag][0])
		held := false
		for _, row := range selected {
			if val.Equal(got, row[it.Arg]) {
				held = true
			}
		}
		if !held {
			res.Violation = fmt.Sprintf("%s\n  the ONCE call tagged %s received %s, which no selected row holds in column %s", ctx, it.Tag, val.JSON(got), it.Arg)
			return res
		}
		onceArg[it.Tag] = got
	}
	// expected rows
	var want []any
	for _, row := range selected {
		o := map[string]any{"ra": row["a"], "rs": row["s"]}
		for _, it := range c.Items {
			if it.Alias == "" {
				continue
			}
			var arg any
			switch it.Arg {
			case "a", "s":
				arg = row[it.Arg]
				if it.Q == "once" {
					arg = onceArg[it.Tag]
				}
			case "GETVAR('cur')":
				arg = row["a"] // written by the leading SETVAR('cur', a) of the same row
			case "5":
				arg = 5.0
			case "2.5":
				arg = 2.5
			case "'k'":
				arg = "k"
			}
			o[it.Alias] = vfValue(it.Tag, arg)
			if it.Cond != nil && !(row["a"].(float64) > *it.Cond) {
				o[it.Alias] = "none"
			}
		}
		want = append(want, o)
	}
	taken := func(it C14Item) int {
		if it.Cond == nil {
			return len(selected)
		}
		n := 0
		for _, row := range selected {
			if row["a"].(float64) > *it.Cond {
				n++
			}
		}
		return n
	}
	for _, it := range c.Items {
		n := taken(it)
		switch it.Q {
		case "async", "spinasync":
			if calls[it.Tag] != n || done[it.Tag] != n {
				res.Violation = fmt.Sprintf("%s\n  when Exec returned, the %s call tagged %s had been invoked %d times and completed %d times; expected %d (once per selected row) and all completed; arguments seen: %s", ctx, strings.ToUpper(it.Q), it.Tag, calls[it.Tag], done[it.Tag], n, val.JSON(argsSeen[it.Tag]))
				return res
			}
		case "once":
			exp := 1
			if n == 0 {
				exp = 0
			}
			if calls[it.Tag] != exp {
				res.Violation = fmt.Sprintf("%s\n  the ONCE call tagged %s was invoked %d times; expected %d", ctx, it.Tag, calls[it.Tag], exp)
				return res
			}
		case "":
			if calls[it.Tag] != n {
				res.Violation = fmt.Sprintf("%s\n  the unqualified call tagged %s was invoked %d times; expected %d", ctx, it.Tag, calls[it.Tag], n)
				return res
			}
		}
	}
	if c.Tail == "" || c.Tail == "nested" || c.Tail == "union-all" {
		got := out.Rows
		if c.Tail == "nested" {
			got = flattenOne(got)
		}
		if !seqEqual(got, normList(want)) {
			res.Violation = fmt.Sprintf("%s\n  expected %s\n  got      %s", ctx, val.JSON(normList(want)), val.JSON(out.Rows))
			return res
		}
	}
	// metamorphic: the same query with the qualifiers of value-bearing calls removed
	injNewRun(nil)
	sqlU := c.sql(false)
	plain := Run(c.doc(), sqlU, Opts{Vars: c.Cur})
	res.Execs++
	if !plain.OK() {
		res.Discard = "unqualified comparison query fails: " + plain.Describe()
		return res
	}
	// a ONCE call over a column shows one row's value everywhere, the unqualified call each row's own:
	// those columns (checked above against the invocation's argument) are left out of this comparison
	qRows, pRows := out.Rows, plain.Rows
	if len(onceArg) > 0 {
		strip := func(rows []any) []any {
			cp := val.Copy(rows).([]any)
			for _, r := range flattenOne(cp) {
				if m, ok := r.(map[string]any); ok {
					for _, it := range c.Items {
						if _, over := onceArg[it.Tag]; over && it.Q == "once" {
							delete(m, it.Alias)
						}
					}
				}
			}
			return cp
		}
		qRows, pRows = strip(qRows), strip(pRows)
	}
	if !seqEqual(qRows, pRows) {
		key := ""
		if c.Tail != "" {
			key = "async-under-distinct-orderby"
		}
		res.KnownKey = key
		res.Violation = fmt.Sprintf("%s\n  returned %s\n  the same query without qualifiers (%s)\n  returned %s", ctx, val.JSON(out.Rows), sqlU, val.JSON(plain.Rows))
		return res
	}
	return res
}

func (c *C14Case) doc() map[string]any {
	rows := val.Copy(c.Rows).([]any)
	d := map[string]any{"t": rows}
	if c.Tail == "nested" {
		h := len(rows) / 2
		d["nn"] = []any{val.Copy(rows[:h]), val.Copy(rows[h:])}
	}
	return d
}

func flattenOne(rows []any) []any {
	out := []any{}
	for _, r := range rows {
		if in, ok := r.([]any); ok {
			out = append(out, in...)
		} else {
			out = append(out, r)
		}
	}
	return out
}

func checkC14Imm(c *C14Case) Result {
	res := Result{Labels: []string{"immediate-function-rejection"}, NonTrivial: true}
	injReset(0, 0)
	sql := "SELECT a, " + c.Imm + " AS o FROM t"
	out := Run(map[string]any{"t": val.Copy(c.Rows)}, sql, Opts{})
	res.Execs++
	if out.Panic != "" {
		res.Violation = sql + "\n  " + out.Describe()
		return res
	}
	if out.OK() {
		if len(c.Rows) == 0 && !out.AtNew {
			// nothing was evaluated: rejection may legitimately happen at execution time only
			res.NonTrivial = false
			res.Labels = append(res.Labels, "immediate:no-rows")
			return res
		}
		res.Violation = fmt.Sprintf("%s over %s\n  an immediate function was accepted under the qualifier: %s", sql, val.JSON(c.Rows), out.Describe())
	}
	return res
}

func init() {
	Register(&Prop{
		ID:    "C14",
		Title: "Function execution strategies change timing, never results",
		Rule: "rapid draws a table (1-6 rows; the string column may hold NULL, which the instrumented function passes through), an optional WHERE, a select list of 1-5 calls of instrumented user functions with distinct tags under the " +
			"qualifiers none / ASYNC / SPINASYNC / SPIN / ONCE (at most one ONCE per function name; ONCE also over a column: one invocation, its argument the value of a selected row, every row shows that one value), and a release permutation; the harness owns the " +
			"completion order of every ASYNC/SPINASYNC/SPIN call through a gate (call i finishes only after the calls ranked before it in the drawn " +
			"permutation: arrival order, reversed and random permutations; a pump lets a sequential engine proceed). Observed when Exec returns: " +
			"every ASYNC and SPINASYNC call was invoked exactly once per selected row and has completed; every ASYNC column holds the value of the " +
			"pure function for that row; SPIN/SPINASYNC add no column; a ONCE call ran once and every row shows its value; unqualified calls ran once " +
			"per row (a quarter of the ASYNC / unqualified calls sit inside CASE WHEN a > c THEN call ELSE 'none' END and run only on the rows that take the branch); the whole result equals that of the same query without qualifiers (also with an ASYNC column under DISTINCT or as ORDER BY key, and over a multi-dimensional FROM); " +
			"ASYNC/SPIN/SPINASYNC on immediate functions (registered and built-in) are rejected with an error. Non-trivial: >=2 selected rows, >=1 " +
			"gated call and a completion order different from arrival order, or an immediate-function case.",
		Assumptions: []string{
			"no LIMIT/OFFSET (whether skipped rows are evaluated is unspecified); failing ASYNC functions belong to C10",
			"a ONCE call over a column may receive the value of any selected row (which one is unspecified); it must be invoked once and every row must show the function's value for that one argument",
			"goroutine schedules beyond the harness-owned completion order are whatever the Go scheduler yields",
		},
		Gen:          genC14,
		New:          func() any { return &C14Case{} },
		Check:        func(c any) Result { return checkC14(c.(*C14Case)) },
		Quick:        1200,
		Thorough:     40000,
		RaceQuick:    150,
		RaceThorough: 6000,
	})
}

// checkC14Grouped: a ONCE call in a grouped query is still invoked a single time per query, and every group
// shows that one value.
func checkC14Grouped(c *C14Case) Result {
	res := Result{Labels: []string{"once-in-a-grouped-query:" + c.Grouped}}
	it := c.Items[0]
	groups := map[string]float64{}
	var order []string
	for _, r := range c.Rows {
		row := r.(map[string]any)
		if c.Where != nil {
			if keep, err := sq.EvalBool(c.Where, row, nil); err != nil || !keep {
				continue
			}
		}
		k, _ := row["s"].(string)
		if _, ok := groups[k]; !ok {
			order = append(order, k)
		}
		groups[k]++
	}
	injNewRun(nil)
	epoch := injEpoch.Load()
	call := fmt.Sprintf("ONCE.%s(%s, %s)", it.Fn, sq.StrLit(fmt.Sprintf("%s#%d", it.Tag, epoch)), it.Arg)
	where := ""
	if c.Where != nil {
		where = " WHERE " + sq.Render(c.Where, nil)
	}
	var arg any = 5.0
	switch it.Arg {
	case "'k'":
		arg = "k"
	case "2.5":
		arg = 2.5
	}
	want := []any{}
	sql := ""
	if c.Grouped == "select" {
		sql = "SELECT s AS rs, " + call + " AS o0, COUNT(a) AS n FROM t" + where + " GROUP BY s"
		for _, k := range order {
			want = append(want, map[string]any{"rs": k, "o0": vfValue(it.Tag, arg), "n": groups[k]})
		}
	} else {
		// the call sits in HAVING: every group is judged with the one value
		sql = "SELECT s AS rs, COUNT(a) AS n FROM t" + where + " GROUP BY s HAVING " + call + " IS NOT NULL"
		for _, k := range order {
			want = append(want, map[string]any{"rs": k, "n": groups[k]})
		}
	}
	out := Run(c.doc(), sql, Opts{})
	res.Execs++
	inj.mu.Lock()
	calls := inj.tagCalls[it.Tag]
	inj.mu.Unlock()
	res.NonTrivial = len(order) >= 2
	ctx := fmt.Sprintf("%s over %s", sql, val.JSON(c.Rows))
	if !out.OK() {
		res.Violation = ctx + "\n  " + out.Describe()
		return res
	}
	exp := 1
	if len(order) == 0 {
		exp = 0
	}
	if calls != exp {
		res.Violation = fmt.Sprintf("%s\n  the ONCE call was invoked %d times over %d groups; expected %d", ctx, calls, len(order), exp)
		return res
	}
	if !val.MultisetEqual(out.Rows, normList(want)) {
		res.Violation = fmt.Sprintf("%s\n  expected %s\n  got      %s", ctx, val.JSON(normList(want)), val.JSON(out.Rows))
	}
	return res
}

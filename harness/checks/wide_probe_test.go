package checks

import (
	"fmt"
	"os"
	"sort"
	"testing"

	"pgregory.net/rapid"
	"verifharness/val"
)

// TestWideProbe (developer tool, VERIF_PROBE=1): tallies how the engine treats each wide construct
// and each fault-marker position in a fault-free run.
func TestWideProbe(t *testing.T) {
	if os.Getenv("VERIF_PROBE") == "" {
		t.Skip()
	}
	tally := map[string]int{}
	example := map[string]string{}
	rapid.Check(t, func(rt *rapid.T) {
		w := genWide(rt, nil)
		ms := w.markers()
		for plant := -1; plant < len(ms); plant++ {
			injReset(0, 0)
			sql := w.SQL(plant, "")
			out := Run(val.CopyMap(w.Doc), sql, w.opts())
			name := "none"
			if plant >= 0 {
				name = ms[plant].Name
			}
			status := "ok"
			if out.Panic != "" {
				status = "PANIC"
			} else if out.Err != "" {
				status = "error"
			}
			key := fmt.Sprintf("%-14s %-28s %s calls>0=%v", w.Construct, name, status, injCalls() > 0)
			tally[key]++
			if status != "ok" {
				if _, ok := example[key]; !ok {
					example[key] = sql + "  => " + out.Describe()[:min(len(out.Describe()), 200)]
				}
			}
		}
	})
	keys := make([]string, 0, len(tally))
	for k := range tally {
		keys = append(keys, k)
	}
	sort.Strings(keys)
	for _, k := range keys {
		fmt.Printf("%6d  %s\n", tally[k], k)
		if e, ok := example[k]; ok {
			fmt.Printf("          e.g. %s\n", e)
		}
	}
}

package checks

import (
	"fmt"
	"strings"
	"time"

	"pgregory.net/rapid"
	"verifharness/val"
)

// C10 - no query, option set or input can crash or hang the host process.
//
// Every case is executed in a child process (worker): a panic that escapes New/Exec is reported by
// the child, a fatal runtime error (stack overflow, panic in a background goroutine, deadlock) kills
// the child, a hang trips the watchdog. The parent confirms deaths and timeouts by re-running the
// case alone in fresh children.

type C10Case struct {
	Class  string         `json:"class"`
	Doc    map[string]any `json:"doc"`
	SQL    string         `json:"sql"`
	Opts   Opts           `json:"opts"`
	KSel   int            `json:"ksel,omitempty"`   // fault classes: k = 1 + KSel mod N (N from a fault-free probe run)
	Panic  int            `json:"panic,omitempty"`  // 0 error, 1 panic(error), 2 panic(string)
	Proc   int            `json:"procs,omitempty"`  // GOMAXPROCS of the child for this case (0 = default)
	Reexec int            `json:"reexec,omitempty"` // > 1: the same Query object is executed this many times
	Burst  int            `json:"burst,omitempty"`  // fault-burst: rounds under the fault plan before one fault-free run, all in one process
	From   int            `json:"from,omitempty"`   // fault-burst: every invocation from this one on fails
}

var c10Hostile = []string{
	"SELECT * FROM t NATURAL JOIN t2",
	"SELECT * FROM t x NATURAL JOIN t2 y",
	"SELECT * FROM t x CROSS JOIN t2 y",
	"SELECT * FROM t x JOIN t2 y USING (k)",
	"SELECT * FROM t x JOIN t2 y",
	"SELECT * FROM t, t2",
	"SELECT k FROM t UNION SELECT c FROM t2 UNION SELECT k FROM t",
	"SELECT k FROM t UNION ALL SELECT c FROM t2 UNION SELECT k FROM t UNION ALL SELECT 1 FROM dual",
	"(SELECT k FROM t) UNION (SELECT c FROM t2) ORDER BY k LIMIT 1",
	"SELECT k FROM t INTERSECT SELECT c FROM t2",
	"WITH c AS (SELECT * FROM c) SELECT * FROM c",
	"WITH RECURSIVE c AS (SELECT 1 AS n FROM dual UNION ALL SELECT n + 1 FROM c WHERE n < 3) SELECT * FROM c",
	"WITH a AS (SELECT * FROM b), b AS (SELECT * FROM a) SELECT * FROM a",
	"WITH a AS (SELECT * FROM t), b AS (SELECT * FROM a x JOIN b y ON x.k = y.k) SELECT * FROM b",
	"WITH c AS (SELECT k FROM t WHERE k IN (SELECT k FROM `<-c`)) SELECT * FROM c",
	"WITH a AS (SELECT k, items FROM t) SELECT k FROM `a[0]`",
	"WITH a AS (SELECT k, items FROM t) SELECT * FROM a.items",
	"WITH a AS (SELECT k, items FROM t) SELECT * FROM `a[7]`",
	"WITH a AS (SELECT k, items FROM t) SELECT * FROM `a[each].items`",
	"WITH a AS (SELECT k, items FROM t) SELECT * FROM `mix=>a.items`",
	"WITH a AS (SELECT k, items FROM t) SELECT k, (SELECT p FROM `<-a[0].items`) AS sb FROM t",
	"WITH a AS (SELECT k FROM t), b AS (SELECT * FROM `a[(0:1)]`) SELECT * FROM `b[0]`",
	"WITH a AS (SELECT k, items FROM t) SELECT * FROM t WHERE k IN (SELECT k FROM `<-a[each]`)",
	"WITH a AS (SELECT k, items FROM t) SELECT `a[0].k` AS v, `<-a.k` AS w FROM t",
	"SELECT DISTINCT (SELECT p FROM items), * FROM t",
	"SELECT DISTINCT *, (SELECT p FROM items) AS sb FROM t",
	"SELECT *, (SELECT p FROM items) AS sb FROM t ORDER BY sb",
	"SELECT * FROM t WHERE (SELECT p FROM items) IN (SELECT * FROM items)",
	"SELECT DISTINCT * FROM t WHERE EXISTS (SELECT * FROM items)",
	"SELECT (SELECT * FROM `<-t`) AS all_rows, * FROM t",
	"SELECT DISTINCT (SELECT * FROM `<-t`) AS x FROM t",
	"SELECT * FROM `t[5]`",
	"SELECT * FROM `t[0:9]`",
	"SELECT * FROM `t[-1]`",
	"SELECT * FROM `t[each:0]`",
	"SELECT * FROM `t[(0:9)]`",
	"SELECT * FROM `t.items[7].p`",
	"SELECT * FROM `nokey`",
	"SELECT * FROM `t.k`",
	"SELECT * FROM `t.s.x`",
	"SELECT `items[9]` FROM t",
	"SELECT `items[0].p[1]` FROM t",
	"SELECT [1, 2 FROM t",
	"SELECT 1, 2] FROM t",
	"SELECT [[1, 2] FROM t",
	"SELECT ']' , [ FROM t",
	"SELECT [1,[2,[3]] FROM t",
	"SELECT k FROM t WHERE k IN [1,2",
	"SELECT \"k FROM t",
	"SELECT 'k FROM t",
	"SELECT `k FROM t",
	"SELECT k FROM t WHERE s = 'a\\",
	"SELECT k FROM t LIMIT 99999999999999999999",
	"SELECT k FROM t LIMIT -1",
	"SELECT k FROM t LIMIT 1 OFFSET 99999999999",
	"SELECT k FROM t ORDER BY 1",
	"SELECT k FROM t ORDER BY nokey DESC",
	"SELECT k FROM t ORDER BY (SELECT 1 FROM dual)",
	"SELECT k FROM t GROUP BY 1",
	"SELECT SUM(s), AVG(s), MIN(items), MAX(nokey) FROM t",
	"SELECT SUM(k) FROM t GROUP BY nokey HAVING SUM(k) > 'x'",
	"SELECT COUNT(*) FROM t HAVING COUNT(*) > 0",
	"SELECT k FROM t HAVING k > 1",
	"SELECT k + s, k / 0, k % 0, k DIV 0, -s, ~s, !k FROM t",
	"SELECT k << 9999, k >> -1, 1e308 * 1e308 FROM t",
	"SELECT CASE k WHEN 1 THEN 'a' END FROM t",
	"SELECT CASE WHEN k THEN 1 END FROM t",
	"SELECT k FROM t WHERE k",
	"SELECT k FROM t WHERE NULL",
	"SELECT k FROM t WHERE s LIKE k",
	"SELECT k FROM t WHERE s LIKE '%\\'",
	"SELECT k FROM t WHERE s REGEXP '('",
	"SELECT k FROM t WHERE k BETWEEN 'a' AND NULL",
	"SELECT k FROM t WHERE k IN (SELECT p, q FROM items)",
	"SELECT k FROM t WHERE k IN ()",
	"SELECT k FROM t WHERE EXISTS (SELECT 1 FROM dual)",
	"SELECT k FROM t WHERE EXISTS (SELECT p FROM nokey)",
	"SELECT k FROM t WHERE EXISTS (SELECT p FROM k)",
	"SELECT k FROM t WHERE EXISTS (SELECT p FROM s)",
	"SELECT (SELECT p FROM k) FROM t",
	"SELECT (SELECT p FROM `<-nokey`) FROM t",
	"SELECT (SELECT p FROM `<-<-t`) FROM t",
	"SELECT IF(NULL, 1, 2), TO_LOWER(NULL), TO_UPPER(k), HASH(k, NULL), ENCODE(k, NULL), DECODE(NULL, 'hex') FROM t",
	"SELECT ELEMENTAT(items, -1), ELEMENTAT(items, 'x'), ELEMENTAT(k, 0), FIRST(k), LAST(s), UNWIND(k) FROM t",
	"SELECT DECODE('zz', 'hex'), DECODE('!!', 'base64'), DECODE('', 'base32'), DECODE('00', 'hex') FROM t",
	"SELECT CHANGETYPE(items, 'double'), CHANGETYPE(s, 'integer'), CHANGETYPE(k, NULL), CHANGETYPE(k) FROM t",
	"SELECT FUSE(k), FUSE(items), DEFAULTKEY(k), DEFAULTKEY(items) FROM t",
	"SELECT FUSE(FIRST(items)) AS f, * FROM t",
	"SELECT CONSTANT('x'), GETVAR('x'), SETVAR('x', 1) FROM t",
	"SELECT AWAIT(k), AWAIT(), AWAIT(ASYNC.vf_id(k)) FROM t",
	"SELECT ASYNC.nosuch(k), SPIN.nosuch(k), nosuch(k), ONCE.nosuch() FROM t",
	"SELECT GLOBAL.SUM(k), GLOBAL.vf_id((SELECT k FROM t)), SCOPED.vf_id(k) FROM t",
	"SELECT ASYNC.SUM(k), SPIN.COUNT(*), ONCE.RAISE('x') FROM t",
	"SELECT RAISE('x'), RAISE_WHEN(k, 'x'), RAISE_WHEN('a', 'b'), REPORT('x'), REPORT_WHEN(TRUE, 'y') FROM t",
	"SELECT * FROM (SELECT * FROM t)",
	"SELECT x.* FROM t x",
	"SELECT t.* FROM t",
	"SELECT * FROM t AS OF TIMESTAMP 1",
	"SELECT k INTO OUTFILE 'x' FROM t",
	"SELECT * FROM t x LEFT JOIN t2 y ON x.k = y.c INTO z",
	"SELECT * FROM t x JOIN t2 y ON x.nokey = y.nokey",
	"SELECT * FROM t x JOIN t2 y ON x.items = y.c",
	"SELECT * FROM t x PARALLEL JOIN t2 y ON x.items = y.c OR x.s > y.c",
	"SELECT * FROM t x PARALLEL HASH_JOIN t2 y ON x.s = y.c AND x.items = y.nokey",
	"SELECT * FROM t x JOIN t y ON x.k = y.k JOIN t z ON y.k = z.k",
	"SELECT * FROM t x JOIN (SELECT * FROM t2) ON x.k = c",
	"SELECT * FROM t x JOIN t2 y ON 1 = 1",
	"SELECT * FROM t x JOIN t2 y ON x.k",
	"SELECT * FROM t x JOIN t2 y ON (SELECT 1 FROM dual) = y.c",
	"SELECT * FROM t x PARALLEL JOIN t2 y ON x.k + y.c",
	"SELECT * FROM t x PARALLEL LEFT JOIN t2 y ON x.k",
	"SELECT * FROM t x PARALLEL RIGHT JOIN t2 y ON x.s LIKE y.c",
	"SELECT * FROM t x PARALLEL JOIN t2 y ON x.k IN (y.c, 'a')",
	"SELECT * FROM t x PARALLEL JOIN t2 y ON NOT x.k",
	"SELECT * FROM t x PARALLEL HASH_JOIN t2 y ON x.k + 1 = y.c",
	"SELECT * FROM t x PARALLEL JOIN t2 y ON x.k = y.c AND x.s",
	"SELECT * FROM t x PARALLEL JOIN t2 y ON x.items = y.c OR x.nokey < y.nokey",
	"SELECT * FROM t PARALLEL JOIN t2 ON t.k = t2.c",
	"SELECT SETVAR('x', 1) FROM t",
	"SELECT k, SETVAR('x', k), GETVAR('x') AS g FROM t",
	"SELECT GETVAR('x') AS g, SETVAR('x', GETVAR('x')) FROM t WHERE k > 0",
	"SELECT ONCE.vf_id(k) AS o, ASYNC.vf_id(k) AS a, SPIN.vf_id(k) FROM t ORDER BY a",
	"WITH c AS (SELECT k, SETVAR('x', k) FROM t) SELECT * FROM c x JOIN c y ON x.k = y.k",
	"INSERT INTO t VALUES (1)",
	"UPDATE t SET k = 1",
	"DELETE FROM t",
	"SELECT",
	"",
	";",
	"SELECT 1; SELECT 2",
	"SELECT 1 FROM dual WHERE 1 = 1",
	"SELECT * FROM dual",
	"SELECT k FROM dual",
	"SELECT * FROM `mix=>t.items`",
	"SELECT * FROM `distinct=>t`",
	"SELECT * FROM `nosuch=>t`",
	"SELECT * FROM `t::k`",
	"SELECT * FROM `t.{k|number, s|nosuch}`",
	"SELECT `{k|number}` FROM t",
	"SELECT * FROM `root`",
	"SELECT * FROM root",
	"SELECT * FROM `<-`",
	"SELECT `<-` FROM t",
	"SELECT `<-.t` FROM t",
	"SELECT * FROM t WHERE `<-.t[0].k` = k",
}

var c10Keywords = []string{"NATURAL", "UNION", "UNION ALL", "WITH RECURSIVE", "CROSS", "USING (k)", "PARALLEL", "HASH_JOIN", "STRAIGHT_JOIN", "LEFT", "RIGHT", "OUTER", "DISTINCT", "ASYNC.", "SPIN.",
	"SPINASYNC.", "ONCE.", "GLOBAL.", "AWAIT(", "EXISTS", "NOT", "IN", "(", ")", "[", "]", "'", "\"", "`", ",", "*", "NULL", "LIMIT", "OFFSET", "ORDER BY", "GROUP BY", "HAVING", "<-", "[0]", "[9]", "[each]",
	"[keep=>0:1]", "::", "=>", "|", "{", "}", "-- ", "/*", "#", ";", "\\", "\x00", "SELECT", "FROM", "WHERE", "AS", "ON", "AND", "OR", "=", "dual", "root."}

func tokenizeSQL(s string) []string {
	var toks []string
	cur := strings.Builder{}
	flush := func() {
		if cur.Len() > 0 {
			toks = append(toks, cur.String())
			cur.Reset()
		}
	}
	for _, r := range s {
		switch {
		case r == ' ' || r == '\n' || r == '\t':
			flush()
		case strings.ContainsRune("(),[]'`\"=<>*+-/;", r):
			flush()
			toks = append(toks, string(r))
		default:
			cur.WriteRune(r)
		}
	}
	flush()
	return toks
}

func mutateSQL(t *rapid.T, sql string, label string) string {
	toks := tokenizeSQL(sql)
	n := rapid.IntRange(1, 3).Draw(t, label+".nmut")
	for m := 0; m < n && len(toks) > 0; m++ {
		l := fmt.Sprintf("%s.m%d", label, m)
		i := rapid.IntRange(0, len(toks)-1).Draw(t, l+".at")
		switch rapid.IntRange(0, 6).Draw(t, l+".op") {
		case 0: // delete
			toks = append(toks[:i], toks[i+1:]...)
		case 1: // duplicate
			toks = append(toks[:i+1], toks[i:]...)
		case 2: // swap with neighbour
			if i+1 < len(toks) {
				toks[i], toks[i+1] = toks[i+1], toks[i]
			}
		case 3, 4: // insert a keyword / hostile token
			kw := rapid.SampledFrom(c10Keywords).Draw(t, l+".kw")
			toks = append(toks[:i], append([]string{kw}, toks[i:]...)...)
		case 5: // replace by another token of the same query
			j := rapid.IntRange(0, len(toks)-1).Draw(t, l+".from")
			toks[i] = toks[j]
		default: // truncate
			toks = toks[:i]
		}
	}
	return strings.Join(toks, " ")
}

func genC10Opts(t *rapid.T) Opts {
	b := rapid.IntRange(0, 7).Draw(t, "opts")
	return Opts{Wrapped: b&1 != 0, PG: b&2 != 0, Arrays: b&4 != 0}
}

// c10Doc: document whose keys match the hostile constants (t: k,s,v,items[p,q]; t2: c).
func genC10Doc(t *rapid.T) map[string]any {
	n := rapid.IntRange(0, 4).Draw(t, "nrows")
	rows := []any{}
	for r := 0; r < n; r++ {
		ni := rapid.IntRange(0, 3).Draw(t, fmt.Sprintf("r%d.ni", r))
		items := []any{}
		for i := 0; i < ni; i++ {
			items = append(items, map[string]any{"p": rapid.SampledFrom([]float64{1, 2, 5}).Draw(t, fmt.Sprintf("r%d.i%d.p", r, i)), "q": rapid.SampledFrom([]string{"a", "b"}).Draw(t, fmt.Sprintf("r%d.i%d.q", r, i))})
		}
		row := map[string]any{"k": rapid.SampledFrom([]float64{1, 2, 3}).Draw(t, fmt.Sprintf("r%d.k", r)), "s": rapid.SampledFrom([]string{"a", "b", "ab"}).Draw(t, fmt.Sprintf("r%d.s", r)),
			"v": rapid.SampledFrom([]float64{0.5, 2.5, -1}).Draw(t, fmt.Sprintf("r%d.v", r)), "items": items}
		if rapid.IntRange(0, 5).Draw(t, fmt.Sprintf("r%d.odd", r)) == 0 {
			row["k"] = nil
		}
		rows = append(rows, row)
	}
	n2 := rapid.IntRange(0, 3).Draw(t, "n2")
	t2 := []any{}
	for r := 0; r < n2; r++ {
		t2 = append(t2, map[string]any{"c": rapid.SampledFrom([]float64{1, 2, 3}).Draw(t, fmt.Sprintf("t2.r%d", r)), "k": float64(r)})
	}
	doc := map[string]any{"t": rows, "t2": t2}
	switch rapid.IntRange(0, 9).Draw(t, "docshape") {
	case 0:
		doc["t"] = map[string]any{"k": 1.0} // object where an array is expected
	case 1:
		doc["t"] = []any{1.0, "x", nil, []any{}} // scalars as rows
	case 2:
		doc["t"] = []any{[]any{map[string]any{"k": 1.0}}, []any{}} // nested arrays
	case 3:
		doc["t"] = nil
	}
	return doc
}

func genC10(t *rapid.T) any {
	c := &C10Case{}
	c.Class = rapid.SampledFrom([]string{"valid", "valid", "mutated", "mutated", "mutated", "bytes", "hostile", "hostile", "hostile-mutated", "fault", "fault", "fault", "cyclic-format", "join-on", "join-on", "scale", "fault-burst", "fault-burst", "dual-subquery", "stateful-builtins", "union-of-hostile", "parser-known-calls", "qualified-call-failing-argument"}).Draw(t, "class")
	c.Opts = genC10Opts(t)
	c.Proc = rapid.SampledFrom([]int{0, 0, 1, 2, 4}).Draw(t, "procs")
	if rapid.IntRange(0, 3).Draw(t, "reexec") == 0 {
		c.Reexec = rapid.IntRange(2, 3).Draw(t, "reexecn")
	}
	switch c.Class {
	case "valid", "mutated":
		w := genWide(t, nil)
		c.Doc = w.Doc
		w.Wrapped = c.Opts.Wrapped
		c.SQL = w.SQL(-1, "")
		if c.Class == "mutated" {
			c.SQL = mutateSQL(t, c.SQL, "mut")
		}
	case "bytes":
		c.Doc = genC10Doc(t)
		alpha := []string{"SELECT ", "FROM ", "t ", "*", " ", "(", ")", "[", "]", "'", "\"", "`", ",", "k", "1", "=", "<-", "\x00", "\xff", "é", "WHERE ", "\\", "\n", ";", "--", "/*", "*/", "{", "}", "|", ":", "=>", "."}
		n := rapid.IntRange(0, 14).Draw(t, "n")
		var sb strings.Builder
		for i := 0; i < n; i++ {
			sb.WriteString(rapid.SampledFrom(alpha).Draw(t, fmt.Sprintf("b%d", i)))
		}
		c.SQL = sb.String()
	case "hostile", "hostile-mutated":
		c.Doc = genC10Doc(t)
		c.SQL = rapid.SampledFrom(c10Hostile).Draw(t, "hostile")
		if c.Class == "hostile-mutated" {
			c.SQL = mutateSQL(t, c.SQL, "mut")
		}
	case "join-on":
		// ON clauses of every shape (non-boolean, ill-typed, missing columns, calls, subqueries) under
		// every join keyword: evaluation failures inside (PARALLEL) joins must come back as errors
		c.Doc = genC10Doc(t)
		operands := []string{"x.k", "y.c", "x.s", "x.v", "x.items", "x.nokey", "y.k", "1", "'a'", "NULL", "(x.k + y.c)", "vf_id(x.k)", "(SELECT 1 FROM dual)", "x.items[0].p", "TRUE"}
		opd := func(l string) string { return rapid.SampledFrom(operands).Draw(t, l) }
		var atom func(l string, depth int) string
		atom = func(l string, depth int) string {
			switch rapid.IntRange(0, 9).Draw(t, l+".form") {
			case 0:
				return opd(l + ".a")
			case 1:
				return opd(l+".a") + " + " + opd(l+".b")
			case 2:
				return opd(l+".a") + " LIKE " + opd(l+".b")
			case 3:
				return opd(l+".a") + " IN (" + opd(l+".b") + ", " + opd(l+".c") + ")"
			case 4:
				return "NOT " + opd(l+".a")
			case 5:
				return opd(l+".a") + " IS NULL"
			case 6:
				if depth > 0 {
					return "(" + atom(l+"L", depth-1) + rapid.SampledFrom([]string{" AND ", " OR "}).Draw(t, l+".conn") + atom(l+"R", depth-1) + ")"
				}
				fallthrough
			default:
				return opd(l+".a") + " " + rapid.SampledFrom([]string{"=", "=", "<", ">=", "!="}).Draw(t, l+".op") + " " + opd(l+".b")
			}
		}
		kw := rapid.SampledFrom([]string{"PARALLEL JOIN", "PARALLEL LEFT JOIN", "PARALLEL RIGHT JOIN", "PARALLEL HASH_JOIN", "PARALLEL LEFT HASH_JOIN", "JOIN", "LEFT JOIN", "HASH_JOIN", "STRAIGHT_JOIN"}).Draw(t, "kw")
		from := "t x " + kw + " t2 y"
		if c.Opts.Wrapped {
			from = "root.t x " + kw + " root.t2 y"
		}
		c.SQL = "SELECT * FROM " + from + " ON " + atom("on", 2)
	case "fault":
		// a failing / panicking function under every execution strategy, and failing evaluation
		// inside PARALLEL joins
		w := genWide(t, nil)
		c.Doc = w.Doc
		w.Wrapped = c.Opts.Wrapped
		ms := w.markers()
		plant := rapid.IntRange(0, maxInt(len(ms)-1, 0)).Draw(t, "plant")
		q := rapid.SampledFrom([]string{"vf_fail", "ASYNC.vf_fail", "SPIN.vf_fail", "SPINASYNC.vf_fail", "ONCE.vf_fail", "AWAIT(ASYNC.vf_fail(%s))", "vf_id(ASYNC.vf_fail(%s))"}).Draw(t, "strategy")
		c.SQL = w.SQL(plant, q)
		c.KSel = rapid.IntRange(0, 9).Draw(t, "ksel")
		c.Panic = rapid.IntRange(0, 2).Draw(t, "panicmode")
	case "fault-burst":
		// many failing / panicking invocations in one process (every invocation from the From-th on, Burst rounds),
		// then the same query without faults: whatever the failed calls left behind must not stop a later call
		w := genWide(t, nil)
		c.Doc = w.Doc
		w.Wrapped = c.Opts.Wrapped
		ms := w.markers()
		plant := rapid.IntRange(0, maxInt(len(ms)-1, 0)).Draw(t, "plant")
		q := rapid.SampledFrom([]string{"vf_fail", "ASYNC.vf_fail", "ASYNC.vf_fail", "SPIN.vf_fail", "SPINASYNC.vf_fail", "SPINASYNC.vf_fail", "ONCE.vf_fail", "AWAIT(ASYNC.vf_fail(%s))", "vf_id(ASYNC.vf_fail(%s))"}).Draw(t, "strategy")
		c.SQL = w.SQL(plant, q)
		c.From = rapid.IntRange(1, 3).Draw(t, "from")
		c.Burst = rapid.SampledFrom([]int{1, 2, 5, 20, 40, 70, 70, 130, 300}).Draw(t, "burst")
		c.Panic = rapid.IntRange(0, 2).Draw(t, "panicmode")
		c.Reexec = 0
	case "scale":
		// sizes far beyond the other classes: work and memory must stay proportional to the input
		root := ""
		if c.Opts.Wrapped {
			root = "root."
		}
		switch rapid.SampledFrom([]string{"many-inner-arrays", "many-inner-arrays", "deep-nesting", "long-expression", "many-branches", "many-rows", "huge-rows"}).Draw(t, "scale") {
		case "huge-rows":
			// thousands of rows (beyond the thresholds of size-dependent strategies), one of them holding a value the
			// query cannot read or add up: sorting, filtering, grouping, de-duplicating and joining them fails or
			// succeeds - in the caller's goroutine
			n := rapid.IntRange(2100, 6500).Draw(t, "n")
			badAt := rapid.IntRange(0, n-1).Draw(t, "badat")
			rows, rows2 := make([]any, 0, n), []any{}
			for i := 0; i < n; i++ {
				var bad any = map[string]any{"n": float64(i % 11)}
				if i == badAt {
					bad = "text"
				}
				rows = append(rows, map[string]any{"k": float64(i % 19), "s": fmt.Sprintf("s%d", i%7), "v": float64(i), "bad": bad})
				if i%97 == 0 {
					rows2 = append(rows2, map[string]any{"c": float64(i % 19), "k": float64(i)})
				}
			}
			c.Doc = map[string]any{"t": rows, "t2": rows2}
			c.SQL = fmt.Sprintf(rapid.SampledFrom([]string{"SELECT * FROM %[1]st ORDER BY `bad.n`", "SELECT * FROM %[1]st ORDER BY k, `bad.n` DESC", "SELECT v FROM %[1]st ORDER BY v DESC LIMIT 5", "SELECT k FROM %[1]st WHERE `bad.n` > 1",
				"SELECT v FROM %[1]st WHERE k IN (SELECT c FROM `<-t2`)", "SELECT v FROM %[1]st WHERE EXISTS (SELECT c FROM `<-t2` WHERE c = 3) AND k > 2", "SELECT v FROM %[1]st WHERE ONCE.vf_id(1) = 1 AND k < 5",
				"SELECT s, SUM(bad) AS x FROM %[1]st GROUP BY s", "SELECT s, COUNT(*) AS n FROM %[1]st GROUP BY s, k", "SELECT DISTINCT `bad.n` AS b FROM %[1]st", "SELECT DISTINCT k, s FROM %[1]st",
				"SELECT * FROM %[1]st x JOIN %[1]st2 y ON x.`bad.n` = y.c", "SELECT x.v FROM %[1]st x PARALLEL JOIN %[1]st2 y ON x.k = y.c AND x.`bad.n` < y.k", "SELECT v, ASYNC.vf_id(`bad.n`) AS a FROM %[1]st",
				"SELECT v FROM %[1]st WHERE s LIKE 's1%%' AND vf_fail(3, v) IS NULL"}).Draw(t, "q"), root)
			if strings.Contains(c.SQL, "<-") && c.Opts.Wrapped {
				c.SQL = strings.Replace(c.SQL, "`<-t2`", "`<-root.t2`", -1)
			}
		case "many-inner-arrays":
			n := rapid.IntRange(24, 64).Draw(t, "n")
			grid := []any{}
			for i := 0; i < n; i++ {
				in := []any{}
				for j := 0; j < rapid.IntRange(0, 2).Draw(t, fmt.Sprintf("g%d", i)); j++ {
					in = append(in, map[string]any{"a": float64(i%5 + j), "s": fmt.Sprintf("s%d", i%3), "items": []any{map[string]any{"p": 1.0}}})
				}
				grid = append(grid, in)
			}
			c.Doc = map[string]any{"grid": grid, "t2": []any{map[string]any{"c": 1.0}}}
			c.SQL = fmt.Sprintf(rapid.SampledFrom([]string{"SELECT * FROM %sgrid", "SELECT a, ASYNC.vf_id(a) AS v FROM %sgrid", "SELECT *, AWAIT(ASYNC.vf_id(a)) AS v FROM %sgrid", "SELECT *, (SELECT p FROM items) AS sb FROM %sgrid",
				"SELECT DISTINCT * FROM %sgrid", "SELECT a FROM %sgrid WHERE a > 1 ORDER BY a DESC LIMIT 3", "SELECT * FROM `mix=>%sgrid`", "SELECT s, COUNT(*) AS n, SPINASYNC.vf_id(s) FROM %sgrid GROUP BY s",
				"SELECT *, ONCE.vf_id(1) AS o, SPIN.vf_id(a) FROM %sgrid", "SELECT * FROM %sgrid WHERE EXISTS (SELECT p FROM items WHERE p = 1)"}).Draw(t, "q"), root)
		case "deep-nesting":
			depth := rapid.IntRange(5, 9).Draw(t, "depth")
			var build func(d int) any
			build = func(d int) any {
				if d == 0 {
					return []any{map[string]any{"a": 1.0}, map[string]any{"a": 2.0}}
				}
				return []any{build(d - 1), build(d - 1)}
			}
			c.Doc = map[string]any{"deep": build(depth)}
			c.SQL = fmt.Sprintf(rapid.SampledFrom([]string{"SELECT * FROM %sdeep", "SELECT a, ASYNC.vf_id(a) AS v FROM %sdeep WHERE a > 1", "SELECT * FROM `mix=>%sdeep`", "SELECT DISTINCT a FROM %sdeep"}).Draw(t, "q"), root)
		case "long-expression":
			c.Doc = genC10Doc(t)
			n := rapid.IntRange(100, 600).Draw(t, "n")
			var sb strings.Builder
			switch rapid.IntRange(0, 3).Draw(t, "form") {
			case 0:
				for i := 0; i < n; i++ {
					if i > 0 {
						sb.WriteString(" OR ")
					}
					fmt.Fprintf(&sb, "k = %d", i)
				}
				c.SQL = "SELECT k FROM " + root + "t WHERE " + sb.String()
			case 1:
				c.SQL = "SELECT k FROM " + root + "t WHERE " + strings.Repeat("(", n) + "k = 1" + strings.Repeat(")", n)
			case 2:
				for i := 0; i < n; i++ {
					if i > 0 {
						sb.WriteString(", ")
					}
					fmt.Fprintf(&sb, "%d", i)
				}
				c.SQL = "SELECT k FROM " + root + "t WHERE k IN (" + sb.String() + ")"
			default:
				for i := 0; i < n; i++ {
					fmt.Fprintf(&sb, " + %d", i)
				}
				c.SQL = "SELECT k" + sb.String() + " AS e FROM " + root + "t"
			}
		case "many-branches":
			c.Doc = genC10Doc(t)
			n := rapid.IntRange(10, 40).Draw(t, "n")
			var parts []string
			if rapid.Bool().Draw(t, "ctes") {
				prev := root + "t"
				for i := 0; i < n; i++ {
					parts = append(parts, fmt.Sprintf("c%d AS (SELECT * FROM %s)", i, prev))
					prev = fmt.Sprintf("c%d", i)
				}
				c.SQL = "WITH " + strings.Join(parts, ", ") + " SELECT * FROM " + prev
			} else {
				for i := 0; i < n; i++ {
					parts = append(parts, fmt.Sprintf("SELECT k, %d AS i FROM %st", i%3, root))
				}
				c.SQL = strings.Join(parts, rapid.SampledFrom([]string{" UNION ", " UNION ALL "}).Draw(t, "op"))
			}
		default:
			n := rapid.IntRange(200, 600).Draw(t, "n")
			rows, rows2 := []any{}, []any{}
			for i := 0; i < n; i++ {
				rows = append(rows, map[string]any{"k": float64(i % 17), "s": fmt.Sprintf("s%d", i%7), "v": float64(i) / 2, "items": []any{}})
				if i%3 == 0 {
					rows2 = append(rows2, map[string]any{"c": float64(i % 17), "k": float64(i)})
				}
			}
			c.Doc = map[string]any{"t": rows, "t2": rows2}
			c.SQL = fmt.Sprintf(rapid.SampledFrom([]string{"SELECT * FROM %[1]st x JOIN %[1]st2 y ON x.k = y.c", "SELECT * FROM %[1]st x PARALLEL LEFT JOIN %[1]st2 y ON x.k < y.c AND x.v > y.k", "SELECT s, COUNT(*) AS n, SUM(v) AS sv FROM %[1]st GROUP BY s",
				"SELECT DISTINCT k, s FROM %[1]st ORDER BY k DESC, s LIMIT 10 OFFSET 5", "SELECT k, ASYNC.vf_id(v) AS a, SPINASYNC.vf_id(s) FROM %[1]st WHERE k IN (SELECT c FROM `<-t2`)", "SELECT k FROM %[1]st WHERE s LIKE '%%1%%' OR v BETWEEN 3 AND 90"}).Draw(t, "q"), root)
			if strings.Contains(c.SQL, "<-") && c.Opts.Wrapped {
				c.SQL = strings.Replace(c.SQL, "`<-t2`", "`<-root.t2`", 1)
			}
		}
	case "stateful-builtins":
		// built-ins that touch per-query state (variables, constants, the unreported-error channel), with and
		// without the option that provides that state, always executed several times on one Query object
		c.Doc = genC10Doc(t)
		c.Reexec = rapid.IntRange(2, 3).Draw(t, "sb.reexec")
		pool := []string{"SETVAR('x', k)", "GETVAR('x') AS g", "SETVAR('y', GETVAR('x'))", "GETVAR('nokey') AS n", "CONSTANT('pi') AS c", "REPORT('note')", "REPORT_WHEN(k > 1, 'big')", "RAISE_WHEN(k > 100, 'never')",
			"ONCE.GETVAR('x') AS og", "GLOBAL.vf_id(k) AS gl", "ONCE.vf_id(k) AS oi", "k", "SETVAR(s, v)", "SETVAR(NULL, 1)", "GETVAR(k) AS gk", "TIMESTAMP() AS ts",
			// a qualified call among the arguments of a call of the same function under the same qualifier (memo / lock re-entry)
			"ONCE.vf_id(ONCE.vf_id(k)) AS oo", "GLOBAL.vf_id(GLOBAL.vf_id(1)) AS gg", "ONCE.CONCAT(ONCE.CONCAT('v', 1), '.', 0) AS oc", "ONCE.vf_id(GLOBAL.vf_id(k)) AS ogl",
			"ASYNC.vf_id(ASYNC.vf_id(k)) AS aa", "SPIN.vf_id(SPIN.vf_id(k))", "ONCE.vf_id((SELECT ONCE.vf_id(1) AS z FROM dual)) AS osq", "ONCE.GETVAR(ONCE.GETVAR('x')) AS ogg", "ONCE.vf_id(ONCE.vf_id(ONCE.vf_id(2))) AS ooo"}
		n := rapid.IntRange(1, 4).Draw(t, "sb.n")
		perm := rapid.Permutation(pool).Draw(t, "sb.items")
		from := "t"
		if c.Opts.Wrapped {
			from = "root.t"
		}
		c.SQL = "SELECT " + strings.Join(perm[:n], ", ") + " FROM " + from
		switch rapid.IntRange(0, 3).Draw(t, "sb.shape") {
		case 0:
			c.SQL = "SELECT * FROM (" + c.SQL + ") x"
		case 1:
			c.SQL = "SELECT k, (" + strings.Replace(c.SQL, " FROM "+from, " FROM dual", 1) + ") AS sb FROM " + from
		}
	case "qualified-call-failing-argument":
		// ASYNC / SPINASYNC / SPIN / ONCE calls whose ARGUMENT fails on some (or every) row - before the call
		// itself is started: the query fails or the error is reported, but it returns
		c.Doc = genC10Doc(t)
		qual := rapid.SampledFrom([]string{"ASYNC", "ASYNC", "SPINASYNC", "SPIN", "ONCE", "GLOBAL"}).Draw(t, "qf.qual")
		fn := rapid.SampledFrom([]string{"vf_id(%s)", "CONCAT(%s, s)", "CONCAT(s, %s)", "IF(k > 0, %s, 0)", "vf_mul(k, %s)", "FIRST(ARRAY(%s))"}).Draw(t, "qf.fn")
		bad := rapid.SampledFrom([]string{"RAISE_WHEN(k > 1, 'boom')", "RAISE_WHEN(k >= 0, 'always')", "k + s", "(NOT 5)", "vf_fail(k)", "vf_panic(k)", "`s[0]`", "`nokey[each].x`", "CHANGETYPE(s, 'integer')",
			"ELEMENTAT(ARRAY(1), 7)", "(SELECT k + s AS z FROM dual)", "nosuchfn(k)", "ASYNC.vf_id(k + s)", "k / (k - k) + s", "DECODE(s, 'nobase')"}).Draw(t, "qf.bad")
		call := qual + "." + fmt.Sprintf(fn, bad)
		if rapid.IntRange(0, 2).Draw(t, "qf.alias") != 0 {
			call += " AS x"
		}
		from := "t"
		if c.Opts.Wrapped {
			from = "root.t"
		}
		switch rapid.IntRange(0, 6).Draw(t, "qf.pos") {
		case 0, 1:
			c.SQL = fmt.Sprintf("SELECT k, %s FROM %s", call, from)
		case 2:
			c.SQL = fmt.Sprintf("WITH c AS (SELECT k, %s FROM %s) SELECT * FROM c", call, from)
		case 3:
			c.SQL = fmt.Sprintf("SELECT * FROM (SELECT k, %s FROM %s) d", call, from)
		case 4:
			c.SQL = fmt.Sprintf("SELECT k, s FROM %s UNION ALL SELECT k, %s FROM %s", from, call, from)
		case 5:
			c.SQL = fmt.Sprintf("SELECT k, (SELECT %s FROM dual) AS sb FROM %s", call, from)
		default:
			c.SQL = fmt.Sprintf("SELECT k FROM %s WHERE %s IS NULL", from, strings.TrimSuffix(call, " AS x"))
		}
	case "parser-known-calls":
		// calls and special forms the SQL grammar knows but the engine may not implement (aggregates, window
		// functions, keyword-argument built-ins), in every clause: implemented or rejected, never a crash
		c.Doc = genC10Doc(t)
		call := rapid.SampledFrom([]string{"STD(k)", "STDDEV(k)", "STDDEV_POP(k)", "STDDEV_SAMP(k)", "VARIANCE(k)", "VAR_POP(k)", "VAR_SAMP(k)", "BIT_AND(k)", "BIT_OR(k)", "BIT_XOR(k)",
			"GROUP_CONCAT(s)", "GROUP_CONCAT(DISTINCT s ORDER BY s SEPARATOR '-')", "COUNT(DISTINCT k)", "COUNT(DISTINCT k, s)", "SUM(DISTINCT k)", "ANY_VALUE(k)", "JSON_ARRAYAGG(k)", "JSON_OBJECTAGG(s, k)",
			"ROW_NUMBER() OVER ()", "SUM(k) OVER (PARTITION BY s)", "LAG(k) OVER (ORDER BY k)", "NTILE(2) OVER ()", "FIRST_VALUE(k) OVER ()", "RANK() OVER (ORDER BY k)", "NTH_VALUE(k, 2) OVER ()",
			"SUBSTRING(s FROM 1 FOR 2)", "TRIM(BOTH 'a' FROM s)", "EXTRACT(YEAR FROM s)", "CAST(k AS CHAR)", "CONVERT(k, CHAR)", "CONVERT(s USING utf8)", "s COLLATE utf8_bin", "INTERVAL 1 DAY + s",
			"MATCH(s) AGAINST('a')", "CURRENT_TIMESTAMP", "CURRENT_DATE()", "LOCATE('a', s)", "WEIGHT_STRING(s)", "CHAR(65)", "TIMESTAMPADD(DAY, 1, s)", "TIMESTAMPDIFF(DAY, s, s)", "VALUES(k)", "DEFAULT(k)",
			"JSON_EXTRACT(s, '$.a')", "s REGEXP 'a'", "k MEMBER OF ('[1]')", "EXISTS (SELECT STD(k) FROM t)", "MAX(STD(k))", "STD(MAX(k))", "ONCE.STD(k)", "ASYNC.VARIANCE(k)", "STD(*)", "STD()", "COUNT()", "MIN(k, s)"}).Draw(t, "pk.call")
		from := "t"
		if c.Opts.Wrapped {
			from = "root.t"
		}
		switch rapid.IntRange(0, 7).Draw(t, "pk.pos") {
		case 0, 1:
			c.SQL = fmt.Sprintf("SELECT %s AS x FROM %s", call, from)
		case 2:
			c.SQL = fmt.Sprintf("SELECT s, %s AS x FROM %s GROUP BY s", call, from)
		case 3:
			c.SQL = fmt.Sprintf("SELECT k FROM %s WHERE %s > 1", from, call)
		case 4:
			c.SQL = fmt.Sprintf("SELECT s, COUNT(*) AS n FROM %s GROUP BY s HAVING %s > 0", from, call)
		case 5:
			c.SQL = fmt.Sprintf("SELECT k, (SELECT %s AS x FROM `<-t2`) AS sb FROM %s", call, from)
		case 6:
			c.SQL = fmt.Sprintf("SELECT k FROM %s ORDER BY %s", from, call)
		default:
			c.SQL = fmt.Sprintf("WITH c AS (SELECT %s AS x FROM %s) SELECT * FROM c UNION ALL SELECT %s AS x FROM %s", call, from, call, from)
		}
	case "union-of-hostile":
		// a well-formed arm joined by UNION [ALL] with a hostile one, on either side (what fails in an arm must
		// come back as the error of the statement, whichever arm it is and however the arms are evaluated)
		c.Doc = genC10Doc(t)
		good := rapid.SampledFrom([]string{"SELECT k FROM t", "SELECT k, s FROM t WHERE k > 1", "SELECT c AS k FROM t2"}).Draw(t, "good")
		var arms []string
		for len(arms) < 40 {
			h := rapid.SampledFrom(c10Hostile).Draw(t, fmt.Sprintf("arm%d", len(arms)))
			if strings.HasPrefix(strings.ToUpper(h), "SELECT") && !strings.Contains(strings.ToUpper(h), "UNION") {
				arms = append(arms, h)
				break
			}
			arms = append(arms, "")
		}
		bad := arms[len(arms)-1]
		if bad == "" {
			bad = "SELECT * FROM t NATURAL JOIN t2"
		}
		op := rapid.SampledFrom([]string{" UNION ", " UNION ALL "}).Draw(t, "uop")
		switch rapid.IntRange(0, 2).Draw(t, "side") {
		case 0:
			c.SQL = good + op + bad
		case 1:
			c.SQL = bad + op + good
		default:
			c.SQL = good + op + good + op + bad
		}
	case "dual-subquery":
		// a table-less scalar subquery whose select list mixes comparisons, nested subqueries, back references
		// and `*` in any order, under outer queries that format, hash, sort or group what it returns
		c.Doc = genC10Doc(t)
		pool := []string{"1 = 1 AS flag", "*", "*", "(SELECT 2 FROM dual) AS n", "'a' AS s", "`<-.k` AS ok", "1 + 1 AS two", "1 IN (1, 2) AS m", "(SELECT 1 = 1 AS f2, * FROM dual) AS deep", "`<-.s` = 'a' AS cmp", "EXISTS (SELECT 1 FROM dual) AS ex"}
		n := rapid.IntRange(1, 4).Draw(t, "nitems")
		perm := rapid.Permutation(pool).Draw(t, "items")
		sub := "(SELECT " + strings.Join(perm[:n], ", ") + " FROM dual)"
		from := "t"
		if c.Opts.Wrapped {
			from = "root.t"
		}
		c.SQL = fmt.Sprintf(rapid.SampledFrom([]string{"SELECT DISTINCT %s AS x FROM %s", "SELECT %s AS x, * FROM %s", "SELECT DISTINCT *, %s AS x FROM %s", "SELECT CONCAT(%s) AS x FROM %s", "SELECT HASH(%s, 'md5') AS x FROM %s",
			"SELECT %s AS x FROM %s ORDER BY x", "SELECT k, %s AS x FROM %s ORDER BY x DESC LIMIT 2", "SELECT ENCODE(%s, 'hex') AS x FROM %s", "SELECT COUNT(*) AS n FROM %[2]s GROUP BY %[1]s", "SELECT k FROM %[2]s WHERE %[1]s IS NOT NULL",
			"SELECT DISTINCT %s AS x FROM %s UNION SELECT k FROM t2"}).Draw(t, "outer"), sub, from)
	case "cyclic-format":
		w := genWide(t, []string{"sel-sub", "sel-sub-root", "star-sub", "exists", "in-sub"})
		c.Doc = w.Doc
		w.Wrapped = c.Opts.Wrapped
		sql := w.SQL(-1, "")
		switch rapid.IntRange(0, 3).Draw(t, "form") {
		case 0:
			sql = strings.Replace(sql, "SELECT ", "SELECT DISTINCT *, ", 1)
		case 1:
			sql = strings.Replace(sql, "SELECT ", "SELECT DISTINCT ", 1)
			sql = strings.Replace(sql, " FROM ", ", * FROM ", 1)
		case 2:
			sql = strings.Replace(sql, "SELECT ", "SELECT *, ", 1) + " ORDER BY sb"
		default:
			sql = strings.Replace(sql, "SELECT ", "SELECT *, ", 1) + " ORDER BY items"
		}
		c.SQL = sql
	}
	return c
}

var c10Workers = map[int]*Worker{}

func c10Worker(procs int) *Worker {
	w, ok := c10Workers[procs]
	if !ok {
		var env []string
		if procs > 0 {
			env = append(env, fmt.Sprintf("VERIF_GOMAXPROCS=%d", procs))
		}
		w = NewWorker(false, env...)
		c10Workers[procs] = w
	}
	return w
}

const c10Timeout = 15 * time.Second

func checkC10(c *C10Case) Result {
	res := Result{}
	res.Labels = append(res.Labels, "class:"+c.Class, "options:"+c.Opts.String())
	job := &WJob{Kind: "query", Doc: docJSON(c.Doc), SQL: c.SQL, Opts: c.Opts, Reexec: c.Reexec}
	if c.Reexec > 1 {
		res.Labels = append(res.Labels, "same-query-object-executed-repeatedly")
	}
	if strings.Contains(c.SQL, "SPIN") || strings.Contains(c.SQL, "ASYNC") {
		job.SettleMs = 15
	}
	w := c10Worker(c.Proc)
	if c.Class == "fault-burst" {
		job.Burst, job.FailAt, job.Panic = c.Burst, -int64(c.From), c.Panic
		res.Labels = append(res.Labels, fmt.Sprintf("burst:mode%d", c.Panic), "burst:rounds-"+bucket(c.Burst))
	}
	if c.Class == "fault" {
		// fault-free probe to learn the number of invocations
		probe := *job
		o := w.Do(&probe, c10Timeout)
		res.Execs++
		if v := c10Judge(c, w, &probe, o, &res, "fault-free run"); v != "" {
			res.Violation = v
			return res
		}
		n := int64(0)
		if o.Res != nil {
			n = o.Res.Calls
		}
		if n == 0 {
			res.Labels = append(res.Labels, "fault:never-invoked")
			return res
		}
		job.FailAt = 1 + int64(c.KSel)%n
		job.Panic = c.Panic
		res.Labels = append(res.Labels, fmt.Sprintf("fault:mode%d", c.Panic))
	}
	o := w.Do(job, c10Timeout)
	res.Execs++
	if v := c10Judge(c, w, job, o, &res, ""); v != "" {
		res.Violation = v
		return res
	}
	if o.Res != nil {
		res.Labels = append(res.Labels, "outcome:"+o.Res.Status)
		parsed := o.Res.Status == "ok" || !strings.Contains(o.Res.Detail, "syntax error")
		if parsed {
			res.Labels = append(res.Labels, "reaches-build")
		}
		res.NonTrivial = parsed || c.Class == "fault" || c.Class == "fault-burst" || c.Class == "cyclic-format" || c.Class == "mutated" || c.Class == "hostile-mutated" || c.Class == "scale" || c.Class == "dual-subquery" || c.Class == "stateful-builtins" || c.Class == "union-of-hostile" || c.Class == "parser-known-calls" || c.Class == "qualified-call-failing-argument"
	}
	return res
}

// c10Judge turns a worker outcome into a violation text ("" = the call returned control).
func c10Judge(c *C10Case, w *Worker, job *WJob, o WOutcome, res *Result, what string) string {
	ctx := fmt.Sprintf("query %q (options %s", c.SQL, c.Opts)
	if job.Burst > 0 {
		ctx += fmt.Sprintf(", %d rounds in one process in which every vf_fail invocation from the %d. on is %s, then one run without faults", job.Burst, -job.FailAt, []string{"returning an error", "panicking with an error", "panicking with a string"}[job.Panic])
	} else if job.FailAt > 0 {
		ctx += fmt.Sprintf(", vf_fail %s at invocation %d", []string{"returning an error", "panicking with an error", "panicking with a string"}[job.Panic], job.FailAt)
	}
	ctx += ") on " + truncate(val.JSON(c.Doc), 400)
	if what != "" {
		ctx = what + " of " + ctx
	}
	switch {
	case o.Harness != "":
		res.Harness = o.Harness
		return ""
	case o.Res != nil:
		if o.Res.Status == "panic" {
			return "a panic escaped New/Exec: " + ctx + "\n  " + truncate(o.Res.Detail, 1500)
		}
		return ""
	case o.Died:
		// confirm in a fresh child, alone
		again := *job
		fresh := NewWorker(false, w.env...)
		defer fresh.Kill()
		o2 := fresh.Do(&again, c10Timeout)
		res.Execs++
		if o2.Died {
			return "the process was killed: " + ctx + "\n  " + fatalSummary(o2.Stderr)
		}
		if o2.Res != nil && o2.Res.Status == "panic" {
			return "a panic escaped New/Exec: " + ctx + "\n  " + truncate(o2.Res.Detail, 1500)
		}
		res.Labels = append(res.Labels, "death-not-reproduced")
		fmt.Printf("C10: child died but the case did not reproduce alone: %s\n%s\n", ctx, fatalSummary(o.Stderr))
		return ""
	case o.Timeout:
		timeouts := 1
		for i := 0; i < 2; i++ {
			again := *job
			fresh := NewWorker(false, w.env...)
			o2 := fresh.Do(&again, c10Timeout)
			fresh.Kill()
			res.Execs++
			if o2.Timeout {
				timeouts++
			}
		}
		if timeouts == 3 {
			return fmt.Sprintf("no answer within %s in three fresh processes (hang): %s\n  %s", c10Timeout, ctx, truncate(fatalSummary(o.Stderr), 1500))
		}
		res.Labels = append(res.Labels, "timeout-not-reproduced")
		return ""
	}
	return ""
}

func init() {
	Register(&Prop{
		ID:    "C10",
		Title: "No query, option set or input can crash or hang the host process",
		Rule: "[Dimensions added in rounds p-r of the seeded-defect evaluation: scale class huge-rows (2100-6500 rows, one unreadable value, ORDER BY / WHERE with sub queries, EXISTS, ONCE / GROUP BY / DISTINCT / joins / ASYNC); qualified calls nested in calls of the same function under the same qualifier.] " +
			"every case runs in a child process. Classes: valid = the 47 wide constructs (incl. multi-dimensional selector items and FUSE) under all 2^3 option sets; mutated = 1-3 token mutations " +
			"(delete, duplicate, swap, insert one of 60 keywords/brackets/quotes/qualifiers, replace, truncate) of a valid query; bytes = strings over an " +
			"alphabet of SQL fragments, quotes, brackets, NUL, invalid UTF-8; hostile = 134 curated constants (NATURAL/CROSS/USING joins, chained UNION, " +
			"self- and mutually-referencing CTEs, unbalanced brackets/quotes, out-of-range FROM paths, wrong-typed function arguments, qualifiers on " +
			"unknown/aggregate/immediate functions, DML, empty input, selector syntax in FROM) on documents of regular and irregular shape, also mutated; " +
			"fault = a planted function that returns an error / panics with an error / panics with a string at invocation k under no qualifier, ASYNC, " +
			"SPIN, SPINASYNC, ONCE, AWAIT and nested in another call; fault-burst = 1-300 rounds of one query in one process during which every invocation of the planted function from the 1st-3rd on fails in one of the three ways, followed by the same query without faults (failed calls must not leave anything behind that stops later ones); cyclic-format = DISTINCT / ORDER BY over select lists mixing a subquery with `*`; dual-subquery = table-less scalar subqueries whose select list mixes comparisons, nested subqueries, back references and `*` in any order under DISTINCT / ORDER BY / CONCAT / HASH / GROUP BY / UNION; stateful-builtins = SETVAR / GETVAR / CONSTANT / REPORT / RAISE_WHEN / ONCE / GLOBAL calls with and without the option providing their state, always re-executed; scale = 24-64 inner arrays, nesting depth 5-9, 100-600-term expressions / parentheses / IN lists, 10-40 CTEs or UNION branches, 200-600 rows (the child's resident set is watched: growth beyond 3 GiB counts like a timeout); join-on = ON clauses of every shape (non-boolean, ill-typed, missing columns, function calls, subqueries, AND/OR trees) under every join keyword incl. PARALLEL. " +
			"GOMAXPROCS of the child in {default,1,2,4}; a quarter of the cases execute the same Query object two or three times. Oracle: the child answers ok or error and stays alive (a panic escaping New/Exec, a process " +
			"death confirmed in a fresh child, or a 15 s timeout confirmed in three fresh children is a violation). Non-trivial: the query gets past " +
			"the parser, or is a mutation, or belongs to the fault / cyclic-format class.",
		Assumptions: []string{
			"'never hangs' can only be refuted: a confirmed 15 s timeout for work that takes microseconds",
			"a returned error is always acceptable here",
			"a hang or crash inside the third-party SQL parser would be reported here as well",
		},
		Gen:         genC10,
		New:         func() any { return &C10Case{} },
		Check:       func(c any) Result { return checkC10(c.(*C10Case)) },
		Quick:       4000,
		Thorough:    100000,
		FuzzTargets: []string{"FuzzNewExec"},
		FuzzSeconds: 240,
	})
}

package checks

import (
	"fmt"
	"strings"

	"pgregory.net/rapid"
	"verifharness/sq"
	"verifharness/val"
)

// C06 - DISTINCT removes exactly the duplicates; UNION [ALL] concatenates [and dedups].

type UnionBranch struct {
	Table string `json:"table"`
	Where *sq.E  `json:"where,omitempty"`
	All   bool   `json:"all,omitempty"` // operator joining this branch to the ones before it (ignored for the first)
	// Suffix, when set, renames every output column of this branch (<name><suffix>): rows of different
	// branches then differ in their column names
	Suffix string `json:"suffix,omitempty"`
	// Win: the branch is parenthesised and carries its own LIMIT Lim OFFSET Off (a window of its own
	// source-order sequence, taken before the union operator sees the rows)
	Win bool `json:"win,omitempty"`
	Lim int  `json:"lim,omitempty"`
	Off int  `json:"off,omitempty"`
}

// UnionNest: branches At and At+1 stand in parentheses as a union of their own, optionally with a window of
// its own: `( b_At op b_At+1 [LIMIT Lim [OFFSET Off]] )`; op is the operator of branch At+1, the group is joined
// to what precedes it by the operator of branch At.
type UnionNest struct {
	At     int  `json:"at"`
	HasLim bool `json:"has_lim,omitempty"`
	Lim    int  `json:"lim,omitempty"`
	Off    int  `json:"off,omitempty"`
}

type C06Case struct {
	// Latin1: before anything is computed, every string of the document is re-encoded rune by rune as one byte per
	// rune below U+0100 (ISO 8859-1): Go strings that are not valid UTF-8. "é" and "è" then are one byte each,
	// different from one another and from every other text; rows holding them are duplicates only if the bytes agree
	Latin1 bool `json:"latin1,omitempty"`
	// Scale: table t is expanded to 200-700 rows by this recipe (first column spread over many values) before anything
	// is computed: de-duplication in blocks / batches must keep exactly the first occurrences
	Scale    *Scale         `json:"scale,omitempty"`
	Nest     *UnionNest     `json:"nest,omitempty"`
	Doc      map[string]any `json:"doc"`
	Env      Envelope       `json:"env,omitempty"` // irrelevant options / table representation / repeated execution
	Mode     string         `json:"mode"`          // distinct | union
	Items    []SelItem      `json:"items"`
	Where    *sq.E          `json:"where,omitempty"`
	Branches []UnionBranch  `json:"branches,omitempty"`
	// OrderBy (distinct mode): ORDER BY on the first selected column only - a key that does not determine the
	// row, so equal rows need not end up next to each other; each distinct row still appears exactly once
	OrderBy  string `json:"order_by,omitempty"`
	HasLimit bool   `json:"has_limit,omitempty"`
	Limit    int    `json:"limit,omitempty"`
	// Offset > 0: the trailing LIMIT carries an OFFSET (spelling OffsetComma: LIMIT m, n); also drawn for
	// SELECT DISTINCT without ORDER BY, where the window is cut out of the first-occurrence sequence
	Offset      int    `json:"offset,omitempty"`
	OffsetComma bool   `json:"offset_comma,omitempty"`
	SQL         string `json:"sql"`
	// distinct-agg mode
	AggCol string `json:"agg_col,omitempty"`
	AggSum bool   `json:"agg_sum,omitempty"`
	SumCol string `json:"sum_col,omitempty"`
	// union mode: every branch is an aggregate query ("whole" = all-aggregate list without GROUP BY,
	// "grouped" = key + aggregates with GROUP BY) with the same textual select list
	Agg    string `json:"agg,omitempty"`
	AggKey string `json:"agg_key,omitempty"`
	// GoTypes: integer columns (of every table) handed over as native Go values, incl. int64 / uint64 beyond
	// 2^53 (distinct values that float64 cannot tell apart must stay distinct rows)
	GoTypes map[string]string `json:"go_types,omitempty"`
}

func init() {
	Register(&Prop{
		ID:    "C06",
		Title: "DISTINCT removes exactly the duplicates; UNION [ALL] concatenates [and dedups]",
		Rule: "[Dimensions added in rounds p-r of the seeded-defect evaluation: in a sixth of the cases every text of the document is re-encoded as Latin-1 bytes (strings that are not valid UTF-8; pools hold é / è); a sixth of the enveloped cases run after 1-3 failing statements.] " +
			"rapid draws tables with heavy duplication (value pools of 2-3 per column; about 3% of the DISTINCT / UNION cases expand table t to 200-700 rows by a recipe, its first column spread over 2-400 values), select lists of columns and simple expressions, and " +
			"either SELECT DISTINCT (oracle: reference first-occurrence sequence; also SELECT DISTINCT * over heterogeneous rows whose key sets differ at equal width, and SELECT DISTINCT over a grouped aggregate-only select list) or a union chain of 2-4 branches (a fifth of the later branches rename their output columns) " +
			"with any mix of UNION / UNION ALL (a quarter of the chains of 3+ branches put two neighbouring branches in parentheses as a union of their own, mostly with a LIMIT / OFFSET of its own - a cutting window over a de-duplicated pair admits any subset of that size, all of them are tried; a fifth of the branches parenthesised with a LIMIT / OFFSET of their own; two fifths of the chains made of aggregate branches, whole or grouped, with the same textual aggregates) and an optional trailing LIMIT, half of them with an OFFSET in either spelling; SELECT DISTINCT without ORDER BY also under LIMIT / OFFSET (exact window of the first-occurrence sequence) (oracle: left-associative reference; pure UNION ALL chains compared " +
			"as sequence, others as multiset with the reference's multiplicities; LIMIT n OFFSET m: length of the window [m, m+n) of the combined result, exact window for pure UNION ALL " +
			"chains, else a sub-multiset of the combined result that is duplicate-free when the last operator is UNION). Non-trivial: >=1 duplicate " +
			"output row / overlapping branches.",
		Assumptions: []string{
			"a third of the cases run inside an envelope that must not change the result: PostgresEscapingDialect / IdiomaticArrays on (the query uses neither double quotes nor brackets), Wrapped() with FROM root.<table>, tables handed over as []map[string]any, a second execution on the same input object, and the same query text run before on a different document",
			"branches that share a column name hold the same scalar kind in it; no ORDER BY on a union",
		},
		Gen: func(t *rapid.T) any {
			c := genC06(t).(*C06Case)
			c.Env = genEnvelope(t, "env")
			c.Latin1 = rapid.IntRange(0, 5).Draw(t, "latin1") == 0
			if c.Mode != "distinct-star" && rapid.IntRange(0, 3).Draw(t, "gotypes") == 0 {
				// the two leading columns, when they hold integers and no WHERE compares them with a constant
				mentioned := map[string]bool{}
				note := func(e *sq.E) {
					if e != nil {
						e.Walk(func(x *sq.E) {
							if x.K == "col" {
								mentioned[x.S] = true
							}
						})
					}
				}
				note(c.Where)
				for _, b := range c.Branches {
					note(b.Where)
				}
				rows, _ := c.Doc["t"].([]any)
				c.GoTypes = map[string]string{}
				if len(rows) > 0 {
					first, _ := rows[0].(map[string]any)
					for _, name := range mapKeys(first) {
						v := first[name]
						if _, isNum := v.(float64); isNum && !mentioned[name] && name != c.SumCol && rapid.Bool().Draw(t, "gotypes."+name) {
							typ := rapid.SampledFrom([]string{"bigint64", "biguint64", "int64", "int", "uint8"}).Draw(t, "gotypes."+name+".type")
							c.GoTypes[name] = typ
						}
					}
				}
				for _, it := range c.Items {
					if it.Expr.K != "col" {
						it.Expr.Walk(func(x *sq.E) {
							if x.K == "col" {
								delete(c.GoTypes, x.S) // arithmetic on the column: keep float64
							}
						})
					}
				}
			}
			return c
		},
		New: func() any { return &C06Case{} },
		Check: func(c any) Result {
			r := checkC06(c.(*C06Case))
			r.Labels = append(r.Labels, c.(*C06Case).Env.Labels()...)
			return r
		},
		Quick:    2500,
		Thorough: 200000,
	})
}

func genC06(t *rapid.T) any {
	names := genNames(t, 3, nil, "names")
	kinds := []string{
		rapid.SampledFrom([]string{"int", "str"}).Draw(t, "k0"),
		rapid.SampledFrom([]string{"int", "str", "bool"}).Draw(t, "k1"),
		"int",
	}
	pools := make([][]any, 3)
	for i := range pools {
		n := rapid.IntRange(1, 3).Draw(t, fmt.Sprintf("pool%d.n", i))
		for j := 0; j < n; j++ {
			l := fmt.Sprintf("pool%d.%d", i, j)
			switch kinds[i] {
			case "int":
				pools[i] = append(pools[i], rapid.SampledFrom([]float64{0, 1, 2, 3, 10}).Draw(t, l))
			case "str":
				pools[i] = append(pools[i], rapid.SampledFrom([]string{"a", "b", "A", "", "a b", "1", "é", "è", "caf\u00e9", "caf\u00e8"}).Draw(t, l))
			default:
				pools[i] = append(pools[i], rapid.Bool().Draw(t, l))
			}
		}
	}
	mkTable := func(label string) (*Table, []any) {
		tb := &Table{}
		for i := range names {
			tb.Cols = append(tb.Cols, Col{Name: names[i], Kind: kinds[i], Pool: pools[i]})
		}
		n := genRowCount(t, 0, 7, label+".nrows")
		rows := []any{}
		for r := 0; r < n; r++ {
			row := map[string]any{}
			for i := range names {
				row[names[i]] = rapid.SampledFrom(pools[i]).Draw(t, fmt.Sprintf("%s.r%d.c%d", label, r, i))
			}
			rows = append(rows, row)
		}
		tb.Rows = rows
		return tb, rows
	}
	c := &C06Case{Doc: map[string]any{}}
	tb, rows := mkTable("t")
	c.Doc["t"] = rows
	// select list: a subset of columns and optionally a simple expression over the int column
	k := rapid.IntRange(1, 3).Draw(t, "nitems")
	for i := 0; i < k; i++ {
		c.Items = append(c.Items, SelItem{Expr: sq.Col(names[i])})
	}
	if rapid.IntRange(0, 2).Draw(t, "expr") == 0 {
		c.Items = append(c.Items, SelItem{Expr: sq.Bin(rapid.SampledFrom([]string{"+", "*", "%"}).Draw(t, "exprop"), sq.Col(names[2]), sq.Num(2)), Alias: "e1"})
	}
	c.Mode = rapid.SampledFrom([]string{"distinct", "distinct-star", "distinct-agg", "union", "union", "union"}).Draw(t, "mode")
	sel := renderSelect(c.Items, 0, nil)
	if c.Mode == "distinct-agg" {
		// DISTINCT over the rows of a grouped, aggregate-only select list: groups with equal aggregates collapse
		c.Items = nil
		c.AggCol = names[rapid.IntRange(0, 1).Draw(t, "aggcol")]
		c.SQL = "SELECT DISTINCT COUNT(*) AS n FROM t GROUP BY " + c.AggCol
		if rapid.Bool().Draw(t, "withkeysum") {
			c.AggSum = true
			c.SQL = "SELECT DISTINCT COUNT(*) AS n, SUM(" + names[2] + ") AS sv FROM t GROUP BY " + c.AggCol
			c.SumCol = names[2]
		}
		return c
	}
	if c.Mode == "distinct-star" {
		// heterogeneous rows: every row has `id` plus one or two of the optional keys x / y / z, so rows of
		// equal width differ in their column names
		n := rapid.IntRange(0, 8).Draw(t, "h.nrows")
		h := []any{}
		for r := 0; r < n; r++ {
			row := map[string]any{"id": rapid.SampledFrom([]float64{1, 2}).Draw(t, fmt.Sprintf("h.r%d.id", r))}
			for _, k := range rapid.SampledFrom([][]string{{"x"}, {"y"}, {"z"}, {"x", "y"}, {"y", "z"}, {}}).Draw(t, fmt.Sprintf("h.r%d.keys", r)) {
				row[k] = rapid.SampledFrom([]any{1.0, 2.0, "1", nil, []any{"a b"}, []any{"a", "b"}, []any{"1"}, []any{1.0}, []any{nil}, []any{"<nil>"}, []any{}, map[string]any{"a": "1"}, map[string]any{"a": 1.0}}).Draw(t, fmt.Sprintf("h.r%d.%s", r, k))
			}
			h = append(h, row)
		}
		c.Doc["h"] = h
		c.Items = nil
		c.SQL = "SELECT DISTINCT * FROM h"
		return c
	}
	if len(rows) > 0 && kinds[0] != "bool" {
		if sc := genScale(t, 12, "scale"); sc != nil {
			var pool []any
			nk := rapid.SampledFrom([]int{2, 31, 33, 100, 400}).Draw(t, "scale.keys")
			for j := 0; j < nk; j++ {
				if kinds[0] == "int" {
					pool = append(pool, float64(j))
				} else {
					pool = append(pool, fmt.Sprintf("s%d", j))
				}
			}
			sc.genKeys(t, names[0], pool, "scale.key")
			c.Scale = sc
		}
	}
	if c.Mode == "distinct" {
		if rapid.IntRange(0, 2).Draw(t, "haswhere") == 0 {
			c.Where = genPred(t, tb, &PredSpec{Core: rapid.Bool().Draw(t, "wcore")}, 1, "w")
		}
		c.SQL = "SELECT DISTINCT " + sel + " FROM t"
		if c.Where != nil {
			c.SQL += " WHERE " + sq.Render(c.Where, nil)
		}
		if len(c.Items) >= 2 && rapid.IntRange(0, 2).Draw(t, "orderby") == 0 {
			c.OrderBy = names[0] + rapid.SampledFrom([]string{"", " DESC", " ASC"}).Draw(t, "orderdir")
			c.SQL += " ORDER BY " + c.OrderBy
		}
		if c.OrderBy == "" && rapid.IntRange(0, 3).Draw(t, "dlimit") == 0 {
			c.genWindow(t)
		}
		return c
	}
	nb := rapid.IntRange(2, 4).Draw(t, "nbranches")
	c.Agg = rapid.SampledFrom([]string{"", "", "", "whole", "grouped"}).Draw(t, "agg")
	if c.Agg != "" {
		c.AggKey, c.SumCol = names[0], names[2]
	}
	var parts []string
	if nb >= 3 && rapid.IntRange(0, 3).Draw(t, "nest") == 0 {
		c.Nest = &UnionNest{At: rapid.IntRange(0, nb-2).Draw(t, "nest.at")}
		if rapid.IntRange(0, 3).Draw(t, "nest.haslim") != 0 {
			c.Nest.HasLim = true
			c.Nest.Lim = rapid.IntRange(0, 5).Draw(t, "nest.lim")
			if rapid.Bool().Draw(t, "nest.hasoff") {
				c.Nest.Off = rapid.IntRange(0, 3).Draw(t, "nest.off")
			}
		}
	}
	for b := 0; b < nb; b++ {
		key := "t"
		if b > 0 && rapid.IntRange(0, 3).Draw(t, fmt.Sprintf("b%d.same", b)) != 0 {
			key = fmt.Sprintf("u%d", b)
			if _, ok := c.Doc[key]; !ok {
				_, r := mkTable(key)
				c.Doc[key] = r
			}
		}
		br := UnionBranch{Table: key, All: rapid.Bool().Draw(t, fmt.Sprintf("b%d.all", b))}
		if rapid.IntRange(0, 3).Draw(t, fmt.Sprintf("b%d.haswhere", b)) == 0 {
			br.Where = genPred(t, tb, &PredSpec{Core: rapid.Bool().Draw(t, fmt.Sprintf("b%d.wcore", b))}, 1, fmt.Sprintf("b%d.w", b))
		}
		if b > 0 && c.Agg == "" && rapid.IntRange(0, 4).Draw(t, fmt.Sprintf("b%d.rename", b)) == 0 {
			br.Suffix = rapid.SampledFrom([]string{"_2", "x"}).Draw(t, fmt.Sprintf("b%d.suffix", b))
		}
		if rapid.IntRange(0, 4).Draw(t, fmt.Sprintf("b%d.win", b)) == 0 {
			br.Win = true
			br.Lim = rapid.IntRange(0, 5).Draw(t, fmt.Sprintf("b%d.lim", b))
			br.Off = rapid.IntRange(0, 3).Draw(t, fmt.Sprintf("b%d.off", b))
		}
		c.Branches = append(c.Branches, br)
		s := "SELECT " + renderSelect(c.branchItems(br), 0, nil) + " FROM " + key
		switch c.Agg {
		case "whole":
			s = "SELECT COUNT(*) AS n, SUM(" + c.SumCol + ") AS sv FROM " + key
		case "grouped":
			s = "SELECT " + c.AggKey + ", COUNT(*) AS n, SUM(" + c.SumCol + ") AS sv FROM " + key
		}
		if br.Where != nil {
			s += " WHERE " + sq.Render(br.Where, nil)
		}
		if c.Agg == "grouped" {
			s += " GROUP BY " + c.AggKey
		}
		if br.Win {
			if br.Off > 0 {
				s = fmt.Sprintf("(%s LIMIT %d OFFSET %d)", s, br.Lim, br.Off)
			} else {
				s = fmt.Sprintf("(%s LIMIT %d)", s, br.Lim)
			}
		}
		if b > 0 {
			if br.All {
				parts = append(parts, "UNION ALL")
			} else {
				parts = append(parts, "UNION")
			}
		}
		if c.Nest != nil && b == c.Nest.At {
			s = "(" + s
		}
		if c.Nest != nil && b == c.Nest.At+1 {
			if c.Nest.HasLim {
				s += fmt.Sprintf(" LIMIT %d", c.Nest.Lim)
				if c.Nest.Off > 0 {
					s += fmt.Sprintf(" OFFSET %d", c.Nest.Off)
				}
			}
			s += ")"
		}
		parts = append(parts, s)
	}
	c.SQL = strings.Join(parts, " ")
	if rapid.IntRange(0, 2).Draw(t, "haslimit") == 0 {
		c.genWindow(t)
	}
	return c
}

// genWindow appends LIMIT n, in half of the cases with an OFFSET m (either spelling), to the statement.
func (c *C06Case) genWindow(t *rapid.T) {
	c.HasLimit = true
	c.Limit = rapid.IntRange(0, 8).Draw(t, "limit")
	if rapid.Bool().Draw(t, "hasoffset") {
		c.Offset = rapid.IntRange(1, 5).Draw(t, "offset")
		c.OffsetComma = rapid.Bool().Draw(t, "offsetcomma")
	}
	switch {
	case c.Offset > 0 && c.OffsetComma:
		c.SQL += fmt.Sprintf(" LIMIT %d, %d", c.Offset, c.Limit)
	case c.Offset > 0:
		c.SQL += fmt.Sprintf(" LIMIT %d OFFSET %d", c.Limit, c.Offset)
	default:
		c.SQL += fmt.Sprintf(" LIMIT %d", c.Limit)
	}
}

// window is the part of seq that LIMIT / OFFSET of the case select.
func (c *C06Case) window(seq []any) []any {
	lo := minInt(c.Offset, len(seq))
	return seq[lo:minInt(len(seq), lo+c.Limit)]
}

// branchItems returns the select list of one union branch (columns renamed when the branch has a suffix).
func (c *C06Case) branchItems(br UnionBranch) []SelItem {
	if br.Suffix == "" {
		return c.Items
	}
	out := make([]SelItem, len(c.Items))
	for i, it := range c.Items {
		name := it.Alias
		if name == "" {
			name = it.Expr.S
		}
		out[i] = SelItem{Expr: it.Expr, Alias: name + br.Suffix}
	}
	return out
}

func dedupRows(rows []any) []any {
	out := []any{}
	for _, r := range rows {
		dup := false
		for _, o := range out {
			if val.Equal(r, o) {
				dup = true
				break
			}
		}
		if !dup {
			out = append(out, r)
		}
	}
	return out
}

func latin1(v any) any {
	switch t := v.(type) {
	case string:
		b := make([]byte, 0, len(t))
		for _, r := range t {
			if r < 0x100 {
				b = append(b, byte(r))
			} else {
				b = append(b, string(r)...)
			}
		}
		return string(b)
	case []any:
		out := make([]any, len(t))
		for i, x := range t {
			out[i] = latin1(x)
		}
		return out
	case map[string]any:
		out := make(map[string]any, len(t))
		for k, x := range t {
			out[k] = latin1(x)
		}
		return out
	}
	return v
}

func checkC06(c *C06Case) Result {
	if c.Latin1 {
		cc := *c
		cc.Doc, cc.Latin1 = latin1(c.Doc).(map[string]any), false
		res := checkC06(&cc)
		res.Labels = append(res.Labels, "strings-not-valid-utf8")
		return res
	}
	if c.Scale != nil {
		cc := *c
		cc.Doc, cc.Scale = c.Scale.ExpandDoc(c.Doc, "t"), nil
		res := checkC06(&cc)
		res.Labels = append(res.Labels, "large-table")
		return res
	}
	res := Result{Labels: []string{"mode:" + c.Mode}}
	env := &sq.Env{Doc: c.Doc}
	if c.Mode == "distinct-agg" {
		rows, _ := c.Doc["t"].([]any)
		var order []string
		count := map[string]float64{}
		sum := map[string]float64{}
		for _, r := range rows {
			rm := r.(map[string]any)
			k := val.Canon(rm[c.AggCol])
			if _, ok := count[k]; !ok {
				order = append(order, k)
			}
			count[k]++
			if f, ok := rm[c.SumCol].(float64); ok {
				sum[k] += f
			}
		}
		all := []any{}
		for _, k := range order {
			o := map[string]any{"n": count[k]}
			if c.AggSum {
				o["sv"] = sum[k]
			}
			all = append(all, o)
		}
		want := dedupRows(all)
		res.NonTrivial = len(want) < len(all)
		out := c.exec()
		res.Execs++
		if !out.OK() {
			res.Violation = fmt.Sprintf("%s\n  expected %s\n  got %s", c.SQL, val.JSON(want), out.Describe())
			return res
		}
		if d := diffRows(out.Rows, want); d != "" {
			res.Violation = fmt.Sprintf("%s\n  %s\n  one row per group %s\n  expected %s\n  got      %s", c.SQL, d, val.JSON(all), val.JSON(want), val.JSON(out.Rows))
		}
		return res
	}
	if c.Mode == "distinct" || c.Mode == "distinct-star" {
		rows, _ := c.Doc["t"].([]any)
		star := 0
		if c.Mode == "distinct-star" {
			rows, _ = c.Doc["h"].([]any)
			star = 1
		}
		all, err := refProject(rows, c.Items, star, c.Where, env)
		if err != nil {
			discardOrHarness(&res, err)
			return res
		}
		want := dedupRows(all)
		res.NonTrivial = len(want) < len(all)
		if c.HasLimit {
			// the window is cut out of the sequence of distinct rows (first occurrences, source order)
			res.Labels = append(res.Labels, fmt.Sprintf("distinct-window:offset=%v", c.Offset > 0))
			want = c.window(want)
		}
		out := c.exec()
		res.Execs++
		if !out.OK() {
			res.Violation = fmt.Sprintf("%s\n  expected %s\n  got %s", c.SQL, val.JSON(want), out.Describe())
			return res
		}
		if c.OrderBy != "" {
			res.Labels = append(res.Labels, "distinct-ordered-by-partial-key")
			if !val.MultisetEqual(out.Rows, want) {
				res.Violation = fmt.Sprintf("%s\n  projected rows %s\n  expected each of %s exactly once (in the requested order)\n  got %s", c.SQL, val.JSON(all), val.JSON(want), val.JSON(out.Rows))
			}
			return res
		}
		if d := diffRows(out.Rows, want); d != "" {
			res.Violation = fmt.Sprintf("%s\n  %s\n  projected rows %s\n  expected %s\n  got      %s", c.SQL, d, val.JSON(all), val.JSON(want), val.JSON(out.Rows))
		}
		return res
	}
	// union chain, left-associative; a parenthesised pair of branches is one operand
	type unit struct {
		cands [][]any // admissible results of this operand (more than one: a cutting window over a de-duplicated pair)
		all   bool
	}
	var units []unit
	for i := 0; i < len(c.Branches); i++ {
		br := c.Branches[i]
		rows, _ := c.Doc[br.Table].([]any)
		part, err := refProject(rows, c.branchItems(br), 0, br.Where, env)
		if c.Agg != "" {
			part, err = c.refAggBranch(rows, br.Where, env)
		}
		if err != nil {
			discardOrHarness(&res, err)
			return res
		}
		if br.Win {
			lo := minInt(br.Off, len(part))
			part = part[lo:minInt(len(part), lo+br.Lim)]
			res.Labels = append(res.Labels, "branch-window")
		}
		if c.Nest != nil && i == c.Nest.At+1 {
			// second branch of the parenthesised pair: fold it into the pair's operand
			u := &units[len(units)-1]
			s := append(append([]any{}, u.cands[0]...), part...)
			if !br.All {
				s = dedupRows(s)
			}
			u.cands = [][]any{s}
			label := "nested-union:no-window"
			if c.Nest.HasLim {
				lo := minInt(c.Nest.Off, len(s))
				hi := minInt(len(s), lo+c.Nest.Lim)
				switch {
				case br.All || hi-lo == len(s):
					u.cands = [][]any{s[lo:hi]}
					label = "nested-union:window-determined"
				default:
					// the statement does not order the rows of a UNION: any hi-lo of its rows may be in the window
					u.cands = subsetsOf(s, hi-lo, 3000)
					label = "nested-union:window-any-subset"
					if u.cands == nil {
						res.Discard = "nested UNION window with too many admissible subsets"
						return res
					}
				}
			}
			res.Labels = append(res.Labels, label)
			continue
		}
		units = append(units, unit{cands: [][]any{part}, all: br.All})
	}
	multi := -1
	for i, u := range units {
		if len(u.cands) > 1 {
			multi = i
		}
	}
	nc := 1
	if multi >= 0 {
		nc = len(units[multi].cands)
	}
	pureAll := true
	for i, br := range c.Branches {
		if i > 0 && !br.All {
			pureAll = false
		}
	}
	ops := ""
	overlap := false
	var combos [][]any
	for k := 0; k < nc; k++ {
		combined := []any{}
		for i, u := range units {
			part := u.cands[0]
			if i == multi {
				part = u.cands[k]
			}
			if i == 0 {
				combined = part
				continue
			}
			before := len(combined) + len(part)
			combined = append(append([]any{}, combined...), part...)
			if !u.all {
				combined = dedupRows(combined)
			}
			if k == 0 {
				if u.all {
					ops += "A"
				} else {
					ops += "U"
				}
				if len(dedupRows(combined)) < before {
					overlap = true
				}
			}
		}
		combos = append(combos, combined)
	}
	res.Labels = append(res.Labels, fmt.Sprintf("branches:%d", len(c.Branches)), "ops:"+ops)
	if c.Agg != "" {
		res.Labels = append(res.Labels, "aggregate-branches:"+c.Agg)
	}
	res.NonTrivial = overlap
	lastIsUnion := !units[len(units)-1].all
	out := c.exec()
	res.Execs++
	if !out.OK() {
		res.Violation = fmt.Sprintf("%s\n  expected %s\n  got %s", c.SQL, val.JSON(combos[0]), out.Describe())
		return res
	}
	if c.HasLimit {
		res.Labels = append(res.Labels, "limit", fmt.Sprintf("limit-offset:%v", c.Offset > 0))
	}
	judge := func(combined []any) string {
		if !c.HasLimit {
			if pureAll {
				if d := diffRows(out.Rows, combined); d != "" {
					return fmt.Sprintf("%s\n  %s\n  expected sequence %s\n  got               %s", c.SQL, d, val.JSON(combined), val.JSON(out.Rows))
				}
				return ""
			}
			if !val.MultisetEqual(out.Rows, combined) {
				return fmt.Sprintf("%s\n  expected multiset (%d rows) %s\n  got               (%d rows) %s", c.SQL, len(combined), val.JSON(combined), len(out.Rows), val.JSON(out.Rows))
			}
			return ""
		}
		wantLen := len(c.window(combined))
		if len(out.Rows) != wantLen {
			return fmt.Sprintf("%s\n  combined result has %d rows, LIMIT %d OFFSET %d must return %d, got %d: %s", c.SQL, len(combined), c.Limit, c.Offset, wantLen, len(out.Rows), val.JSON(out.Rows))
		}
		if pureAll {
			if d := diffRows(out.Rows, c.window(combined)); d != "" {
				return fmt.Sprintf("%s\n  %s\n  expected window %s\n  got             %s", c.SQL, d, val.JSON(c.window(combined)), val.JSON(out.Rows))
			}
			return ""
		}
		if !val.SubMultiset(out.Rows, combined) {
			return fmt.Sprintf("%s\n  limited result is not part of the combined result\n  combined %s\n  got      %s", c.SQL, val.JSON(combined), val.JSON(out.Rows))
		}
		if lastIsUnion && len(dedupRows(out.Rows)) != len(out.Rows) {
			return fmt.Sprintf("%s\n  limited UNION result contains duplicates: %s", c.SQL, val.JSON(out.Rows))
		}
		return ""
	}
	first := ""
	for _, combined := range combos {
		v := judge(combined)
		if v == "" {
			return res
		}
		if first == "" {
			first = v
		}
	}
	if len(combos) > 1 {
		first += fmt.Sprintf("\n  (no other of the %d admissible windows of the parenthesised UNION explains the result either)", len(combos))
	}
	res.Violation = first
	return res
}

// subsetsOf lists every k-element sub-sequence of rows (nil when there are more than max).
func subsetsOf(rows []any, k, max int) [][]any {
	out := [][]any{}
	var rec func(start int, cur []any) bool
	rec = func(start int, cur []any) bool {
		if len(cur) == k {
			if len(out) >= max {
				return false
			}
			out = append(out, append([]any{}, cur...))
			return true
		}
		for i := start; i <= len(rows)-(k-len(cur)); i++ {
			if !rec(i+1, append(cur, rows[i])) {
				return false
			}
		}
		return true
	}
	if !rec(0, nil) {
		return nil
	}
	return out
}

// refAggBranch is the reference result of one aggregate branch: the rows passing where, as a whole
// (one row, also for empty input) or grouped by AggKey in first-appearance order.
func (c *C06Case) refAggBranch(rows []any, where *sq.E, env *sq.Env) ([]any, error) {
	var passed []any
	for _, r := range rows {
		if where != nil {
			keep, err := sq.EvalBool(where, r.(map[string]any), env)
			if err != nil {
				return nil, err
			}
			if !keep {
				continue
			}
		}
		passed = append(passed, r)
	}
	if c.Agg == "whole" {
		return []any{map[string]any{"n": refAgg("COUNT", "", passed), "sv": refAgg("SUM", c.SumCol, passed)}}, nil
	}
	var keys []any
	members := map[string][]any{}
	for _, r := range passed {
		k := r.(map[string]any)[c.AggKey]
		id := val.Canon(k)
		if _, ok := members[id]; !ok {
			keys = append(keys, k)
		}
		members[id] = append(members[id], r)
	}
	out := []any{}
	for _, k := range keys {
		m := members[val.Canon(k)]
		out = append(out, map[string]any{c.AggKey: k, "n": refAgg("COUNT", "", m), "sv": refAgg("SUM", c.SumCol, m)})
	}
	return out, nil
}

// exec runs the case's statement on a typed copy of the document (every table shares the column types);
// integers beyond 2^53 are mapped back before the result is normalised.
func (c *C06Case) exec() Out {
	types := map[string]map[string]string{}
	for table := range c.Doc {
		types[table] = c.GoTypes
	}
	out := c.Env.Exec(typedDoc(c.Doc, types), c.SQL)
	for _, typ := range c.GoTypes {
		if strings.HasPrefix(typ, "big") && out.OK() {
			out.Rows = val.NormRows(unbig(out.Raw).([]any))
			break
		}
	}
	return out
}

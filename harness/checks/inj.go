package checks

import (
	"errors"
	"fmt"
	"strconv"
	"strings"
	"sync"
	"sync/atomic"
	"time"

	"github.com/vedadiyan/genql"
)

// Injected user functions, registered once per process through the public RegisterFunction API.
//
//	vf_id(x)            returns x (pure)
//	vf_mul(x, k)        returns x*k for numbers, x otherwise (pure)
//	vf_fail(x)          returns x; the n-th invocation in the current case fails when n == plan.FailAt
//	                    (with an error, or - plan.Panic - by panicking with an error / a non-error value)
//	vf_tag(tag, x)      returns x; counts invocations per tag and records completion (C14)
//	vf_gate(tag, x)     like vf_tag but blocks until the harness releases the call (C14)
//	vf_imm(x)           registered as *immediate* function, returns x
//
// Per-case state is reset by injReset at the top of every case.

type injPlan struct {
	FailAt   int64 // 0 = never; k > 0: the k-th invocation fails; k < 0: every invocation from the |k|-th on fails
	Panic    int   // 0 error return, 1 panic(error), 2 panic(string)
	ErrVal   int   // what the failing invocation returns next to its error (injSetErrVal)
	calls    atomic.Int64
	scalars  atomic.Int64 // invocations of vf_fail whose first argument was a non-NULL scalar
	failed   atomic.Int64
	mu       sync.Mutex
	tagCalls map[string]int
	tagDone  map[string]int
	tagArgs  map[string][]any
	gate     *gateCtl
}

var inj = &injPlan{}

// injEpoch numbers the cases of this process (see vfTag)
var injEpoch atomic.Int64

var errInjected = errors.New("injected failure (vf_fail)")

// injScalarCalls: invocations of vf_fail since the last reset whose first argument was a non-NULL scalar
func injScalarCalls() int64 { return inj.scalars.Load() }

func injReset(failAt int64, panicMode int) {
	inj.mu.Lock()
	inj.FailAt = failAt
	inj.Panic = panicMode
	inj.ErrVal = 0
	inj.calls.Store(0)
	inj.scalars.Store(0)
	inj.failed.Store(0)
	inj.tagCalls = map[string]int{}
	inj.tagDone = map[string]int{}
	inj.tagArgs = map[string][]any{}
	inj.gate = nil
	inj.mu.Unlock()
}

// injSetErrVal chooses what the failing invocation of vf_fail / vf_failx returns NEXT TO its error (set after
// injReset): 0 nothing, 1 the Go int 0 (`n, err := strconv.Atoi(..); return n, err`), 2 its argument, 3 a float32.
func injSetErrVal(mode int) {
	inj.mu.Lock()
	inj.ErrVal = mode
	inj.mu.Unlock()
}

func injCalls() int64  { return inj.calls.Load() }
func injFailed() int64 { return inj.failed.Load() }

func vfID(q *genql.Query, cur genql.Map, fo *genql.FunctionOptions, args []any) (any, error) {
	if len(args) != 1 {
		return nil, fmt.Errorf("vf_id expects one argument")
	}
	return args[0], nil
}

func vfMul(q *genql.Query, cur genql.Map, fo *genql.FunctionOptions, args []any) (any, error) {
	if len(args) != 2 {
		return nil, fmt.Errorf("vf_mul expects two arguments")
	}
	x, ok1 := args[0].(float64)
	k, ok2 := args[1].(float64)
	if ok1 && ok2 {
		return x * k, nil
	}
	return args[0], nil
}

func vfFail(q *genql.Query, cur genql.Map, fo *genql.FunctionOptions, args []any) (any, error) {
	n := inj.calls.Add(1)
	if len(args) > 0 {
		switch args[0].(type) {
		case string, bool, float64, float32, int, int8, int16, int32, int64, uint, uint8, uint16, uint32, uint64:
			inj.scalars.Add(1)
		}
	}
	inj.mu.Lock()
	failAt, mode, errVal := inj.FailAt, inj.Panic, inj.ErrVal
	inj.mu.Unlock()
	// failAt < 0: every invocation from the |failAt|-th on fails (fault bursts, C10)
	if failAt != 0 && (n == failAt || (failAt < 0 && n >= -failAt)) {
		inj.failed.Add(1)
		switch mode {
		case 1:
			panic(errInjected)
		case 2:
			panic("injected failure (vf_fail, non-error panic value)")
		}
		switch errVal {
		case 1:
			return int(0), errInjected
		case 2:
			if len(args) > 0 {
				return args[0], errInjected
			}
		case 3:
			return float32(1.5), errInjected
		}
		return nil, errInjected
	}
	if len(args) == 0 {
		return nil, nil
	}
	return args[0], nil
}

func vfTag(q *genql.Query, cur genql.Map, fo *genql.FunctionOptions, args []any) (any, error) {
	if len(args) != 2 {
		return nil, fmt.Errorf("vf_tag expects (tag, x)")
	}
	tag := fmt.Sprint(args[0])
	// tags carry the epoch of the run that rendered them ("g1#42"). A fire-and-forget call that
	// outlives its run must not be attributed to a later one: the epoch is compared, and the
	// counters of exactly that run (st) are captured, under the lock that injNewRun holds while it
	// advances the epoch and installs fresh counters.
	epoch := ""
	if i := strings.IndexByte(tag, '#'); i >= 0 {
		epoch, tag = tag[i+1:], tag[:i]
	}
	inj.mu.Lock()
	if epoch != "" && epoch != strconv.FormatInt(injEpoch.Load(), 10) {
		inj.mu.Unlock()
		return vfValue(tag, args[1]), nil
	}
	calls, done, argsSeen := inj.tagCalls, inj.tagDone, inj.tagArgs
	calls[tag]++
	argsSeen[tag] = append(argsSeen[tag], args[1])
	g := inj.gate
	inj.mu.Unlock()
	rank := -1
	if g != nil && len(tag) > 0 && tag[0] == 'g' {
		// only tags starting with 'g' (calls under ASYNC / SPINASYNC / SPIN) go through the gate
		rank = g.wait(tag)
	}
	v := vfValue(tag, args[1])
	inj.mu.Lock()
	done[tag]++
	inj.mu.Unlock()
	if rank >= 0 {
		g.done(rank)
	}
	return v, nil
}

// injNewRun starts a new instrumented run: epoch, counters and gate change together.
func injNewRun(g *gateCtl) int64 {
	inj.mu.Lock()
	defer inj.mu.Unlock()
	e := injEpoch.Add(1)
	inj.FailAt, inj.Panic = 0, 0
	inj.calls.Store(0)
	inj.failed.Store(0)
	inj.tagCalls = map[string]int{}
	inj.tagDone = map[string]int{}
	inj.tagArgs = map[string][]any{}
	inj.gate = g
	return e
}

// vfValue is the pure function computed by vf_tag: numbers are scaled by a tag-dependent factor,
// strings are prefixed with the tag, everything else is returned as is.
func vfValue(tag string, x any) any {
	switch v := x.(type) {
	case float64:
		return v*10 + float64(len(tag))
	case string:
		return tag + ":" + v
	}
	return x
}

func vfImm(q *genql.Query, cur genql.Map, fo *genql.FunctionOptions, args []any) (any, error) {
	if len(args) == 0 {
		return nil, nil
	}
	return args[0], nil
}

// gateCtl lets the harness own the completion order of vf_tag calls. Calls are numbered in arrival
// order; the i-th arriving call has release rank order[i]. Once all expected calls have arrived, rank
// 0 may proceed; when a call finishes, the next rank may proceed - so the completion order is
// exactly the drawn permutation whenever the engine really runs the calls concurrently. A ticker
// (pump) opens the next rank whenever nothing has moved for a while, so an engine that runs the
// calls one after the other (equally correct) is never deadlocked by the gate.
type gateCtl struct {
	mu       sync.Mutex
	cond     *sync.Cond
	expected int
	order    []int
	arrived  int
	finished int
	allowed  int // ranks < allowed may proceed
	open     bool
	waiting  map[int]bool // ranks currently blocked
	moves    int          // arrivals + completions, for the pump
	Finish   []int        // ranks in completion order (for the evidence labels)
}

func newGate(expected int, order []int) *gateCtl {
	g := &gateCtl{expected: expected, order: order, waiting: map[int]bool{}}
	g.cond = sync.NewCond(&g.mu)
	return g
}

func (g *gateCtl) wait(tag string) (rank int) {
	g.mu.Lock()
	idx := g.arrived
	g.arrived++
	g.moves++
	rank = idx
	if idx < len(g.order) {
		rank = g.order[idx]
	}
	if g.arrived >= g.expected && g.allowed == 0 {
		g.allowed = 1
	}
	g.waiting[rank] = true
	g.cond.Broadcast()
	for !g.open && rank >= g.allowed {
		g.cond.Wait()
	}
	delete(g.waiting, rank)
	g.mu.Unlock()
	return rank
}

func (g *gateCtl) done(rank int) {
	g.mu.Lock()
	g.finished++
	g.moves++
	g.Finish = append(g.Finish, rank)
	if g.allowed > 0 && rank+1 >= g.allowed {
		g.allowed = rank + 2
	}
	// skip ranks that nobody holds (never arrived): the lowest waiting rank must be allowed
	g.cond.Broadcast()
	g.mu.Unlock()
}

// pump is called periodically by the harness while Exec runs: when nothing moved since the last
// call and somebody is blocked, the lowest blocked rank is let through.
func (g *gateCtl) pump(lastMoves int) int {
	g.mu.Lock()
	defer g.mu.Unlock()
	if g.moves == lastMoves && len(g.waiting) > 0 {
		lowest := -1
		for r := range g.waiting {
			if lowest < 0 || r < lowest {
				lowest = r
			}
		}
		if lowest >= g.allowed {
			g.allowed = lowest + 1
			g.cond.Broadcast()
		}
	}
	return g.moves
}

func (g *gateCtl) openAll() {
	g.mu.Lock()
	g.open = true
	g.cond.Broadcast()
	g.mu.Unlock()
}

func (g *gateCtl) finishOrder() []int {
	g.mu.Lock()
	defer g.mu.Unlock()
	return append([]int{}, g.Finish...)
}

func (g *gateCtl) counts() (arrived, finished int) {
	g.mu.Lock()
	defer g.mu.Unlock()
	return g.arrived, g.finished
}

// sinkCells is written by vf_sink WITHOUT any synchronisation: cell i is written by exactly one
// invocation, and read by the caller of Exec after Exec has returned. A query that returns while one of
// its ASYNC / SPINASYNC calls is still running therefore shows up twice: as a cell that is still 0, and
// (in the -race build) as a data race between the function and the caller.
var sinkCells [1 << 14]int64

func vfSink(q *genql.Query, cur genql.Map, fo *genql.FunctionOptions, args []any) (any, error) {
	if len(args) != 1 {
		return nil, fmt.Errorf("vf_sink expects one argument")
	}
	f, ok := args[0].(float64)
	if !ok || f < 0 || int(f) >= len(sinkCells) {
		return nil, fmt.Errorf("vf_sink: bad cell %v", args[0])
	}
	time.Sleep(150 * time.Microsecond)
	sinkCells[int(f)] = 1
	return f, nil
}

func init() {
	genql.RegisterFunction("vf_sink", vfSink)
	genql.RegisterFunction("vf_id", vfID)
	genql.RegisterFunction("vf_mul", vfMul)
	genql.RegisterFunction("vf_fail", vfFail)
	// the same function registered the way an application without access to the engine's types does it
	genql.RegisterExternalFunction("vf_failx", func(args []any) (any, error) { return vfFail(nil, nil, nil, args) })
	genql.RegisterFunction("vf_tag", vfTag)
	genql.RegisterFunction("vf_tag2", vfTag)
	genql.RegisterFunction("vf_tag3", vfTag)
	genql.RegisterImmediateFunction("vf_imm", vfImm)
	// names registered in the spelling of the documentation (camel case) and in upper case
	genql.RegisterImmediateFunction("vfImmCamel", vfImm)
	genql.RegisterImmediateFunction("VF_IMM_UPPER", vfImm)
	injReset(0, 0)
}

package checks

import (
	"errors"
	"fmt"
	"sync"
	"sync/atomic"

	"github.com/vedadiyan/genql"
)

// Injected user functions, registered once per process through the public RegisterFunction API.
//
//	vf_id(x)            returns x (pure)
//	vf_mul(x, k)        returns x*k for numbers, x otherwise (pure)
//	vf_fail(x)          returns x; the n-th invocation in the current case fails when n == plan.FailAt
//	                    (with an error, or - plan.Panic - by panicking with an error / a non-error value)
//	vf_tag(tag, x)      returns x; counts invocations per tag and records completion (C14)
//	vf_gate(tag, x)     like vf_tag but blocks until the harness releases the call (C14)
//	vf_imm(x)           registered as *immediate* function, returns x
//
// Per-case state is reset by injReset at the top of every case.

type injPlan struct {
	FailAt   int64 // 0 = never
	Panic    int   // 0 error return, 1 panic(error), 2 panic(string)
	calls    atomic.Int64
	failed   atomic.Int64
	mu       sync.Mutex
	tagCalls map[string]int
	tagDone  map[string]int
	tagArgs  map[string][]any
	gate     *gateCtl
}

var inj = &injPlan{}

var errInjected = errors.New("injected failure (vf_fail)")

func injReset(failAt int64, panicMode int) {
	inj.mu.Lock()
	inj.FailAt = failAt
	inj.Panic = panicMode
	inj.calls.Store(0)
	inj.failed.Store(0)
	inj.tagCalls = map[string]int{}
	inj.tagDone = map[string]int{}
	inj.tagArgs = map[string][]any{}
	inj.gate = nil
	inj.mu.Unlock()
}

func injCalls() int64  { return inj.calls.Load() }
func injFailed() int64 { return inj.failed.Load() }

func vfID(q *genql.Query, cur genql.Map, fo *genql.FunctionOptions, args []any) (any, error) {
	if len(args) != 1 {
		return nil, fmt.Errorf("vf_id expects one argument")
	}
	return args[0], nil
}

func vfMul(q *genql.Query, cur genql.Map, fo *genql.FunctionOptions, args []any) (any, error) {
	if len(args) != 2 {
		return nil, fmt.Errorf("vf_mul expects two arguments")
	}
	x, ok1 := args[0].(float64)
	k, ok2 := args[1].(float64)
	if ok1 && ok2 {
		return x * k, nil
	}
	return args[0], nil
}

func vfFail(q *genql.Query, cur genql.Map, fo *genql.FunctionOptions, args []any) (any, error) {
	n := inj.calls.Add(1)
	inj.mu.Lock()
	failAt, mode := inj.FailAt, inj.Panic
	inj.mu.Unlock()
	if failAt != 0 && n == failAt {
		inj.failed.Add(1)
		switch mode {
		case 1:
			panic(errInjected)
		case 2:
			panic("injected failure (vf_fail, non-error panic value)")
		}
		return nil, errInjected
	}
	if len(args) == 0 {
		return nil, nil
	}
	return args[0], nil
}

func vfTag(q *genql.Query, cur genql.Map, fo *genql.FunctionOptions, args []any) (any, error) {
	if len(args) != 2 {
		return nil, fmt.Errorf("vf_tag expects (tag, x)")
	}
	tag := fmt.Sprint(args[0])
	inj.mu.Lock()
	inj.tagCalls[tag]++
	inj.tagArgs[tag] = append(inj.tagArgs[tag], args[1])
	g := inj.gate
	inj.mu.Unlock()
	if g != nil {
		g.wait(tag)
	}
	v := vfValue(tag, args[1])
	inj.mu.Lock()
	inj.tagDone[tag]++
	inj.mu.Unlock()
	return v, nil
}

// vfValue is the pure function computed by vf_tag: numbers are scaled by a tag-dependent factor,
// strings are prefixed with the tag, everything else is returned as is.
func vfValue(tag string, x any) any {
	switch v := x.(type) {
	case float64:
		return v*10 + float64(len(tag))
	case string:
		return tag + ":" + v
	}
	return x
}

func vfImm(q *genql.Query, cur genql.Map, fo *genql.FunctionOptions, args []any) (any, error) {
	if len(args) == 0 {
		return nil, nil
	}
	return args[0], nil
}

// gateCtl lets the harness own the completion order of vf_tag calls: call i (in arrival order) is
// released when its turn in the drawn permutation comes, once all expected calls have arrived, or
// when the engine has gone quiescent (no arrival for a while), so that sequential implementations,
// which never have more than one call in flight, pass as well.
type gateCtl struct {
	mu       sync.Mutex
	cond     *sync.Cond
	expected int
	order    []int // release rank of the i-th arriving call
	arrived  int
	released int // number of release ranks opened so far
	open     bool
}

func newGate(expected int, order []int) *gateCtl {
	g := &gateCtl{expected: expected, order: order}
	g.cond = sync.NewCond(&g.mu)
	return g
}

func (g *gateCtl) wait(tag string) {
	g.mu.Lock()
	idx := g.arrived
	g.arrived++
	g.cond.Broadcast()
	rank := idx
	if idx < len(g.order) {
		rank = g.order[idx]
	}
	for !g.open && !(g.arrived >= g.expected && g.released >= rank) {
		g.cond.Wait()
	}
	if g.released <= rank {
		g.released = rank + 1
	}
	g.cond.Broadcast()
	g.mu.Unlock()
}

// openAll releases every waiting call (used by the quiescence watchdog).
func (g *gateCtl) openAll() {
	g.mu.Lock()
	g.open = true
	g.cond.Broadcast()
	g.mu.Unlock()
}

func (g *gateCtl) snapshot() (arrived int) {
	g.mu.Lock()
	defer g.mu.Unlock()
	return g.arrived
}

func init() {
	genql.RegisterFunction("vf_id", vfID)
	genql.RegisterFunction("vf_mul", vfMul)
	genql.RegisterFunction("vf_fail", vfFail)
	genql.RegisterFunction("vf_tag", vfTag)
	genql.RegisterFunction("vf_tag2", vfTag)
	genql.RegisterFunction("vf_tag3", vfTag)
	genql.RegisterImmediateFunction("vf_imm", vfImm)
	injReset(0, 0)
}

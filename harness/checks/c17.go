package checks

import (
	"fmt"
	"strings"

	"github.com/vedadiyan/genql"
	"pgregory.net/rapid"
	"verifharness/sq"
	"verifharness/val"
)

// C17 - dialect options rewrite only syntax and preserve query meaning.
//
// One case = one query AST + the options to switch on + the spelling to use. The variant (options
// on, alternative spelling where the option enables it) must behave exactly like the canonical form
// (no option, backtick identifiers, ARRAY(...) calls, input passed as {"root": input} when the
// variant uses Wrapped).

type C17Case struct {
	Doc     map[string]any `json:"doc"`
	Items   []SelItem      `json:"items"`
	Where   *sq.E          `json:"where,omitempty"`
	PG      bool           `json:"pg,omitempty"`      // PostgresEscapingDialect on
	Arrays  bool           `json:"arrays,omitempty"`  // IdiomaticArrays on
	Wrapped bool           `json:"wrapped,omitempty"` // Wrapped on
	DQ      bool           `json:"dq,omitempty"`      // identifiers spelled with double quotes (needs PG)
	BR      bool           `json:"br,omitempty"`      // arrays spelled [..] (needs Arrays)
	Pad     bool           `json:"pad,omitempty"`     // extra white space inside brackets
	// Poison, when set, is a query the rewriters reject; it is executed (and its outcome ignored) under
	// all three options right before the variant: a rejected query must leave nothing behind
	Poison string `json:"poison,omitempty"`
	// Prime, when set, names another option set ("", "pg", "arrays", "pg+arrays") under which the very
	// same query text is executed first (outcome ignored): what a text means depends on the options of
	// the call at hand only, never on an earlier call with the same text
	Prime *string `json:"prime,omitempty"`
	// FromMode (with Wrapped only): "" = FROM root.t; "unqualified" = FROM t (there is no such name next to
	// `root`); "dual-star" = SELECT * FROM dual (the top level scope itself). Wrapped() must behave exactly like
	// handing over {"root": input}, also when the input has a key `root` of its own (the generator adds one).
	FromMode string `json:"from_mode,omitempty"`
	// Nest: the statement is placed inside another one - "cte" (WITH c AS (Q) SELECT * FROM c), "derived"
	// (SELECT * FROM (Q) x) or "union" (Q UNION ALL Q): options apply to nested selects exactly as to the outer one
	Nest string `json:"nest,omitempty"`
	// MixBT (with DQ): names the variant writes between backticks next to the double-quoted ones - their
	// contents (double quotes, brackets, a trailing backslash) reach the engine untouched
	MixBT   []string `json:"mix_bt,omitempty"`
	BSQuote bool     `json:"bsquote,omitempty"` // variant spells a quote inside a literal as \' (canonical: '')
	// Rev: the options of the variant are listed in the opposite order (IdomaticArrays before
	// PostgresEscapingDialect before Wrapped): an option set means the same in any order
	Rev bool `json:"rev,omitempty"`
}

var c17LitPieces = []string{"\"", "'", "`", "\\", "[", "]", "é", "日本", "a", " ", "[1,2]", "\"x\"", "\\\"", "]]", "[[", "''", "b", "😀", "\\\\", "ARRAY(", ")", ","}

// identifier texts (selector syntax) that resolve against c17 documents; the second list contains a
// double quote (spelled \" in the double-quote style).
var c17Idents = []string{"'wé b'", "it[0].k", "it[1].k", "'k[1]'", "é", "it[0]", "'br]['", "nokey", "'a b'.c"}
var c17IdentsBT = []string{"'q\"x'", "'say \"[hi]\"'"}
var c17Aliases = []string{"al [1] é", "a\\b", "\\[x", "v é", "a[0]", "[", "]", "it's", "日本", "x'y'z", "a b", "[[x]", "q]"}
var c17AliasesBT = []string{"q\"uote", "\"", "a\"[1]\"", "k\\", "tail [0]\\", "\\", "k\\\"", "a\\\\\"b"}

func genC17Literal(t *rapid.T, label string) string {
	n := rapid.IntRange(0, 6).Draw(t, label+".n")
	var sb strings.Builder
	for i := 0; i < n; i++ {
		sb.WriteString(rapid.SampledFrom(c17LitPieces).Draw(t, fmt.Sprintf("%s.%d", label, i)))
	}
	return sb.String()
}

func genC17Array(t *rapid.T, pt *ProjTable, depth int, identPool []string, label string) *sq.E {
	n := rapid.IntRange(0, 3).Draw(t, label+".n")
	var args []*sq.E
	for i := 0; i < n; i++ {
		l := fmt.Sprintf("%s.%d", label, i)
		k := rapid.IntRange(0, 6).Draw(t, l+".k")
		switch {
		case k <= 1 && depth > 1:
			args = append(args, genC17Array(t, pt, depth-1, identPool, l))
		case k == 2:
			args = append(args, sq.Str(genC17Literal(t, l+".s")))
		case k == 3:
			args = append(args, sq.Col(rapid.SampledFrom(identPool).Draw(t, l+".id")))
		case k == 4:
			args = append(args, pt.genNum(t, 1, false, l+".e"))
		case k == 5:
			args = append(args, sq.Call(rapid.SampledFrom([]string{"FIRST", "LAST"}).Draw(t, l+".fn"), genC17Array(t, pt, 1, identPool, l+".in")))
		default:
			args = append(args, sq.Num(genIntVal(t, l+".n")))
		}
	}
	return sq.Call("ARRAY", args...)
}

func arrayDepth(e *sq.E) int {
	d := 0
	for _, a := range e.A {
		if x := arrayDepth(a); x > d {
			d = x
		}
	}
	if e.K == "call" && strings.EqualFold(e.S, "ARRAY") {
		d++
	}
	return d
}

func genC17(t *rapid.T) any {
	pt := genProjTable(t, 1, 4, "t")
	// keys that need quoting / selectors
	for i, r := range pt.Tb.Rows {
		row := r.(map[string]any)
		row["wé b"] = float64(i + 1)
		row["k[1]"] = fmt.Sprintf("v%d", i)
		row["é"] = "e" + strings.Repeat("é", i)
		row["br]["] = true
		row["q\"x"] = float64(10 + i)
		row["say \"[hi]\""] = "hi"
		row["a b"] = map[string]any{"c": float64(i)}
		row["it"] = []any{map[string]any{"k": float64(i)}, map[string]any{"k": "two"}}
	}
	c := &C17Case{Doc: map[string]any{"t": pt.Tb.Rows}}
	// options: at least one on
	for !c.PG && !c.Arrays && !c.Wrapped {
		bits := rapid.IntRange(1, 7).Draw(t, "opts")
		c.PG, c.Arrays, c.Wrapped = bits&1 != 0, bits&2 != 0, bits&4 != 0
	}
	if c.PG {
		c.DQ = rapid.IntRange(0, 3).Draw(t, "dq") != 0
	}
	if c.Arrays {
		c.BR = rapid.IntRange(0, 3).Draw(t, "br") != 0
		c.Pad = rapid.IntRange(0, 3).Draw(t, "pad") == 0
	}
	c.BSQuote = rapid.IntRange(0, 2).Draw(t, "bsquote") == 0
	c.Rev = rapid.IntRange(0, 2).Draw(t, "rev") == 0
	if rapid.IntRange(0, 3).Draw(t, "poison") == 0 {
		c.Poison = rapid.SampledFrom([]string{"SELECT \"k\" FROM \"t\" WHERE \"s\" = 'bob\\", "SELECT \"k\\", "SELECT [1, [2 FROM \"t\"", "SELECT 1] FROM t", "SELECT 'abc\\", "SELECT \"a FROM t",
			"SELECT ']' , [ FROM \"t\"", "SELECT \"x\" FROM \"nosuch\" WHERE", "SELECT `k` FROM `t` WHERE s = 'it''s \\"}).Draw(t, "poisontext")
	}
	if c.Wrapped && rapid.IntRange(0, 2).Draw(t, "wrapshape") == 0 {
		c.FromMode = rapid.SampledFrom([]string{"", "", "unqualified", "dual-star"}).Draw(t, "frommode")
		// the input may have a key `root` of its own
		other := []any{}
		for i, r := range pt.Tb.Rows {
			if i%2 == 0 {
				other = append(other, r)
			}
		}
		c.Doc["root"] = map[string]any{"t": append(other, map[string]any{"k": -99.0, "s": "root-of-the-input"})}
	}
	if c.FromMode != "dual-star" && rapid.IntRange(0, 3).Draw(t, "nest") == 0 {
		c.Nest = rapid.SampledFrom([]string{"cte", "derived", "union"}).Draw(t, "nestkind")
	}
	if rapid.IntRange(0, 2).Draw(t, "prime") == 0 {
		own := map[[2]bool]string{{false, false}: "", {true, false}: "pg", {false, true}: "arrays", {true, true}: "pg+arrays"}[[2]bool{c.PG, c.Arrays}]
		var others []string
		for _, o := range []string{"", "pg", "arrays", "pg+arrays"} {
			if o != own {
				others = append(others, o)
			}
		}
		p := rapid.SampledFrom(others).Draw(t, "primeopts")
		c.Prime = &p
	}
	identPool := append([]string{}, c17Idents...)
	aliasPool := append([]string{}, c17Aliases...)
	// names containing a double quote: written as they are between backticks, with \" between double quotes
	identPool = append(identPool, c17IdentsBT...)
	aliasPool = append(aliasPool, c17AliasesBT...)
	c.Items = genSelectItems(t, pt, 3, 3, "sel")
	for i := range c.Items {
		if c.Items[i].Alias == "" {
			c.Items[i].Alias = fmt.Sprintf("o%d", i+1)
		}
	}
	used := map[string]bool{}
	alias := func(l string) string {
		for tries := 0; ; tries++ {
			a := rapid.SampledFrom(aliasPool).Draw(t, fmt.Sprintf("%s.alias%d", l, tries))
			if !used[a] {
				used[a] = true
				return a
			}
			if tries > 3 {
				a = fmt.Sprintf("x%d é", len(used))
				used[a] = true
				return a
			}
		}
	}
	nx := rapid.IntRange(1, 4).Draw(t, "nextra")
	for i := 0; i < nx; i++ {
		l := fmt.Sprintf("x%d", i)
		var e *sq.E
		switch rapid.IntRange(0, 4).Draw(t, l+".kind") {
		case 0:
			e = sq.Str(genC17Literal(t, l+".lit"))
		case 1:
			e = sq.Col(rapid.SampledFrom(identPool).Draw(t, l+".id"))
		case 2, 3:
			e = genC17Array(t, pt, rapid.IntRange(1, 4).Draw(t, l+".depth"), identPool, l+".arr")
		default:
			e = sq.Call("CONCAT", sq.Str(genC17Literal(t, l+".lit")), sq.Col(rapid.SampledFrom(identPool).Draw(t, l+".id")))
		}
		c.Items = append(c.Items, SelItem{Expr: e, Alias: alias(l)})
	}
	if c.DQ {
		for _, it := range c.Items {
			if rapid.IntRange(0, 3).Draw(t, "mixbt."+it.Alias) == 0 {
				c.MixBT = append(c.MixBT, it.Alias)
			}
		}
	}
	c.Items = rapid.Permutation(c.Items).Draw(t, "order")
	switch rapid.IntRange(0, 3).Draw(t, "where") {
	case 0:
		c.Where = pt.genBoolExpr(t, 1, "w")
	case 1:
		lit := genC17Literal(t, "wlit")
		c.Where = sq.Or(sq.Cmp("=", sq.Str(lit), sq.Str(lit)), sq.Cmp("=", sq.Col("'wé b'"), sq.Num(1)))
	case 2:
		c.Where = sq.Cmp("=", sq.Call("FIRST", sq.Call("ARRAY", sq.Num(1), sq.Call("ARRAY", sq.Str("]")))), sq.Col("'wé b'"))
	}
	return c
}

func (c *C17Case) render(variant bool) string {
	st := &sq.Style{Ident: "bt"}
	from := "t"
	if c.Wrapped && c.FromMode != "unqualified" {
		from = "root.t"
	}
	if c.Wrapped && c.FromMode == "dual-star" {
		return "SELECT * FROM dual"
	}
	if variant {
		if c.DQ {
			st.Ident = "dq"
			st.BT = map[string]bool{}
			for _, n := range c.MixBT {
				st.BT[n] = true
			}
		}
		if c.BR {
			st.Arrays = "br"
		}
		if c.BSQuote {
			st.Quote = "bs"
		}
	}
	s := "SELECT " + renderSelect(c.Items, 0, st) + " FROM " + sq.Ident(from, st)
	if c.Where != nil {
		s += " WHERE " + sq.Render(c.Where, st)
	}
	switch c.Nest {
	case "cte":
		s = "WITH c AS (" + s + ") SELECT * FROM c"
	case "derived":
		s = "SELECT * FROM (" + s + ") x"
	case "union":
		s = s + " UNION ALL " + s
	}
	if variant && c.BR && c.Pad {
		s = padBrackets(s)
	}
	return s
}

// padBrackets inserts white space after '[' and before ']' outside quotes (rendering detail of the
// bracket spelling).
func padBrackets(s string) string {
	var sb strings.Builder
	var q byte
	for i := 0; i < len(s); i++ {
		ch := s[i]
		switch {
		case q != 0:
			sb.WriteByte(ch)
			// in a string literal a backslash takes the next character along; in a double-quoted identifier
			// only \" is an escape (a backslash before anything else is an ordinary character); between
			// backticks there is no escape at all
			if ch == '\\' && i+1 < len(s) && (q == '\'' || (q == '"' && s[i+1] == '"')) {
				i++
				sb.WriteByte(s[i])
			} else if ch == q {
				q = 0
			}
		case ch == '\'' || ch == '"' || ch == '`':
			q = ch
			sb.WriteByte(ch)
		case ch == '[':
			sb.WriteString("[ ")
		case ch == ']':
			sb.WriteString("\n ]")
		default:
			sb.WriteByte(ch)
		}
	}
	return sb.String()
}

func checkC17(c *C17Case) Result {
	res := Result{}
	if c.DQ && !c.PG || c.BR && !c.Arrays {
		res.Discard = "spelling without its option"
		return res
	}
	canonSQL := c.render(false)
	varSQL := c.render(true)
	canonDoc := val.CopyMap(c.Doc)
	if c.Wrapped {
		canonDoc = map[string]any{"root": canonDoc}
	}
	if c.Poison != "" {
		Run(val.CopyMap(c.Doc), c.Poison, Opts{Wrapped: true, PG: true, Arrays: true})
		res.Execs++
		res.Labels = append(res.Labels, "after-a-rejected-query")
	}
	if c.Prime != nil {
		po := Opts{Wrapped: c.Wrapped, PG: strings.Contains(*c.Prime, "pg"), Arrays: strings.Contains(*c.Prime, "arrays")}
		Run(val.CopyMap(c.Doc), varSQL, po)
		res.Execs++
		res.Labels = append(res.Labels, "same-text-first-run-under-other-options")
	}
	canon := Run(canonDoc, canonSQL, Opts{})
	variant := Run(val.CopyMap(c.Doc), varSQL, Opts{Wrapped: c.Wrapped, PG: c.PG, Arrays: c.Arrays, Rev: c.Rev})
	res.Execs += 2
	o := Opts{Wrapped: c.Wrapped, PG: c.PG, Arrays: c.Arrays, Rev: c.Rev}
	res.Labels = append(res.Labels, "opts:"+o.String())
	if c.Nest != "" {
		res.Labels = append(res.Labels, "nested-in:"+c.Nest)
	}
	if _, own := c.Doc["root"]; own {
		res.Labels = append(res.Labels, "wrapped:input-has-own-root-key", "wrapped:from-"+map[string]string{"": "root.t", "unqualified": "unqualified-name", "dual-star": "dual-star"}[c.FromMode])
	}
	if c.DQ {
		res.Labels = append(res.Labels, "spelling:double-quoted-identifiers")
	}
	if c.BR {
		res.Labels = append(res.Labels, "spelling:brackets")
	}
	if c.BSQuote {
		res.Labels = append(res.Labels, "spelling:backslash-escaped-quotes")
	}
	hostile := false
	maxDepth := 0
	check := func(e *sq.E) {
		e.Walk(func(x *sq.E) {
			if (x.K == "str" || x.K == "col") && strings.ContainsAny(x.S, "\"'`\\[]") || hasMultiByte(x.S) {
				hostile = true
			}
		})
		if d := arrayDepth(e); d > maxDepth {
			maxDepth = d
		}
	}
	for _, it := range c.Items {
		check(it.Expr)
		if strings.ContainsAny(it.Alias, "\"'`\\[]") || hasMultiByte(it.Alias) {
			hostile = true
		}
	}
	if c.Where != nil {
		check(c.Where)
	}
	res.Labels = append(res.Labels, fmt.Sprintf("array-depth:%d", maxDepth))
	if canon.OK() {
		res.Labels = append(res.Labels, "canonical:ok")
	} else {
		res.Labels = append(res.Labels, "canonical:fails")
	}
	res.NonTrivial = canon.OK() && len(canon.Rows) > 0 && (hostile || maxDepth >= 2)
	describe := func() string {
		return fmt.Sprintf("options %s\n  variant   %s\n    -> %s\n  canonical %s\n    -> %s", o, varSQL, variant.Describe(), canonSQL, canon.Describe())
	}
	if variant.Panic != "" {
		res.Violation = "panic escaped the API\n  " + describe()
		return res
	}
	if canon.Panic != "" {
		res.Discard = "canonical query panics (C10 territory)"
		return res
	}
	if canon.OK() != variant.OK() {
		res.Violation = "one spelling fails, the other does not\n  " + describe()
		return res
	}
	if !canon.OK() {
		return res
	}
	if !seqEqual(canon.Rows, variant.Rows) {
		res.Violation = "results differ\n  " + describe()
		return res
	}
	// direct echo oracle for pure string-literal items
	for _, it := range c.Items {
		if it.Expr.K != "str" || (c.Wrapped && c.FromMode == "dual-star") || c.Nest == "derived" {
			continue
		}
		for _, r := range variant.Rows {
			row, _ := r.(map[string]any)
			if got, ok := row[it.Alias].(string); !ok || got != it.Expr.S {
				res.Violation = fmt.Sprintf("string literal %q came back as %s under alias %q\n  %s", it.Expr.S, val.JSON(row[it.Alias]), it.Alias, describe())
				return res
			}
		}
	}
	return res
}

func hasMultiByte(s string) bool {
	for i := 0; i < len(s); i++ {
		if s[i] >= 0x80 {
			return true
		}
	}
	return false
}

var _ = genql.Wrapped

func init() {
	Register(&Prop{
		ID:    "C17",
		Title: "Dialect options rewrite only syntax and preserve query meaning",
		Rule: "[Dimensions added in rounds p-r of the seeded-defect evaluation: in a third of the cases the options of the variant are listed in reverse order.] " +
			"rapid draws a table (typed columns plus keys that need selector quoting: multi-byte, brackets, double quotes, spaces, nested arrays), a " +
			"select list mixing typed expressions (C02 grammar), string literals over an alphabet of \" ' ` \\ [ ] and multi-byte runes, identifiers " +
			"in selector syntax, aliases with the same hostile characters, ARRAY expressions nested to depth 4 (with literals containing brackets, " +
			"identifiers containing brackets, FIRST/LAST over arrays), an optional WHERE, and a non-empty option set out of the 2^3-1 combinations; " +
			"the variant (options on; double-quoted identifiers when PostgresEscapingDialect is on, [..] arrays when IdiomaticArrays is on, each " +
			"also left in canonical spelling sometimes; quotes inside literals spelled \\' instead of '' in a third of the cases; a quarter of the cases first execute a query that the rewriters reject (dangling backslash, unbalanced bracket or quote) under all options; optional white space inside brackets; a third of the cases first run the very same text under another option set; under Wrapped the input may carry a key `root` of its own and the query may read FROM an unqualified name or SELECT * FROM dual) must behave exactly like the canonical query (no " +
			"options, backticks, ARRAY(..), input {\"root\": input} for Wrapped): same rows in the same order or both fail; pure string-literal " +
			"items must echo exactly. Non-trivial: canonical query returns >=1 row and a literal/identifier/alias contains one of the hostile " +
			"characters or an array nests >=2 deep.",
		Assumptions: []string{
			"identifier and alias contents exclude the double quote (in double-quoted spelling) and the backtick (always): escaping them inside the other style is unspecified",
			"identifier contents do not end in a backslash",
			"unbalanced brackets / quotes belong to C10",
		},
		Gen:         genC17,
		New:         func() any { return &C17Case{} },
		Check:       func(c any) Result { return checkC17(c.(*C17Case)) },
		FuzzTargets: []string{"FuzzRewriters"},
		FuzzSeconds: 240,
		Quick:       4000,
		Thorough:    300000,
	})
}

package checks

import (
	"encoding/json"
	"fmt"
	"regexp"
	"runtime"
	"strings"
	"sync"
	"time"

	"github.com/vedadiyan/genql"
	"pgregory.net/rapid"
	"verifharness/selref"
	"verifharness/val"
)

// C13 - concurrent queries are free of data races, crashes and cross-talk.
//
// A case is a batch: G goroutines, each with a list of queries / selectors, released together by a
// barrier inside a child process built with the race detector (GORACE=halt_on_error). After the
// concurrent phase the child re-runs every query alone on a private copy of its document and
// compares.

type C13Q struct {
	Doc       int    `json:"doc"`
	SQL       string `json:"sql"`
	Selector  bool   `json:"selector,omitempty"` // SQL is a path selector for ExecReader
	Wrapped   bool   `json:"wrapped,omitempty"`
	Unordered bool   `json:"unordered,omitempty"`
	PG        bool   `json:"pg,omitempty"`     // PostgresEscapingDialect on
	Arrays    bool   `json:"arrays,omitempty"` // IdiomaticArrays on
	// Cells: cells of sinkCells that the query's vf_sink calls must have set by the time Exec returns
	Cells []int `json:"cells,omitempty"`
	// Ref (path selectors): the selector in structured form; every outcome, concurrent or alone, is also judged
	// by the reference evaluator of the documented meaning - what a selector text means does not depend on the
	// documents other callers evaluated it on
	Ref *selref.Selector `json:"ref,omitempty"`
}

type C13Batch struct {
	Scenario string           `json:"scenario"`
	Docs     []map[string]any `json:"docs"`
	Shared   bool             `json:"shared,omitempty"` // all goroutines use the same document object (Docs[0])
	G        [][]C13Q         `json:"g"`
	Procs    int              `json:"procs,omitempty"`
	Repeat   int              `json:"repeat,omitempty"` // each goroutine runs its list this many times
	// Prelude: statements executed one after the other, on private documents, before the goroutines start; most of
	// them fail (a join whose key column cannot be read on some row, a planted RAISE, a broken selector). Whatever
	// they return is ignored: what the concurrent queries return must not depend on what failed earlier in the process
	Prelude []C13Q `json:"prelude,omitempty"`
}

var c13PreludeDoc = map[string]any{
	"pa": []any{map[string]any{"k": 1.0, "tags": []any{"a"}}, map[string]any{"k": 2.0, "tags": []any{}}, map[string]any{"k": 3.0, "tags": []any{"b", "c"}}},
	"pb": []any{map[string]any{"k": 1.0, "tag": "a"}, map[string]any{"k": 3.0, "tag": "b"}},
}

var c13PreludeSQL = []string{
	"SELECT * FROM pa x JOIN pb y ON x.`tags[0]` = y.tag",
	"SELECT * FROM pb y JOIN pa x ON y.tag = x.`tags[0]`",
	"SELECT * FROM pa x LEFT HASH_JOIN pb y ON x.`tags[0]` = y.tag",
	"SELECT * FROM pa x PARALLEL JOIN pb y ON x.`tags[1]` = y.tag",
	"SELECT * FROM pa x RIGHT JOIN pb y ON x.`k.z` = y.k",
	"SELECT * FROM pa x JOIN pb y ON x.k = y.k AND RAISE('stop')",
	"SELECT * FROM pa x PARALLEL HASH_JOIN pb y ON x.`tags[(0:5)]` = y.tag",
	"SELECT DISTINCT `tags[0]` AS f FROM pa",
	"SELECT k, `tags[0]` AS f FROM pa ORDER BY f",
	"SELECT k, HASH(tags, 'md5') AS h, ENCODE(tags, 'hex') AS e FROM pa",
	"SELECT k FROM pa GROUP BY `tags[0]`",
	"SELECT k FROM `pa[7]`",
	"SELECT (SELECT k FROM `<-pb[9]`) AS s FROM pa",
	"SELECT k FROM pa WHERE RAISE_WHEN(k > 1, 'late') IS NULL",
}

type C13Case struct {
	Batch C13Batch `json:"batch"`
}

var c13Parallel = []string{"parallel-join", "hash-join", "join", "left-join", "join-derived", "cte-twice", "fn-args"}

func renameCols(s string, names []string, suffix string) string {
	for _, n := range names {
		re := regexp.MustCompile(`\b` + regexp.QuoteMeta(n) + `\b`)
		s = re.ReplaceAllString(s, n+suffix)
	}
	return s
}

func renameDoc(v any, names map[string]bool, suffix string) any {
	switch t := v.(type) {
	case map[string]any:
		m := make(map[string]any, len(t))
		for k, x := range t {
			nk := k
			if names[k] {
				nk = k + suffix
			}
			m[nk] = renameDoc(x, names, suffix)
		}
		return m
	case []any:
		s := make([]any, len(t))
		for i, x := range t {
			s[i] = renameDoc(x, names, suffix)
		}
		return s
	}
	return v
}

func genC13(t *rapid.T) any {
	b := C13Batch{}
	b.Scenario = rapid.SampledFrom([]string{"fresh-selectors-separate-documents", "fresh-selectors-separate-documents", "warm-selectors-separate-documents", "shared-document", "shared-document", "internal-parallelism", "path-selectors", "same-query-text", "same-query-text", "function-side-effects", "own-constants", "built-in-functions"}).Draw(t, "scenario")
	b.Procs = rapid.SampledFrom([]int{1, 2, 4, 16}).Draw(t, "procs")
	b.Repeat = rapid.IntRange(1, 3).Draw(t, "repeat")
	ng := rapid.IntRange(2, 8).Draw(t, "goroutines")
	b.Shared = b.Scenario == "shared-document"
	fresh := strings.HasPrefix(b.Scenario, "fresh") || b.Scenario == "path-selectors" || (b.Shared && rapid.Bool().Draw(t, "sharedfresh"))
	suffix := ""
	if fresh {
		suffix = fmt.Sprintf("_%d", rapid.IntRange(0, 1<<30).Draw(t, "nonce"))
	}
	var sharedDoc map[string]any
	var sharedSc *c07Schema
	if b.Shared {
		sharedDoc, sharedSc = genC07Doc(t)
		// an array of arrays for multi-dimensional selectors on the shared document
		var mx []any
		for r, nr := 0, rapid.IntRange(2, 4).Draw(t, "mx.rows"); r < nr; r++ {
			var line []any
			for e, ne := 0, rapid.IntRange(1, 5).Draw(t, fmt.Sprintf("mx.r%d.n", r)); e < ne; e++ {
				line = append(line, float64(r*10+e))
			}
			mx = append(mx, line)
		}
		sharedDoc["mx"] = mx
	}
	if b.Scenario == "own-constants" {
		// every goroutine filters a table of its own (20-60 rows) with constants of its own - LIKE patterns, IN
		// lists, BETWEEN bounds, strings compared for equality: what one query compares with is its own business
		for g := 0; g < ng; g++ {
			nr := rapid.IntRange(20, 60).Draw(t, fmt.Sprintf("g%d.rows", g))
			rows := []any{}
			for r := 0; r < nr; r++ {
				rows = append(rows, map[string]any{"k": float64(r), "s": fmt.Sprintf("p%dx%d", r%ng, r), "n": float64(r % ng)})
			}
			doc := map[string]any{"t": rows}
			nq := rapid.IntRange(1, 3).Draw(t, fmt.Sprintf("g%d.n", g))
			var list []C13Q
			for qi := 0; qi < nq; qi++ {
				l := fmt.Sprintf("g%d.q%d", g, qi)
				cond := rapid.SampledFrom([]string{"s LIKE 'p%dx%%'", "s NOT LIKE 'p%dx%%'", "s LIKE 'P%dX_'", "s LIKE '%%%d'", "n IN (%d, 99)", "n NOT IN (%d)", "n BETWEEN %d AND %d", "s = 'p%dx%d'", "s > 'p%d'",
					"CASE WHEN s LIKE 'p%dx%%' THEN n ELSE -1 END = %d", "k IN (SELECT k FROM `<-t` WHERE s LIKE 'p%dx%%')"}).Draw(t, l+".cond")
				args := make([]any, strings.Count(cond, "%d"))
				for i := range args {
					args[i] = g
				}
				cond = fmt.Sprintf(cond, args...)
				b.Docs = append(b.Docs, val.CopyMap(doc))
				list = append(list, C13Q{Doc: len(b.Docs) - 1, SQL: "SELECT k, s FROM t WHERE " + cond})
			}
			b.G = append(b.G, list)
		}
		return &C13Case{Batch: b}
	}
	if b.Scenario == "built-in-functions" {
		genC13Builtins(t, &b, ng)
		return &C13Case{Batch: b}
	}
	if b.Scenario == "function-side-effects" {
		// ASYNC / SPINASYNC calls in top-level and nested positions write, unsynchronised, one cell per
		// invocation; the caller reads the cells as soon as Exec has returned
		next := 0
		for g := 0; g < ng; g++ {
			nq := rapid.IntRange(1, 3).Draw(t, fmt.Sprintf("g%d.n", g))
			var list []C13Q
			for qi := 0; qi < nq; qi++ {
				l := fmt.Sprintf("g%d.q%d", g, qi)
				q := C13Q{Doc: len(b.Docs)}
				mkrows := func(n int) []any {
					rows := []any{}
					for r := 0; r < n; r++ {
						rows = append(rows, map[string]any{"k": float64(r), "cell": float64(next), "items": []any{map[string]any{"c": 1.0, "cell": float64(next + 1)}}})
						next += 2
					}
					return rows
				}
				first := next
				doc := map[string]any{"t": mkrows(rapid.IntRange(1, 4).Draw(t, l+".rows"))}
				doc["grid"] = []any{mkrows(rapid.IntRange(0, 2).Draw(t, l+".g0")), mkrows(rapid.IntRange(1, 2).Draw(t, l+".g1"))}
				form := rapid.SampledFrom([]string{"top", "top-async", "derived", "derived-async", "cte", "scalar-subquery", "scalar-subquery-async", "inner-arrays", "inner-arrays-async", "join-derived"}).Draw(t, l+".form")
				qual := map[bool]string{false: "SPINASYNC.vf_sink(cell)", true: "ASYNC.vf_sink(cell) AS a"}[strings.HasSuffix(form, "-async")]
				own := func(rows []any, nested bool) {
					for _, r := range rows {
						m := r.(map[string]any)
						if nested {
							q.Cells = append(q.Cells, int(m["items"].([]any)[0].(map[string]any)["cell"].(float64)))
						} else {
							q.Cells = append(q.Cells, int(m["cell"].(float64)))
						}
					}
				}
				switch strings.TrimSuffix(form, "-async") {
				case "top":
					q.SQL = "SELECT k, " + qual + " FROM t"
					own(doc["t"].([]any), false)
				case "derived":
					q.SQL = "SELECT * FROM (SELECT k, " + qual + " FROM t) x"
					own(doc["t"].([]any), false)
				case "cte":
					q.SQL = "WITH c AS (SELECT k, " + qual + " FROM t) SELECT * FROM c"
					own(doc["t"].([]any), false)
				case "scalar-subquery":
					q.SQL = "SELECT k, (SELECT c, " + qual + " FROM items) AS sb FROM t"
					own(doc["t"].([]any), true)
				case "inner-arrays":
					q.SQL = "SELECT k, " + qual + " FROM grid"
					for _, in := range doc["grid"].([]any) {
						own(in.([]any), false)
					}
				case "join-derived":
					q.SQL = "SELECT * FROM (SELECT k, SPINASYNC.vf_sink(cell) FROM t) x JOIN t y ON x.k = y.k"
					q.Unordered = true
					own(doc["t"].([]any), false)
				}
				_ = first
				b.Docs = append(b.Docs, doc)
				list = append(list, q)
			}
			b.G = append(b.G, list)
		}
		return &C13Case{Batch: b}
	}
	for g := 0; g < ng; g++ {
		nq := rapid.IntRange(1, 4).Draw(t, fmt.Sprintf("g%d.n", g))
		var list []C13Q
		for qi := 0; qi < nq; qi++ {
			var w *WideQ
			var sc *c07Schema
			var only []string
			if b.Scenario == "internal-parallelism" {
				only = c13Parallel
			}
			if b.Scenario == "same-query-text" {
				only = []string{"cte-union", "cte-union", "cte", "cte-twice", "union", "join", "join-unaliased", "derived-cte", "sel-sub", "exists", "group", "order-limit"}
			}
			if b.Shared {
				sc = sharedSc
				w = genWideOn(t, sharedDoc, sharedSc, only)
				w.Wrapped = false
			} else {
				var doc map[string]any
				doc, sc = genC07Doc(t)
				w = genWideOn(t, doc, sc, only)
			}
			sql := w.SQL(-1, "")
			if b.Scenario == "internal-parallelism" && w.Construct == "fn-args" {
				sql = strings.Replace(sql, "vf_id(", rapid.SampledFrom([]string{"ASYNC.vf_id(", "SPINASYNC.vf_id(", "ASYNC.vf_id("}).Draw(t, "strategy"), 1)
			}
			if b.Scenario == "internal-parallelism" && !w.Wrapped && rapid.IntRange(0, 3).Draw(t, "asyncsub") == 0 {
				// an ASYNC / SPINASYNC call whose argument is itself a sub query (row-scoped or over the document):
				// the call's own goroutine and the sub query's bookkeeping meet on the enclosing query
				qual := rapid.SampledFrom([]string{"ASYNC", "ASYNC", "SPINASYNC"}).Draw(t, "asyncsub.q")
				arg := rapid.SampledFrom([]string{"(SELECT " + sc.p + " FROM " + sc.items + ")", "(SELECT COUNT(*) AS n FROM " + sc.items + ")", "(SELECT " + sc.t2c + " FROM `<-t2`)",
					"(SELECT " + sc.p + " FROM " + sc.items + " WHERE " + sc.p + " > 1)", "(SELECT ASYNC.vf_id(" + sc.p + ") AS a FROM " + sc.items + ")"}).Draw(t, "asyncsub.arg")
				fn := rapid.SampledFrom([]string{"FIRST(%s)", "vf_id(%s)", "ARRAY(%s, " + sc.k + ")"}).Draw(t, "asyncsub.fn")
				sql = "SELECT " + sc.k + ", " + qual + "." + fmt.Sprintf(fn, arg) + " AS a, " + sc.s + " FROM t"
				if rapid.Bool().Draw(t, "asyncsub.two") {
					sql = strings.Replace(sql, " FROM t", ", ASYNC.vf_id("+arg+") AS b FROM t", 1)
				}
				w.Unordered = false
			}
			if b.Scenario == "internal-parallelism" && !w.Wrapped && rapid.IntRange(0, 3).Draw(t, "failingon") == 0 {
				// PARALLEL joins whose ON evaluation fails for every pair (an error for the query, and nothing else:
				// no crash, no worker left behind, no query that never returns)
				kw := rapid.SampledFrom([]string{"PARALLEL JOIN", "PARALLEL LEFT JOIN", "PARALLEL RIGHT JOIN", "PARALLEL STRAIGHT_JOIN"}).Draw(t, "failkw")
				bad := rapid.SampledFrom([]string{"x." + sc.k + " + y." + sc.t2c, "x." + sc.k + " > y." + sc.t2c + " AND x." + sc.s, "NOT x." + sc.v, "x." + sc.items + " LIKE y." + sc.t2c, "x." + sc.k + " < y." + sc.t2c + " AND (x." + sc.v + " + 1)"}).Draw(t, "failon")
				sql = "SELECT * FROM t x " + kw + " t2 y ON " + bad
				w.Unordered = true // should the ON clause evaluate after all, a PARALLEL join fixes no row order
			}
			names := []string{sc.k, sc.s, sc.v, sc.items, sc.p, sc.q, sc.t2c}
			q := C13Q{SQL: sql, Wrapped: w.Wrapped, Unordered: w.Unordered}
			if b.Scenario == "path-selectors" {
				q.Selector = true
				q.SQL = rapid.SampledFrom([]string{"t[0]." + sc.k, "t." + sc.s, "t[each]." + sc.items + "[0]." + sc.p, "t[0:1]", "t2[each]." + sc.t2c, "t.{" + sc.k + "|string}", "mix=>t." + sc.items, "t[(0:1)]." + sc.v,
					"t::[0]", "t." + sc.k + "::[0]", "t[each]." + sc.items + "::[0]", "t2::[each]." + sc.t2c, "t::[0]::" + sc.s, "t." + sc.items + "::[0]::[0]." + sc.p}).Draw(t, "selector")
			}
			if q.Selector && rapid.IntRange(0, 2).Draw(t, "refsel") == 0 {
				// open-ended ranges over tables whose lengths differ from document to document, judged by the reference
				tbl := rapid.SampledFrom([]string{"t", "t", "t2"}).Draw(t, "refsel.tbl")
				d := selref.Dim{K: "range", From: -1, To: -1}
				switch rapid.IntRange(0, 3).Draw(t, "refsel.form") {
				case 0:
					d.From = 1
				case 1:
					d.From = 0
				case 2:
					d.To = 1
				default:
					d.From, d.To = 1, 2
				}
				steps := []selref.Step{{K: "key", Key: tbl}, {K: "idx", Dims: []selref.Dim{d}}}
				if rapid.Bool().Draw(t, "refsel.key") {
					steps = append(steps, selref.Step{K: "key", Key: map[string]string{"t": sc.k, "t2": sc.t2c}[tbl]})
				}
				q.Ref = &selref.Selector{Parts: []selref.Part{{Steps: steps}}}
				q.SQL = q.Ref.String()
			}
			if b.Shared && rapid.IntRange(0, 3).Draw(t, "mxsel") == 0 {
				// multi-dimensional selectors over the shared array of arrays, judged by the reference: what one reader
				// flattens or cuts out must not show in what the others read
				dim := func(l string) selref.Dim {
					switch rapid.IntRange(0, 4).Draw(t, l) {
					case 0:
						return selref.Dim{K: "each"}
					case 1:
						return selref.Dim{K: "i", I: 0}
					case 2:
						return selref.Dim{K: "range", From: 0, To: 1}
					case 3:
						return selref.Dim{K: "range", From: -1, To: 1}
					}
					return selref.Dim{K: "range", From: 0, To: -1}
				}
				st := selref.Step{K: "idx", Dims: []selref.Dim{dim("mxsel.d0")}, Keep: rapid.IntRange(0, 4).Draw(t, "mxsel.keep") == 0}
				if rapid.IntRange(0, 3).Draw(t, "mxsel.two") != 0 {
					st.Dims = append(st.Dims, dim("mxsel.d1"))
				}
				q.Selector, q.PG, q.Arrays = true, false, false
				q.Ref = &selref.Selector{Parts: []selref.Part{{Steps: []selref.Step{{K: "key", Key: "mx"}, st}}}}
				q.SQL = q.Ref.String()
			}
			if !q.Selector && !w.Wrapped && rapid.IntRange(0, 4).Draw(t, "chained") == 0 {
				// a chained selector (`::`) as FROM path: parsed link by link on first use
				q.SQL = strings.Replace(q.SQL, " FROM t", " FROM `t::[0:"+fmt.Sprint(rapid.IntRange(1, 3).Draw(t, "chainhi"))+"]`", 1)
			}
			if suffix != "" {
				q.SQL = renameCols(q.SQL, names, suffix)
				if q.Ref != nil {
					for pi := range q.Ref.Parts {
						for si := range q.Ref.Parts[pi].Steps {
							st := &q.Ref.Parts[pi].Steps[si]
							for _, n := range names {
								if st.K == "key" && st.Key == n {
									st.Key = n + suffix
								}
							}
						}
					}
					q.SQL = q.Ref.String()
				}
			}
			if !q.Selector && !strings.ContainsAny(q.SQL, "\"[]") && rapid.IntRange(0, 2).Draw(t, "dialect") == 0 {
				// the text-rewriting options run inside New for every query built with them (the text uses neither spelling)
				ob := rapid.IntRange(1, 3).Draw(t, "dialectbits")
				q.PG, q.Arrays = ob&1 != 0, ob&2 != 0
			}
			if b.Shared {
				q.Doc = 0
			} else {
				nm := map[string]bool{}
				for _, n := range names {
					nm[n] = true
				}
				d := w.Doc
				if suffix != "" {
					d = renameDoc(d, nm, suffix).(map[string]any)
				}
				b.Docs = append(b.Docs, d)
				q.Doc = len(b.Docs) - 1
			}
			list = append(list, q)
			if rapid.IntRange(0, 7).Draw(t, "poison") == 0 {
				// a text the rewriters reject, built right next to the others: its failure must stay its own
				list = append(list, C13Q{Doc: q.Doc, PG: true, Arrays: true, SQL: rapid.SampledFrom([]string{"SELECT * FROM \"t\" WHERE \"t\".\"a\" = 'abc\\", "SELECT \"k\\", "SELECT [1, [2 FROM \"t\"", "SELECT 1] FROM t",
					"SELECT 'abc\\", "SELECT \"a FROM t", "SELECT ']' , [ FROM \"t\""}).Draw(t, "poisontext")})
			}
		}
		b.G = append(b.G, list)
	}
	if b.Scenario == "same-query-text" {
		// every goroutine runs the list of the first one (same texts, own copies of the documents)
		for g := 1; g < len(b.G); g++ {
			b.G[g] = append([]C13Q{}, b.G[0]...)
		}
	}
	if b.Shared {
		d := sharedDoc
		if suffix != "" {
			nm := map[string]bool{}
			for _, n := range []string{sharedSc.k, sharedSc.s, sharedSc.v, sharedSc.items, sharedSc.p, sharedSc.q, sharedSc.t2c} {
				nm[n] = true
			}
			d = renameDoc(d, nm, suffix).(map[string]any)
		}
		b.Docs = []map[string]any{d}
	}
	return &C13Case{Batch: b}
}

// genC13Builtins fills the batch of scenario built-in-functions: every query calls the library's own functions
// (HASH with each digest, ENCODE / DECODE with each base, CONCAT, CHANGETYPE, ARRAY / UNWIND / FIRST / LAST /
// ELEMENTAT, IF, TO_UPPER / TO_LOWER, also nested in one another) as select items, plain or ASYNC-qualified, at
// the top level or inside a derived table / CTE / WHERE clause, over tables of 1-12 rows whose string column has
// a per-table length class (a few bytes to a few kilobytes). The goroutines read tables of their own or all the
// same one. What a call returns for a row is the business of that call alone; the solo run says what that is.
func genC13Builtins(t *rapid.T, b *C13Batch, ng int) {
	mkdoc := func(l string) map[string]any {
		nr := rapid.IntRange(1, 12).Draw(t, l+".rows")
		reps := rapid.SampledFrom([]int{1, 1, 3, 40, 400}).Draw(t, l+".len")
		rows := []any{}
		for r := 0; r < nr; r++ {
			w := rapid.SampledFrom([]string{"a", "Bc", "xyz ", "q-7", "Zz"}).Draw(t, fmt.Sprintf("%s.r%d.w", l, r))
			nt := rapid.IntRange(0, 3).Draw(t, fmt.Sprintf("%s.r%d.tags", l, r))
			tags := []any{}
			for i := 0; i < nt; i++ {
				if rapid.IntRange(0, 2).Draw(t, fmt.Sprintf("%s.r%d.t%d", l, r, i)) == 0 {
					tags = append(tags, []any{fmt.Sprintf("n%d", i), float64(r)})
				} else {
					tags = append(tags, fmt.Sprintf("%s%d", w, i))
				}
			}
			rows = append(rows, map[string]any{"k": float64(r), "s": strings.Repeat(w, reps) + fmt.Sprint(r), "n": float64(r%4) + 0.5, "ns": fmt.Sprint(r * 7), "tags": tags})
		}
		return map[string]any{"t": rows}
	}
	b.Shared = rapid.IntRange(0, 2).Draw(t, "fn.shared") == 0
	if b.Shared {
		b.Docs = []map[string]any{mkdoc("shared")}
	}
	for g := 0; g < ng; g++ {
		nq := rapid.IntRange(1, 3).Draw(t, fmt.Sprintf("g%d.n", g))
		var list []C13Q
		for qi := 0; qi < nq; qi++ {
			l := fmt.Sprintf("g%d.q%d", g, qi)
			scalar := func(l string) string {
				return rapid.SampledFrom([]string{"s", "s", "n", "k", "ns", "CONCAT(s, k)", "TO_UPPER(s)", "CONCAT(ns, '-', n)"}).Draw(t, l+".arg")
			}
			call := func(l string) (string, bool) {
				// the call and whether it may carry the ASYNC qualifier (immediate functions may not)
				switch rapid.SampledFrom([]string{"hash", "hash", "hash", "encode", "decode", "concat", "changetype", "array", "unwind", "pick", "if", "case", "hash-of-encode"}).Draw(t, l+".fn") {
				case "hash":
					return "HASH(" + scalar(l) + ", '" + rapid.SampledFrom([]string{"sha1", "sha256", "sha512", "md5", "MD5", "Sha256"}).Draw(t, l+".alg") + "')", true
				case "encode":
					return "ENCODE(" + scalar(l) + ", '" + rapid.SampledFrom([]string{"base64", "base32", "hex"}).Draw(t, l+".base") + "')", true
				case "decode":
					base := rapid.SampledFrom([]string{"base64", "base32", "hex"}).Draw(t, l+".base")
					return "DECODE(ENCODE(" + scalar(l) + ", '" + base + "'), '" + base + "')", true
				case "concat":
					return "CONCAT(" + scalar(l+".0") + ", '-', " + scalar(l+".1") + ")", true
				case "changetype":
					return rapid.SampledFrom([]string{"CHANGETYPE(n, 'string')", "CHANGETYPE(k, 'integer')", "CHANGETYPE(ns, 'double')", "CHANGETYPE(s, 'array')", "CHANGETYPE(ns, 'integer')"}).Draw(t, l+".ct"), true
				case "array":
					return "ARRAY(" + scalar(l+".0") + ", " + scalar(l+".1") + ", k)", true
				case "unwind":
					return rapid.SampledFrom([]string{"UNWIND(tags)", "UNWIND(ARRAY(tags, tags))", "FIRST(UNWIND(tags))", "UNWIND(ARRAY(k, ARRAY(s, n)))"}).Draw(t, l+".uw"), true
				case "pick":
					return rapid.SampledFrom([]string{"FIRST(tags)", "LAST(tags)", "ELEMENTAT(ARRAY(k, s, n), 1)", "LAST(ARRAY(k, s))", "FIRST(ARRAY(HASH(s, 'sha1'), k))"}).Draw(t, l+".pick"), true
				case "if":
					return "IF(k > 1, " + scalar(l+".0") + ", " + scalar(l+".1") + ")", true
				case "case":
					return rapid.SampledFrom([]string{"TO_UPPER(s)", "TO_LOWER(s)", "TO_LOWER(CONCAT(s, 'X'))", "TO_UPPER(HASH(s, 'md5'))"}).Draw(t, l+".case"), false
				}
				return "HASH(ENCODE(" + scalar(l) + ", 'hex'), '" + rapid.SampledFrom([]string{"sha1", "sha256", "sha512", "md5"}).Draw(t, l+".alg") + "')", true
			}
			ni := rapid.IntRange(1, 4).Draw(t, l+".items")
			items := []string{"k"}
			for i := 0; i < ni; i++ {
				il := fmt.Sprintf("%s.i%d", l, i)
				c, asyncable := call(il)
				if asyncable && rapid.IntRange(0, 2).Draw(t, il+".async") == 0 {
					c = "ASYNC." + c
				}
				items = append(items, fmt.Sprintf("%s AS c%d", c, i))
			}
			sel := "SELECT " + strings.Join(items, ", ") + " FROM t"
			q := C13Q{}
			switch rapid.SampledFrom([]string{"top", "top", "top", "derived", "cte", "where", "scalar-subquery"}).Draw(t, l+".form") {
			case "top":
				q.SQL = sel
			case "derived":
				q.SQL = "SELECT * FROM (" + sel + ") x"
			case "cte":
				q.SQL = "WITH c AS (" + sel + ") SELECT * FROM c"
			case "where":
				c, _ := call(l + ".w")
				q.SQL = sel + " WHERE " + c + " IS NOT NULL AND k >= " + fmt.Sprint(rapid.IntRange(0, 2).Draw(t, l+".lo"))
			case "scalar-subquery":
				c, _ := call(l + ".sq")
				q.SQL = "SELECT k, (SELECT " + c + " AS c FROM `<-t` LIMIT 1) AS sb FROM t"
			}
			if b.Shared {
				q.Doc = 0
			} else {
				b.Docs = append(b.Docs, mkdoc(l))
				q.Doc = len(b.Docs) - 1
			}
			list = append(list, q)
		}
		b.G = append(b.G, list)
	}
}

type c13Outcome struct {
	Status string // ok | error | panic
	Rows   []any
	Value  any
	Detail string
}

func c13Exec(q *C13Q, doc map[string]any) c13Outcome {
	if q.Selector {
		v, e, p := ReadSel(doc, q.SQL)
		switch {
		case p != "":
			return c13Outcome{Status: "panic", Detail: p}
		case e != "":
			return c13Outcome{Status: "error", Detail: e}
		}
		return c13Outcome{Status: "ok", Value: val.Norm(v)}
	}
	for _, c := range q.Cells {
		sinkCells[c] = 0
	}
	o := Run(doc, q.SQL, Opts{Wrapped: q.Wrapped, PG: q.PG, Arrays: q.Arrays}, genql.UnReportedErrors(func(error) {}))
	switch {
	case o.Panic != "":
		return c13Outcome{Status: "panic", Detail: o.Panic}
	case o.Err != "":
		return c13Outcome{Status: "error", Detail: o.Err}
	}
	for _, c := range q.Cells {
		// plain read: Exec has returned, so every ASYNC / SPINASYNC call of the query has completed
		if sinkCells[c] != 1 {
			return c13Outcome{Status: "incomplete", Detail: fmt.Sprintf("Exec returned, but the vf_sink call for cell %d has not completed (cells of this query: %v)", c, q.Cells)}
		}
	}
	return c13Outcome{Status: "ok", Rows: o.Rows}
}

func c13Same(q *C13Q, a, b c13Outcome) bool {
	if a.Status != b.Status {
		return false
	}
	if a.Status != "ok" {
		return true
	}
	if q.Selector {
		return val.Equal(a.Value, b.Value)
	}
	if q.Unordered {
		return val.MultisetEqual(a.Rows, b.Rows)
	}
	return seqEqual(a.Rows, b.Rows)
}

// runBatch executes inside the child process.
func runBatch(job *WJob) WResult {
	res := WResult{ID: job.ID, Status: "ok"}
	b := job.Batch
	if b == nil {
		res.Status, res.Detail = "error", "harness: no batch"
		return res
	}
	if b.Procs > 0 {
		runtime.GOMAXPROCS(b.Procs)
	}
	repeat := b.Repeat
	if repeat < 1 {
		repeat = 1
	}
	// documents for the concurrent phase
	live := make([]map[string]any, len(b.Docs))
	for i, d := range b.Docs {
		live[i] = val.CopyMap(d)
	}
	for i := range b.Prelude {
		q := &b.Prelude[i]
		if q.Doc >= 0 && q.Doc < len(b.Docs) {
			c13Exec(q, val.CopyMap(b.Docs[q.Doc]))
		}
	}
	type slot struct {
		q   *C13Q
		out []c13Outcome
	}
	slots := make([][]slot, len(b.G))
	var ready, done sync.WaitGroup
	start := make(chan struct{})
	for g := range b.G {
		slots[g] = make([]slot, len(b.G[g]))
		ready.Add(1)
		done.Add(1)
		go func(g int) {
			defer done.Done()
			// private documents unless shared
			docs := map[int]map[string]any{}
			for i := range b.G[g] {
				q := &b.G[g][i]
				slots[g][i].q = q
				if b.Shared {
					docs[i] = live[0]
				} else {
					docs[i] = live[q.Doc]
				}
			}
			ready.Done()
			<-start
			for r := 0; r < repeat; r++ {
				for i := range b.G[g] {
					slots[g][i].out = append(slots[g][i].out, c13Exec(slots[g][i].q, docs[i]))
				}
			}
		}(g)
	}
	ready.Wait()
	close(start)
	done.Wait()
	// give fire-and-forget goroutines a moment, then the sequential reference
	time.Sleep(2 * time.Millisecond)
	for g := range slots {
		for i := range slots[g] {
			q := slots[g][i].q
			ref := c13Exec(q, val.CopyMap(b.Docs[q.Doc]))
			for r, got := range slots[g][i].out {
				if got.Status == "panic" {
					res.Status = "panic"
					res.Detail = fmt.Sprintf("goroutine %d, query %d (%s): %s", g, i, q.SQL, got.Detail)
					return res
				}
				if q.Ref != nil {
					want, err := selref.Eval(q.Ref, b.Docs[q.Doc])
					bad := ""
					switch err.(type) {
					case nil:
						if got.Status != "ok" || !val.Equal(val.Norm(got.Value), val.Norm(want)) {
							wj, _ := json.Marshal(want)
							bad = "the documented meaning gives " + truncate(string(wj), 600)
						}
					case *selref.MustFail:
						if got.Status == "ok" {
							bad = "the documented meaning prescribes an error"
						}
					}
					if bad != "" {
						res.Status = "mismatch"
						gj, _ := json.Marshal(map[string]any{"status": got.Status, "value": got.Value, "detail": got.Detail})
						res.Detail = fmt.Sprintf("goroutine %d, query %d, repetition %d: selector %s\n  concurrently: %s\n  %s", g, i, r, q.SQL, truncate(string(gj), 1500), bad)
						return res
					}
				}
				if !c13Same(q, got, ref) {
					res.Status = "mismatch"
					gj, _ := json.Marshal(map[string]any{"status": got.Status, "rows": got.Rows, "value": got.Value, "detail": got.Detail})
					rj, _ := json.Marshal(map[string]any{"status": ref.Status, "rows": ref.Rows, "value": ref.Value, "detail": ref.Detail})
					res.Detail = fmt.Sprintf("goroutine %d, query %d, repetition %d: %s\n  concurrently: %s\n  alone:        %s", g, i, r, q.SQL, truncate(string(gj), 1500), truncate(string(rj), 1500))
					return res
				}
			}
			res.Rows++
		}
	}
	if b.Shared {
		if d := val.SameShape(live[0], b.Docs[0]); d != "" {
			res.Status = "mismatch"
			res.Detail = "the shared document was modified: " + d
		}
	}
	return res
}

var c13Worker *Worker

func checkC13(c *C13Case) Result {
	res := Result{}
	b := &c.Batch
	res.Labels = append(res.Labels, "scenario:"+b.Scenario, fmt.Sprintf("goroutines:%d", len(b.G)), fmt.Sprintf("gomaxprocs:%d", b.Procs))
	if len(b.G) < 2 || len(b.Docs) == 0 {
		res.Discard = "fewer than two goroutines"
		return res
	}
	if c13Worker == nil {
		c13Worker = NewWorker(true)
	}
	job := &WJob{Kind: "batch", Batch: b}
	o := c13Worker.Do(job, 60*time.Second)
	res.Execs++
	nq := 0
	for _, g := range b.G {
		nq += len(g)
	}
	res.NonTrivial = true
	ctx := func() string {
		bj, _ := json.Marshal(b.G)
		return fmt.Sprintf("batch of %d goroutines / %d queries (scenario %s, GOMAXPROCS %d, repeat %d): %s", len(b.G), nq, b.Scenario, b.Procs, b.Repeat, truncate(string(bj), 1500))
	}
	switch {
	case o.Harness != "":
		res.Harness = o.Harness
	case o.Died:
		res.Violation = "the process was killed (race report / fatal error): " + ctx() + "\n" + fatalSummary(o.Stderr)
	case o.Timeout:
		// confirm twice
		timeouts := 1
		for i := 0; i < 2; i++ {
			again := *job
			o2 := c13Worker.Do(&again, 60*time.Second)
			res.Execs++
			if o2.Timeout {
				timeouts++
			} else if o2.Died {
				res.Violation = "the process was killed (race report / fatal error): " + ctx() + "\n" + fatalSummary(o2.Stderr)
				return res
			}
		}
		if timeouts == 3 {
			res.Violation = "no answer within 60 s three times (deadlock / hang): " + ctx() + "\n" + truncate(fatalSummary(o.Stderr), 1500)
		}
	case o.Res != nil && o.Res.Status == "mismatch":
		res.Violation = "cross-talk: a query returned something else than when run alone\n  " + o.Res.Detail + "\n  " + ctx()
	case o.Res != nil && o.Res.Status == "panic":
		res.Violation = "a panic escaped the API under concurrency\n  " + o.Res.Detail + "\n  " + ctx()
	}
	return res
}

func init() {
	Register(&Prop{
		ID:    "C13",
		Title: "Concurrent queries are free of data races, crashes and cross-talk",
		Rule: "[Dimensions added in rounds p-r of the seeded-defect evaluation: a third of the batches start with a prelude of 1-4 mostly failing statements; scenario big-tables: 4100-5200 rows per query under sub queries, EXISTS, ONCE, aggregates, ASYNC.] " +
			"a case is a batch executed in a child process built with the race detector (halt_on_error): 2-8 goroutines, each with 1-4 queries from the 47 wide " +
			"constructs (or path selectors; a third of the queries built with PostgresEscapingDialect / IdiomaticArrays, and now and then a text the rewriters reject next to them), released together by a barrier, each list repeated 1-3 times, GOMAXPROCS in {1,2,4,16}; scenarios: separate " +
			"documents with selector texts never seen before in the process (column names carry a per-batch nonce), separate documents with warm " +
			"selectors, one shared document read by all goroutines (fresh or warm names), internal parallelism (PARALLEL / HASH joins, ASYNC and " +
			"SPINASYNC calls) inside concurrent queries, concurrent ExecReader calls (also multi-dimensional selectors over an array of arrays of the shared document, judged by the reference), all goroutines building and running the same query texts (WITH + UNION, CTEs, joins, subqueries) at once, and function-side-effects: ASYNC / SPINASYNC calls in top-level, derived-table, CTE, scalar-subquery, inner-array and join-operand positions that write one unsynchronised cell per invocation, read by the caller right after Exec (an unset cell is a mismatch with the solo run, and a data race in this build), and built-in-functions: the library's own functions (HASH with each digest, ENCODE / DECODE with each base, CONCAT, CHANGETYPE, ARRAY / UNWIND / FIRST / LAST / ELEMENTAT, IF, TO_UPPER / TO_LOWER, nested in one another) as select items, a third of them under ASYNC, at the top level or in a derived table / CTE / WHERE clause / scalar sub query, over tables of 1-12 rows with strings of a few bytes to a few kilobytes, on separate documents or one shared document. Oracle: no race report, no fatal error, no confirmed hang; every " +
			"result equals the result of the same query run alone afterwards on a private copy (multiset where order is open); a shared document is " +
			"unchanged. Non-trivial: every batch (>=2 goroutines overlap by construction of the barrier).",
		Assumptions: []string{
			"the harness does not own the Go scheduler: interleavings are sampled through repetition, goroutine count and GOMAXPROCS; the race detector reports unordered conflicting accesses it observes on the executed paths",
			"race reports are not shrinkable (schedule dependent): the batch itself is the replay file",
		},
		Gen: func(t *rapid.T) any {
			if rapid.IntRange(0, 1<<20).Draw(t, "bigtable")%14 == 13 {
				// thousands of rows per query (beyond the thresholds of size-dependent strategies) under clauses that
				// touch per-query state: sub queries, EXISTS, ONCE calls, aggregates, ASYNC calls
				n := rapid.IntRange(4100, 5200).Draw(t, "bigtable.n")
				rows := make([]any, n)
				for i := range rows {
					rows[i] = map[string]any{"k": float64(i % 13), "v": float64(i), "s": fmt.Sprintf("s%d", i%5)}
				}
				doc := map[string]any{"t": rows, "t2": []any{map[string]any{"c": 1.0}, map[string]any{"c": 5.0}, map[string]any{"c": 12.0}}}
				pool := []string{"SELECT v FROM t WHERE k IN (SELECT c FROM `<-t2`)", "SELECT v FROM t WHERE EXISTS (SELECT c FROM `<-t2` WHERE c = 5) AND k > 6",
					"SELECT v FROM t WHERE ONCE.vf_id(3) = k", "SELECT v, (SELECT COUNT(c) AS n FROM `<-t2`) AS n FROM t WHERE k = 2", "SELECT s, COUNT(*) AS n, SUM(v) AS sv FROM t WHERE k < 9 GROUP BY s",
					"SELECT v, ASYNC.vf_id(k) AS a FROM t WHERE k IN (1, 5) ORDER BY v DESC LIMIT 7", "SELECT DISTINCT k, s FROM t WHERE v > 100", "SELECT v FROM t WHERE s LIKE 's1%' ORDER BY v LIMIT 3 OFFSET 2"}
				b := C13Batch{Scenario: "big-tables", Docs: []map[string]any{doc}, Procs: rapid.SampledFrom([]int{2, 4, 16}).Draw(t, "bigtable.procs")}
				ng := rapid.IntRange(2, 3).Draw(t, "bigtable.g")
				for g := 0; g < ng; g++ {
					sql := rapid.SampledFrom(pool).Draw(t, fmt.Sprintf("bigtable.q%d", g))
					b.G = append(b.G, []C13Q{{Doc: 0, SQL: sql, Unordered: strings.Contains(sql, "GROUP BY") || strings.Contains(sql, "DISTINCT")}})
				}
				return &C13Case{Batch: b}
			}
			c := genC13(t).(*C13Case)
			if rapid.IntRange(0, 2).Draw(t, "prelude") == 0 {
				c.Batch.Docs = append(c.Batch.Docs, val.CopyMap(c13PreludeDoc))
				n := rapid.IntRange(1, 4).Draw(t, "prelude.n")
				for i := 0; i < n; i++ {
					c.Batch.Prelude = append(c.Batch.Prelude, C13Q{Doc: len(c.Batch.Docs) - 1, SQL: rapid.SampledFrom(c13PreludeSQL).Draw(t, fmt.Sprintf("prelude.%d", i))})
				}
			}
			return c
		},
		New:        func() any { return &C13Case{} },
		Check:      func(c any) Result { return checkC13(c.(*C13Case)) },
		Quick:      250,
		Thorough:   12000,
		RaceWorker: true,
	})
}

package checks

import (
	"encoding/json"
	"strings"
	"testing"

	"verifharness/sq"
	"verifharness/val"
)

// Native fuzz targets (thorough tier). Each target carries its semantic oracle; a target that only
// waited for crashes would check memory safety, not the property.

var fuzzDocs = []string{
	`{"t":[{"k":1,"s":"a","v":0.5,"items":[{"p":1,"q":"a"},{"p":3,"q":"b"}]},{"k":2,"s":"b","v":2.5,"items":[]},{"k":2,"s":"ab","v":-1,"items":[{"p":5,"q":"a"}]}],"t2":[{"c":2},{"c":3}]}`,
	`{"users":[{"name":"ann","age":31,"tags":["x","y"],"addr":{"city":"A","zip":[1,2]}},{"name":"bob","age":27,"tags":[],"addr":{"city":"B","zip":[]}}],"rag":[[1,2,3],[4],[]],"a b":{"c.d":1},"n":null}`,
	`{"t":[],"t2":[]}`,
	`{"t":[[{"k":1}],[{"k":2},{"k":3}],[]],"t2":{"c":1},"deep":[[[{"x":1}]],[[{"x":2},{"x":3}]]]}`,
}

func fuzzDoc(choice uint8) map[string]any {
	var d map[string]any
	_ = json.Unmarshal([]byte(fuzzDocs[int(choice)%len(fuzzDocs)]), &d)
	return d
}

// FuzzExecReader (C09): every selector string returns (value or error), never panics, never
// modifies the document, and behaves identically on the second call (cache hit).
func FuzzExecReader(f *testing.F) {
	for _, s := range []string{"users", "users[0].name", "users[5]", "rag[each:0]", "users[(0:9)]", "data[keep=>0:1]", "users[each].tags[0]", "rag[0:2]", "rag[each][each]",
		"users.{name|string,age|number}", "mix=>rag", "distinct=>rag", "users::[0]", "'a b'.'c.d'", "users[0:1:1]", "rag[keep=>each:0]", "users[begin:end]", "users[(begin:1)].addr.zip[0]",
		"", "[", "]", "users[", "users[]", "users[-1]", "users[0:-1]", "x=>y=>z", "{", "}", "users.{", "users.{name|nosuch}", "rag[each:each:each]", "t[0].items[each].p", "deep[each][each][each].x"} {
		f.Add(uint8(1), s)
		f.Add(uint8(3), s)
	}
	f.Fuzz(func(t *testing.T, choice uint8, selector string) {
		doc := fuzzDoc(choice)
		snap := val.CopyMap(doc)
		v1, e1, p1 := ReadSel(doc, selector)
		if p1 != "" {
			t.Fatalf("ExecReader(%q) panicked: %s", selector, p1)
		}
		if d := val.SameShape(doc, snap); d != "" {
			t.Fatalf("ExecReader(%q) modified the document: %s", selector, d)
		}
		v2, e2, p2 := ReadSel(doc, selector)
		if p2 != "" {
			t.Fatalf("ExecReader(%q) panicked on the second call: %s", selector, p2)
		}
		if (e1 == "") != (e2 == "") || (e1 == "" && !val.Equal(val.Norm(v1), val.Norm(v2))) {
			t.Fatalf("ExecReader(%q) differs between first and second call: %s / %s vs %s / %s", selector, val.JSON(val.Norm(v1)), e1, val.JSON(val.Norm(v2)), e2)
		}
	})
}

// FuzzNewExec (C10, C11, C12): any query string under any option set returns control with a result
// or an error; the input is unchanged; a successful result is plain data.
func FuzzNewExec(f *testing.F) {
	for i, q := range c10Hostile {
		f.Add(uint8(i), uint8(0), q)
		f.Add(uint8(i>>1), uint8(3), q)
	}
	for _, q := range []string{
		"SELECT k, (SELECT p FROM items WHERE p > 1) AS sb FROM t WHERE v > 0",
		"SELECT DISTINCT k, s FROM t ORDER BY k DESC LIMIT 2 OFFSET 1",
		"SELECT x.k, y.c FROM t x LEFT JOIN t2 y ON x.k = y.c",
		"SELECT * FROM t x PARALLEL HASH_JOIN t2 y ON x.k = y.c",
		"WITH c AS (SELECT k, v AS w FROM t) SELECT x.k, y.w FROM c x JOIN c y ON x.k = y.k",
		"SELECT k, COUNT(*) AS n, SUM(v) AS sv FROM t GROUP BY k HAVING COUNT(*) > 0",
		"SELECT k FROM t WHERE EXISTS (SELECT p FROM items WHERE p > k)",
		"SELECT k FROM t UNION ALL SELECT c AS k FROM t2 UNION SELECT k FROM t",
		"SELECT [1, [2, k], 'x]'] AS a, \"s\" AS b FROM t",
		"SELECT ASYNC.vf_id(k) AS a, SPIN.vf_id(v), ONCE.vf_id(1) AS o FROM t",
		"SELECT p FROM `t.items` WHERE p > 1",
		"SELECT * FROM root.t",
	} {
		for o := 0; o < 8; o++ {
			f.Add(uint8(o), uint8(0), q)
		}
	}
	f.Fuzz(func(t *testing.T, optBits uint8, choice uint8, query string) {
		if len(query) > 400 {
			return
		}
		doc := fuzzDoc(choice)
		snap := val.CopyMap(doc)
		o := Opts{Wrapped: optBits&1 != 0, PG: optBits&2 != 0, Arrays: optBits&4 != 0}
		injReset(0, 0)
		out := Run(doc, query, o)
		if out.Panic != "" {
			t.Fatalf("a panic escaped New/Exec for %q (options %s): %s", query, o, out.Panic)
		}
		if d := val.SameShape(doc, snap); d != "" {
			t.Fatalf("query %q (options %s) modified its input: %s", query, o, d)
		}
		if out.OK() && !strings.Contains(strings.ToUpper(query), "TIMESTAMP") {
			if d := val.PlainWalk(out.Raw); d != "" {
				t.Fatalf("query %q (options %s): result is not plain data: %s", query, o, d)
			}
		}
	})
}

// FuzzSanitize (C16): for any string argument, the sanitized text parses to the shape of the
// template with one literal in place of the placeholder, and echoes the argument.
func FuzzSanitize(f *testing.F) {
	templates := c16FuzzTemplates()
	for i := range templates {
		for _, a := range []string{"", "a", "'", "\\", "\\'", "\\' OR 1=1 -- ", "''", "a\\", "\"", "`", "--", "/*", "*/", "#", "\x00", "\n", "é", "$1", "$2", "x') OR ('1'='1", "\\\\", "%", "\x1a"} {
			f.Add(uint8(i), a, a+"2")
		}
	}
	f.Fuzz(func(t *testing.T, choice uint8, a1 string, a2 string) {
		c := templates[int(choice)%len(templates)]
		cc := &C16Case{Mode: c.Mode, Segs: c.Segs, Args: []C16Arg{{K: "s", S: a1}, {K: "s", S: a2}}}
		if c.Mode == "echo" {
			cc.Args = cc.Args[:1]
		}
		r := checkC16(cc)
		if r.Violation != "" {
			t.Fatal(r.Violation)
		}
	})
}

func c16FuzzTemplates() []*C16Case {
	mk := func(mode string, parts ...any) *C16Case {
		c := &C16Case{Mode: mode}
		for _, p := range parts {
			switch x := p.(type) {
			case string:
				c.Segs = append(c.Segs, C16Seg{K: "t", S: x})
			case int:
				c.Segs = append(c.Segs, C16Seg{K: "p", N: x})
			}
		}
		return c
	}
	return []*C16Case{
		mk("echo", "SELECT ", 1, " AS v FROM dual"),
		mk("shape", "SELECT * FROM t WHERE name = ", 1, " AND age = ", 2),
		mk("shape", "SELECT ", 1, " AS a, 'it''s $1' AS d, `c$2` AS e FROM t WHERE name IN (", 2, ", ", 1, ")"),
		mk("shape", "SELECT name FROM t /* $1 */ WHERE name LIKE ", 1, " -- $2\n AND x BETWEEN ", 2, " AND ", 1),
		mk("shape", "SELECT 'a\\' $1' AS d, ", 1, " AS v, \"q\\\" $2\" AS w FROM t # $2\n WHERE ", 2, " = name"),
		mk("shape", "SELECT 5 -", 1, " AS v, - ", 2, " AS w FROM t"),
	}
}

// FuzzRewriters (C17): the contents of string literals, identifiers (selector-quoted keys) and
// aliases reach the engine untouched under every option set.
func FuzzRewriters(f *testing.F) {
	for _, s := range []string{"", "a", "\"", "'", "`", "\\", "[", "]", "[1,2]", "é", "日本", "\"x\"", "a\\b", "''", "]]", "[[", "\\\"", "it's [x] \"q\""} {
		for o := 0; o < 8; o++ {
			f.Add(uint8(o), s, s)
		}
	}
	f.Fuzz(func(t *testing.T, optBits uint8, lit string, alias string) {
		if len(lit) > 200 || len(alias) > 100 || !validUTF8NoNUL(lit) || !validUTF8NoNUL(alias) {
			return
		}
		o := Opts{Wrapped: optBits&1 != 0, PG: optBits&2 != 0, Arrays: optBits&4 != 0}
		from := "t"
		if o.Wrapped {
			from = "root.t"
		}
		// alias contents exclude the backtick (and are non-empty); everything else is allowed
		alias = strings.ReplaceAll(alias, "`", "")
		if alias == "" || strings.HasSuffix(alias, "\\") {
			alias = "v"
		}
		sql := "SELECT " + sq.StrLit(lit) + " AS `" + alias + "`, [1, [" + sq.StrLit(lit) + "]] AS arr FROM `" + from + "`"
		if !o.Arrays {
			sql = "SELECT " + sq.StrLit(lit) + " AS `" + alias + "`, ARRAY(1, ARRAY(" + sq.StrLit(lit) + ")) AS arr FROM `" + from + "`"
		}
		doc := map[string]any{"t": []any{map[string]any{"k": 1.0}}}
		out := Run(doc, sql, o)
		if !out.OK() {
			t.Fatalf("%s (options %s): %s", sql, o, out.Describe())
		}
		if len(out.Rows) != 1 {
			t.Fatalf("%s (options %s): rows %s", sql, o, val.JSON(out.Rows))
		}
		row, _ := out.Rows[0].(map[string]any)
		if alias == "arr" {
			return
		}
		if got, ok := row[alias].(string); !ok || got != lit {
			t.Fatalf("%s (options %s): literal %q came back as %s under alias %q (row %s)", sql, o, lit, val.JSON(row[alias]), alias, val.JSON(row))
		}
		want := []any{1.0, []any{lit}}
		if !val.Equal(row["arr"], want) {
			t.Fatalf("%s (options %s): array came back as %s", sql, o, val.JSON(row["arr"]))
		}
	})
}

func validUTF8NoNUL(s string) bool {
	for _, r := range s {
		if r == 0xFFFD || r == 0 {
			return false
		}
	}
	return true
}

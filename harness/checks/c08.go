package checks

import (
	"fmt"
	"github.com/vedadiyan/genql"

	"pgregory.net/rapid"
	"verifharness/sq"
	"verifharness/val"
)

// C08 - A multi-dimensional FROM applies the query inside every inner array.

type C08Case struct {
	Doc   map[string]any `json:"doc"` // {"nn": nested arrays of objects}
	Items []SelItem      `json:"items"`
	Star  int            `json:"star"`
	Where *sq.E          `json:"where,omitempty"`
	// back references to the enclosing document (`<-`): an extra WHERE conjunct and/or select item
	BackWhere string `json:"back_where,omitempty"`
	BackItem  string `json:"back_item,omitempty"`
	// FailWhere: an extra WHERE conjunct (arithmetic on a column) that cannot be evaluated on one row of one inner
	// array, where the generator has put a text into that column: the query fails on that inner array alone, so
	// the nested query (and the mix=> query) must fail too - never return the other inner arrays' results
	FailWhere string `json:"fail_where,omitempty"`
	// Twin: how one leaf array of the document was derived from another leaf of the same document ("" = not at
	// all): "duplicate" (same content), "look-alike" (some values replaced by the text that prints like them:
	// 7 -> "7", true -> "true", null -> "<nil>") or "merged-key" (a text column swallows the next key: {a:"x", b:1}
	// -> {a:"x b:1"}); label only, the document holds the derived leaf
	Twin string `json:"twin,omitempty"`
	// Vars / Consts: the query is built WithVars(Vars) / WithConstants(Consts) and reads them (GETVAR / CONSTANT in
	// BackWhere or BackItem); the options of a query hold inside every inner array as they do on a flat table
	Vars   map[string]any `json:"vars,omitempty"`
	Consts map[string]any `json:"consts,omitempty"`
	// Shared: in the document handed to the engine, inner arrays with the same content are one and the same Go slice
	// (a document built by Go code may hold an array twice); the result is what it is for separate copies
	Shared bool `json:"shared,omitempty"`
}

// engineDoc is a private copy of the document for one engine run (with Shared: equal leaf arrays share storage).
func (c *C08Case) engineDoc() map[string]any {
	d := val.CopyMap(c.Doc)
	if !c.Shared {
		return d
	}
	var seen [][]any
	var walk func(a []any)
	walk = func(a []any) {
		for i, x := range a {
			in, ok := x.([]any)
			if !ok {
				continue
			}
			if isLeaf(in) && len(in) > 0 {
				found := false
				for _, s := range seen {
					if val.Equal(any(s), any(in)) {
						a[i] = s
						found = true
						break
					}
				}
				if !found {
					seen = append(seen, in)
				}
				continue
			}
			walk(in)
		}
	}
	if nn, ok := d["nn"].([]any); ok {
		walk(nn)
	}
	return d
}

// extra are the options every execution of the case is built with.
func (c *C08Case) extra() []genql.QueryOption {
	var l []genql.QueryOption
	if c.Vars != nil {
		l = append(l, genql.WithVars(val.CopyMap(c.Vars)))
	}
	if c.Consts != nil {
		l = append(l, genql.WithConstants(val.CopyMap(c.Consts)))
	}
	return l
}

func init() {
	Register(&Prop{
		ID:    "C08",
		Title: "A multi-dimensional FROM applies the query inside every inner array",
		Rule: "[Dimensions added in rounds p-r of the seeded-defect evaluation: in a third of the cases inner arrays with equal content are one and the same Go slice in the document handed to the engine; a sixth of the rows hold a decoy key spelled like a path.] " +
			"rapid draws a document key holding arrays of arrays of objects (depth 2-3, ragged, empty inner arrays, a fifth of the documents with levels of 4-13 inner arrays; in a third of the documents one leaf array is derived from another leaf: an identical copy, or a look-alike whose values are of another kind but print the same - 7 / '7', true / 'true', null / '<nil>', a text that swallows the next key), a select list (columns, " +
			"simple expressions, optional *), an optional WHERE and, in half of the cases, a back reference to siblings of the source in the enclosing " +
			"document (`<-.lim` in a comparison, IN / [NOT] EXISTS / select-item subqueries over `<-allow`) or a read of the query's own options (GETVAR / CONSTANT under WithVars / WithConstants, in WHERE or as a select item); oracle: the result has the same nesting and each leaf array's result equals the " +
			"execution of the same query on the document with that leaf in place of nn; FROM `mix=>nn` equals the concatenation of the leaf results in order. Non-trivial: >=2 " +
			"non-empty leaves and WHERE rejects >=1 row below the first dimension.",
		Assumptions: []string{"only WHERE + select list inside nested sources (aggregates, ORDER BY, LIMIT there are not in the statement)"},
		Gen:         genC08,
		New:         func() any { return &C08Case{} },
		Check:       func(c any) Result { return checkC08(c.(*C08Case)) },
		Quick:       2000,
		Thorough:    100000,
	})
}

func genC08(t *rapid.T) any {
	pt := genProjTable(t, 0, 0, "t") // schema only
	rowCount := 0
	genRow := func(label string) map[string]any {
		row := map[string]any{}
		for ci := range pt.Tb.Cols {
			c := &pt.Tb.Cols[ci]
			if c.Nullable && rapid.IntRange(0, 3).Draw(t, label+"."+c.Name+".null") == 0 {
				row[c.Name] = nil
				continue
			}
			row[c.Name] = rapid.SampledFrom(c.Pool).Draw(t, label+"."+c.Name)
		}
		rowCount++
		return row
	}
	wide := rapid.IntRange(0, 4).Draw(t, "widelevels") == 0
	var gen func(depth int, label string) []any
	gen = func(depth int, label string) []any {
		n := rapid.IntRange(0, 3).Draw(t, label+".n")
		if depth > 1 && wide && rapid.IntRange(0, 2).Draw(t, label+".wide") == 0 {
			// a level with many inner arrays (any count, not only the small ones)
			n = rapid.IntRange(4, 13).Draw(t, label+".nwide")
		}
		out := []any{}
		for i := 0; i < n; i++ {
			l := fmt.Sprintf("%s.%d", label, i)
			if depth == 1 {
				out = append(out, genRow(l))
			} else {
				out = append(out, gen(depth-1, l))
			}
		}
		return out
	}
	pt.Obj = "" // no object column in nested rows
	c := &C08Case{Doc: map[string]any{"nn": gen(rapid.IntRange(2, 3).Draw(t, "depth"), "nn")}}
	c.Twin = genC08Twin(t, c.Doc, pt)
	c.Shared = rapid.IntRange(0, 2).Draw(t, "shared") == 0
	c.Items = genSelectItems(t, pt, 3, 2, "sel")
	c.Star = rapid.SampledFrom([]int{0, 0, 1}).Draw(t, "star")
	if c.Star != 0 {
		for i := range c.Items {
			if c.Items[i].Alias == "" {
				c.Items[i].Alias = fmt.Sprintf("o%d", i+1)
			}
		}
	}
	if rapid.IntRange(0, 3).Draw(t, "haswhere") != 0 {
		c.Where = pt.genBoolExpr(t, 1, "w")
		if rapid.IntRange(0, 2).Draw(t, "richwhere") == 0 {
			// the full predicate grammar of C01 (IN / NOT IN lists, BETWEEN, LIKE, IS ..., AND / OR / NOT) on the
			// non-nullable columns: nested and per-leaf execution must agree on it whatever it means
			tb := &Table{}
			for _, col := range pt.Tb.Cols {
				if !col.Nullable && (col.Kind == "int" || col.Kind == "num" || col.Kind == "str" || col.Kind == "bool") {
					tb.Cols = append(tb.Cols, col)
				}
			}
			if len(tb.Cols) > 0 {
				c.Where = genPred(t, tb, &PredSpec{}, rapid.IntRange(0, 2).Draw(t, "richdepth"), "rw")
			}
		}
	}
	if rapid.IntRange(0, 5).Draw(t, "failrow") == 0 {
		// one row of one inner array holds a text where the extra conjunct does arithmetic
		var leafRows []map[string]any
		var walk func(a []any)
		walk = func(a []any) {
			for _, x := range a {
				switch v := x.(type) {
				case []any:
					walk(v)
				case map[string]any:
					leafRows = append(leafRows, v)
				}
			}
		}
		walk(c.Doc["nn"].([]any))
		if len(leafRows) > 0 {
			col := pt.Ints[0]
			leafRows[rapid.IntRange(0, len(leafRows)-1).Draw(t, "failrow.i")][col] = "x"
			c.FailWhere = "(" + col + " + 1) > -100000"
			c.Where = nil
		}
	}
	// siblings of nn that queries inside the inner arrays reach through `<-`
	icol := pt.Ints[0]
	pool := pt.Tb.Col(icol).Pool
	c.Doc["lim"] = rapid.SampledFrom(pool).Draw(t, "lim")
	allow := []any{}
	for i, n := 0, rapid.IntRange(0, 3).Draw(t, "nallow"); i < n; i++ {
		allow = append(allow, map[string]any{"x": rapid.SampledFrom(pool).Draw(t, fmt.Sprintf("allow%d", i))})
	}
	c.Doc["allow"] = allow
	switch rapid.IntRange(0, 7).Draw(t, "back") {
	case 0:
		c.BackWhere = fmt.Sprintf("%s %s `<-.lim`", icol, rapid.SampledFrom([]string{">=", "<", "=", "!="}).Draw(t, "backop"))
	case 1:
		c.BackWhere = fmt.Sprintf("%s IN (SELECT x FROM `<-allow`)", icol)
	case 2:
		c.BackWhere = fmt.Sprintf("%sEXISTS (SELECT x FROM `<-allow` WHERE x = %s)", rapid.SampledFrom([]string{"", "NOT "}).Draw(t, "backnot"), icol)
	case 3:
		c.BackItem = fmt.Sprintf("(SELECT x FROM `<-allow` WHERE x >= %s) AS bs", sq.NumLit(rapid.SampledFrom(pool).Draw(t, "backc").(float64)))
	case 4:
		// state that comes with the query's options, not with the document
		v := rapid.SampledFrom(pool).Draw(t, "optval")
		op := rapid.SampledFrom([]string{">=", "<", "=", "!="}).Draw(t, "optop")
		switch rapid.IntRange(0, 3).Draw(t, "optform") {
		case 0:
			c.Vars = map[string]any{"vmin": v}
			c.BackWhere = fmt.Sprintf("%s %s GETVAR('vmin')", icol, op)
		case 1:
			c.Consts = map[string]any{"cmin": v}
			c.BackWhere = fmt.Sprintf("%s %s CONSTANT('cmin')", icol, op)
		case 2:
			c.Vars = map[string]any{"vtag": v}
			c.BackItem = "GETVAR('vtag') AS vt"
		default:
			c.Vars, c.Consts = map[string]any{"vmin": v}, map[string]any{"ctag": "c"}
			c.BackWhere = fmt.Sprintf("%s %s GETVAR('vmin')", icol, op)
			c.BackItem = "CONSTANT('ctag') AS ct"
		}
	}
	return c
}

// genC08Twin derives, in a third of the documents, one leaf array from another leaf of the same document and puts
// it in the place of a leaf or next to one: an identical copy, or a copy in which values are replaced by values of
// another kind that read the same when printed. Every inner array still has to yield what it yields on its own.
func genC08Twin(t *rapid.T, doc map[string]any, pt *ProjTable) string {
	if rapid.IntRange(0, 2).Draw(t, "twin") != 0 {
		return ""
	}
	nn := doc["nn"].([]any)
	// the arrays whose elements are leaves, and the non-empty leaves
	type slot struct {
		parent *[]any
		i      int
	}
	var parents []*[]any
	var leaves, sources []slot
	depth3 := false
	for _, x := range nn {
		if a, ok := x.([]any); ok && !isLeaf(a) {
			depth3 = true
		}
	}
	collect := func(p *[]any) {
		parents = append(parents, p)
		for i, x := range *p {
			leaves = append(leaves, slot{p, i})
			if len(x.([]any)) > 0 {
				sources = append(sources, slot{p, i})
			}
		}
	}
	var holders []slot // depth 3: where the parents hang in nn
	if depth3 {
		for i, x := range nn {
			a := x.([]any)
			if len(a) > 0 && !isLeaf(a) {
				p := new([]any)
				*p = a
				holders = append(holders, slot{p, i})
				collect(p)
			}
		}
	} else {
		collect(&nn)
	}
	if len(sources) == 0 {
		return ""
	}
	src := sources[rapid.IntRange(0, len(sources)-1).Draw(t, "twin.src")]
	twin := val.Copy((*src.parent)[src.i]).([]any)
	kind := rapid.SampledFrom([]string{"duplicate", "look-alike", "look-alike", "look-alike", "merged-key"}).Draw(t, "twin.kind")
	switch kind {
	case "look-alike":
		// one to three columns change their kind, in every row or in some rows only
		cols := map[string]bool{}
		for i, n := 0, rapid.IntRange(1, 3).Draw(t, "twin.ncols"); i < n; i++ {
			col := pt.Tb.Cols[rapid.IntRange(0, len(pt.Tb.Cols)-1).Draw(t, fmt.Sprintf("twin.col%d", i))]
			if col.Kind != "str" {
				cols[col.Name] = true
			}
		}
		allRows := rapid.Bool().Draw(t, "twin.allrows")
		changed := false
		for ri, r := range twin {
			row := r.(map[string]any)
			if !allRows && ri > 0 && rapid.Bool().Draw(t, fmt.Sprintf("twin.keep%d", ri)) {
				continue
			}
			for name := range cols {
				if v, ok := row[name]; ok {
					if _, isText := v.(string); !isText {
						row[name] = fmt.Sprint(v)
						changed = true
					}
				}
			}
		}
		if !changed {
			kind = "duplicate"
		}
	case "merged-key":
		// the text column takes the key that follows it in the printed form into its own text
		str := pt.Strs[0]
		next := ""
		for _, col := range pt.Tb.Cols {
			if col.Name > str && (next == "" || col.Name < next) {
				next = col.Name
			}
		}
		if next == "" {
			kind = "duplicate"
			break
		}
		for _, r := range twin {
			row := r.(map[string]any)
			if v, ok := row[next]; ok {
				row[str] = fmt.Sprintf("%v %s:%v", row[str], next, v)
				delete(row, next)
			}
		}
	}
	// in the place of another leaf, or as a further inner array anywhere among the leaves
	if len(leaves) > 1 && rapid.Bool().Draw(t, "twin.replace") {
		j := rapid.IntRange(0, len(leaves)-2).Draw(t, "twin.at")
		if leaves[j] == src {
			j = len(leaves) - 1
		}
		(*leaves[j].parent)[leaves[j].i] = twin
	} else {
		p := parents[rapid.IntRange(0, len(parents)-1).Draw(t, "twin.parent")]
		at := rapid.IntRange(0, len(*p)).Draw(t, "twin.pos")
		grown := append([]any{}, (*p)[:at]...)
		grown = append(grown, any(twin))
		grown = append(grown, (*p)[at:]...)
		*p = grown
	}
	for _, h := range holders {
		nn[h.i] = *h.parent
	}
	doc["nn"] = nn
	return kind
}

func (c *C08Case) sql(from string) string {
	s := "SELECT " + renderSelect(c.Items, c.Star, nil)
	if c.BackItem != "" {
		s += ", " + c.BackItem
	}
	s += " FROM " + from
	if c.FailWhere != "" {
		w := c.FailWhere
		if c.Where != nil {
			w += " AND " + sq.Render(c.Where, nil)
		}
		if c.BackWhere != "" {
			w += " AND " + c.BackWhere
		}
		return s + " WHERE " + w
	}
	switch {
	case c.Where != nil && c.BackWhere != "":
		s += " WHERE " + sq.Render(c.Where, nil) + " AND " + c.BackWhere
	case c.Where != nil:
		s += " WHERE " + sq.Render(c.Where, nil)
	case c.BackWhere != "":
		s += " WHERE " + c.BackWhere
	}
	return s
}

// leafDoc is the document in which one leaf array stands in for nn (siblings kept).
func (c *C08Case) leafDoc(leaf []any) map[string]any {
	d := map[string]any{}
	for k, v := range c.Doc {
		if k != "nn" {
			d[k] = val.Copy(v)
		}
	}
	d["nn"] = val.Copy(leaf)
	return d
}

func isLeaf(a []any) bool {
	for _, x := range a {
		if _, ok := x.([]any); ok {
			return false
		}
	}
	return true
}

func checkC08(c *C08Case) Result {
	res := Result{}
	if c.Shared {
		res.Labels = append(res.Labels, "equal-inner-arrays-share-storage")
	}
	nn, _ := c.Doc["nn"].([]any)
	sql := c.sql("nn")
	var flat []any
	nonEmptyLeaves, rejected, failedLeaves := 0, 0, 0
	failed := ""
	var expect func(a []any, depth int) []any
	expect = func(a []any, depth int) []any {
		if isLeaf(a) && depth > 0 {
			out := Run(c.leafDoc(a), sql, Opts{}, c.extra()...)
			res.Execs++
			if !out.OK() {
				failed = out.Describe()
				failedLeaves++
				if c.FailWhere != "" {
					return nil // keep going: the other inner arrays are evaluated as well
				}
				return nil
			}
			if len(a) > 0 {
				nonEmptyLeaves++
			}
			rejected += len(a) - len(out.Rows)
			flat = append(flat, out.Rows...)
			return out.Rows
		}
		r := make([]any, 0, len(a))
		for _, ch := range a {
			r = append(r, any(expect(ch.([]any), depth+1)))
			if failed != "" && c.FailWhere == "" {
				return nil
			}
		}
		return r
	}
	want := expect(nn, 0)
	if failed != "" && c.FailWhere != "" {
		// the query cannot be evaluated on (at least) one inner array: nested and flattened execution must fail too
		res.Labels = append(res.Labels, "an-inner-array-fails")
		res.NonTrivial = nonEmptyLeaves >= 1
		for _, q := range []string{sql, c.sql("`mix=>nn`")} {
			out := Run(c.engineDoc(), q, Opts{}, c.extra()...)
			res.Execs++
			if out.Panic != "" || out.OK() {
				res.Violation = fmt.Sprintf("%s\n  source %s\n  run directly on one of the inner arrays the query fails (%s), here it returned %s", q, val.JSON(nn), truncate(failed, 120), out.Describe())
				return res
			}
		}
		return res
	}
	if failed != "" {
		res.Discard = "query fails on a leaf array: " + truncate(failed, 60)
		return res
	}
	out := Run(c.engineDoc(), sql, Opts{}, c.extra()...)
	res.Execs++
	if !out.OK() {
		res.Violation = fmt.Sprintf("%s on %s\n  got %s", sql, val.JSON(nn), out.Describe())
		return res
	}
	if !val.Equal(any(out.Rows), any(want)) {
		res.Violation = fmt.Sprintf("%s\n  source   %s\n  expected %s (per-leaf executions)\n  got      %s", sql, val.JSON(nn), val.JSON(want), val.JSON(out.Rows))
		return res
	}
	msql := c.sql("`mix=>nn`")
	mout := Run(c.engineDoc(), msql, Opts{}, c.extra()...)
	res.Execs++
	if flat == nil {
		flat = []any{}
	}
	if !mout.OK() || !val.Equal(any(mout.Rows), any(flat)) {
		res.Violation = fmt.Sprintf("%s\n  source   %s\n  expected the concatenation of the leaf results %s\n  got %s", msql, val.JSON(nn), val.JSON(flat), mout.Describe())
		return res
	}
	// the same statements once more on ONE document object (nested, flattened, nested): what a query returns
	// does not depend on the queries that read the document before it
	live := val.CopyMap(c.Doc)
	for i, q := range []string{sql, msql, sql} {
		o := Run(live, q, Opts{}, c.extra()...)
		res.Execs++
		expect := any(want)
		if i == 1 {
			expect = any(flat)
		}
		if !o.OK() || !val.Equal(any(o.Rows), expect) {
			res.Violation = fmt.Sprintf("%s\n  run as statement %d of a sequence (nested, mix=>, nested) on one document object\n  source   %s\n  expected %s\n  got      %s", q, i+1, val.JSON(nn), val.JSON(expect), o.Describe())
			return res
		}
	}
	res.NonTrivial = nonEmptyLeaves >= 2 && (c.Where != nil || c.BackWhere != "") && rejected >= 1
	if c.Where != nil {
		res.Labels = append(res.Labels, "where")
	}
	if c.Star != 0 {
		res.Labels = append(res.Labels, "star")
	}
	if c.BackWhere != "" {
		res.Labels = append(res.Labels, "back-reference-in-where")
	}
	if c.BackItem != "" {
		res.Labels = append(res.Labels, "back-reference-in-select-item")
	}
	if c.Twin != "" {
		res.Labels = append(res.Labels, c.Twin+"-leaf")
	}
	return res
}

package checks

import (
	"fmt"
	"sort"
	"strings"

	"pgregory.net/rapid"
	"verifharness/sq"
	"verifharness/val"
)

// C02 - Projection emits one row per kept row with correctly computed columns.

type SelItem struct {
	Expr  *sq.E  `json:"expr"`
	Alias string `json:"alias,omitempty"` // "" only for bare top-level column references
}

type C02Case struct {
	Doc   map[string]any `json:"doc"`
	Env   Envelope       `json:"env,omitempty"` // irrelevant options / table representation / repeated execution
	Items []SelItem      `json:"items"`
	Star  int            `json:"star"`            // 0 none, 1 leading *, 2 trailing *
	Scale *Scale         `json:"scale,omitempty"` // large table: t is expanded from the rows of the document by this recipe before anything is computed
	Where *sq.E          `json:"where,omitempty"`
	SQL   string         `json:"sql"`
}

func init() {
	Register(&Prop{
		ID:    "C02",
		Title: "Projection emits one row per kept row with correctly computed columns",
		Rule: "[Dimensions added in rounds p-r of the seeded-defect evaluation: a sixth of the rows of tables with an object column hold a top-level key spelled like a path into it (decoy); a sixth of the enveloped cases run after 1-3 failing statements.] " +
			"rapid draws a typed table (non-negative int, int, fractional, non-zero, nullable numeric, string, bool and object columns; 0-8 rows) " +
			"and a select list of 1-5 typed expression trees (depth<=4) over + - * / DIV % & | ^ << >>, unary - ~ !, comparisons, CASE WHEN, " +
			"literals, column and nested-path references (incl. missing keys), optional * and optional WHERE; about 2.5% of the cases run on a large table (200-700 rows of any residue, the drawn rows repeated in a drawn arrangement); a third of the aliases are spelled like source columns; a quarter of the lists carry an item whose value depends on the prescribed nesting of + or * (cancellation, overflow, absorption), a quarter an equality on a key some rows lack as CASE condition; oracle = independent reference " +
			"evaluator on float64: row count, exact key set and values per row. Non-trivial: >=1 output row and >=1 operator node. " +
			"Distinct = distinct JSON encodings of (doc, select list, where).",
		Assumptions: []string{
			"a third of the cases run inside an envelope that must not change the result: PostgresEscapingDialect / IdiomaticArrays on (the query uses neither double quotes nor brackets), Wrapped() with FROM root.<table>, tables handed over as []map[string]any, a second execution on the same input object, and the same query text run before on a different document",
			"no division/modulo by zero, bitwise/DIV operands integer-valued and non-negative, unary operators never see NULL (unspecified in the statement)",
			"~x is accepted in both the two's-complement and MySQL-unsigned reading",
			"floats compared with 1e-9 relative tolerance",
		},
		Gen: func(t *rapid.T) any {
			c := genC02(t).(*C02Case)
			c.Env = genEnvelope(t, "env")
			return c
		},
		New: func() any { return &C02Case{} },
		Check: func(c any) Result {
			r := checkC02(c.(*C02Case))
			r.Labels = append(r.Labels, c.(*C02Case).Env.Labels()...)
			return r
		},
		Quick:    3000,
		Thorough: 300000,
	})
}

func renderSelect(items []SelItem, star int, st *sq.Style) string {
	var parts []string
	if star == 1 {
		parts = append(parts, "*")
	}
	for _, it := range items {
		s := sq.Render(it.Expr, st)
		if it.Alias != "" {
			s += " AS " + sq.Ident(it.Alias, st)
		}
		parts = append(parts, s)
	}
	if star == 2 {
		parts = append(parts, "*")
	}
	return strings.Join(parts, ", ")
}

func genSelectItems(t *rapid.T, pt *ProjTable, maxItems, depth int, label string) []SelItem {
	n := rapid.IntRange(1, maxItems).Draw(t, label+".nitems")
	var items []SelItem
	usedBare := map[string]bool{}
	for i := 0; i < n; i++ {
		l := fmt.Sprintf("%s.item%d", label, i)
		e := pt.genAny(t, rapid.IntRange(0, depth).Draw(t, l+".depth"), l)
		it := SelItem{Expr: e, Alias: fmt.Sprintf("o%d", i+1)}
		if e.K == "col" && !strings.Contains(e.S, ".") && !usedBare[e.S] && rapid.Bool().Draw(t, l+".bare") {
			it.Alias = ""
			usedBare[e.S] = true
		}
		items = append(items, it)
	}
	return items
}

func genC02(t *rapid.T) any {
	pt := genProjTable(t, 0, 8, "t")
	c := &C02Case{Doc: map[string]any{"t": pt.Tb.Rows}}
	c.Items = genSelectItems(t, pt, 5, 4, "sel")
	c.Star = rapid.SampledFrom([]int{0, 0, 0, 1, 2}).Draw(t, "star")
	if c.Star != 0 {
		// with *, a bare column would duplicate an output name: alias everything
		for i := range c.Items {
			if c.Items[i].Alias == "" {
				c.Items[i].Alias = fmt.Sprintf("o%d", i+1)
			}
		}
	}
	if rapid.IntRange(0, 3).Draw(t, "assoc") == 0 {
		// IEEE addition and multiplication are not associative: an item whose value depends on the
		// nesting the parentheses prescribe (cancellation, overflow, absorption)
		op := rapid.SampledFrom([]string{"+", "+", "*"}).Draw(t, "assoc.op")
		pool := []float64{1e16, -1e16, 1, 3, 0.5, 1e308, -1e308, 9007199254740992, -9007199254740992}
		if op == "*" {
			pool = []float64{1e200, 1e-200, 1e200, 3, 0.5, 1e-200, 1e308, 1e-308}
		}
		term := func(l string) *sq.E {
			if len(pt.Nums) > 0 && rapid.IntRange(0, 4).Draw(t, l+".col") == 0 {
				return sq.Col(rapid.SampledFrom(pt.Nums).Draw(t, l+".name"))
			}
			return sq.Num(rapid.SampledFrom(pool).Draw(t, l))
		}
		var e *sq.E
		switch rapid.IntRange(0, 3).Draw(t, "assoc.shape") {
		case 0:
			e = sq.Bin(op, term("assoc.x"), sq.Bin(op, term("assoc.y"), term("assoc.z")))
		case 1:
			e = sq.Bin(op, sq.Bin(op, term("assoc.x"), term("assoc.y")), term("assoc.z"))
		case 2:
			e = sq.Bin(op, term("assoc.x"), sq.Bin(op, term("assoc.y"), sq.Bin(op, term("assoc.z"), term("assoc.w"))))
		default:
			e = sq.Bin(op, sq.Bin(op, term("assoc.x"), term("assoc.y")), sq.Bin(op, term("assoc.z"), term("assoc.w")))
		}
		c.Items = append(c.Items, SelItem{Expr: e, Alias: "oa"})
	}
	if len(pt.NullNum) > 0 && rapid.IntRange(0, 3).Draw(t, "sparse") == 0 {
		// an equality on a key that some rows do not have (or hold NULL in), as the condition of a CASE: for
		// those rows it is not true, whatever the rows before them held
		name := pick(t, pt.NullNum, "sparse.col")
		cond := sq.Cmp("=?", pt.col(name), constFor(t, pt.Tb.Col(name), "sparse.c"))
		e := sq.Case([]*sq.E{cond, sq.Str("has")}, sq.Str("has-not"))
		if rapid.Bool().Draw(t, "sparse.noelse") {
			e = sq.Case([]*sq.E{cond, pt.col(name)}, nil)
		}
		c.Items = append(c.Items, SelItem{Expr: e, Alias: "osp"})
	}
	if rapid.IntRange(0, 3).Draw(t, "switch") == 0 {
		// a CASE whose arms each compare a column with a constant - different columns whose names differ only in
		// letter case, or that share their last path element (obj.k1 and a top-level k1): every arm reads its own column
		base := pt.Ints[0]
		twin := strings.ToUpper(base)
		vals := []float64{1, 2, 3}
		rows, _ := c.Doc["t"].([]any)
		for i, r := range rows {
			if rm, ok := r.(map[string]any); ok {
				rm[twin] = rapid.SampledFrom(vals).Draw(t, fmt.Sprintf("switch.r%d.twin", i))
				rm["k1"] = rapid.SampledFrom(vals).Draw(t, fmt.Sprintf("switch.r%d.k1", i))
			}
		}
		a1 := sq.Cmp("=", sq.Col(base), constFor(t, pt.Tb.Col(base), "switch.c1"))
		a2 := sq.Cmp("=", sq.Col(twin), sq.Num(rapid.SampledFrom(vals).Draw(t, "switch.c2")))
		if pt.Obj != "" && rapid.Bool().Draw(t, "switch.path") {
			a1 = sq.Cmp("=?", sq.Col(pt.Obj+".k1"), sq.Num(rapid.SampledFrom(numPool).Draw(t, "switch.c3")))
			a2 = sq.Cmp("=", sq.Col("k1"), sq.Num(rapid.SampledFrom(vals).Draw(t, "switch.c4")))
		}
		if rapid.Bool().Draw(t, "switch.swap") {
			a1, a2 = a2, a1
		}
		var els *sq.E
		if rapid.Bool().Draw(t, "switch.else") {
			els = sq.Str("none")
		}
		c.Items = append(c.Items, SelItem{Expr: sq.Case([]*sq.E{a1, sq.Str("first"), a2, sq.Str("second")}, els), Alias: "osw"})
	}
	if c.Star == 0 && rapid.IntRange(0, 2).Draw(t, "shadow") == 0 {
		// output names spelled like source columns (SELECT b AS a, a AS b): an alias names an output
		// column, it never changes what a column reference in another item reads
		taken := map[string]bool{}
		for _, it := range c.Items {
			if it.Alias == "" {
				taken[it.Expr.S] = true
			}
		}
		var cols []string
		for _, col := range pt.Tb.Cols {
			cols = append(cols, col.Name)
		}
		cols = append(cols, pt.ObjKeys...)
		cols = append(cols, "nokey")
		for i := range c.Items {
			if c.Items[i].Alias == "" || rapid.Bool().Draw(t, fmt.Sprintf("shadow%d", i)) {
				continue
			}
			name := rapid.SampledFrom(cols).Draw(t, fmt.Sprintf("shadow%d.name", i))
			if !taken[name] {
				taken[name] = true
				c.Items[i].Alias = name
			}
		}
	}
	if rapid.IntRange(0, 2).Draw(t, "haswhere") == 0 {
		c.Where = pt.genBoolExpr(t, 1, "w")
	}
	// scale: one output object per kept row, whatever the size of the table
	c.Scale = genScale(t, 20, "scale")
	if rows, _ := c.Doc["t"].([]any); len(rows) == 0 {
		c.Scale = nil
	}
	c.SQL = "SELECT " + renderSelect(c.Items, c.Star, nil) + " FROM t"
	if c.Where != nil {
		c.SQL += " WHERE " + sq.Render(c.Where, nil)
	}
	return c
}

// refProject computes the expected output rows. alt selects the unsigned reading of ~.
func refProject(rows []any, items []SelItem, star int, where *sq.E, env *sq.Env) ([]any, error) {
	out := []any{}
	for _, r := range rows {
		rm := r.(map[string]any)
		if where != nil {
			keep, err := sq.EvalBool(where, rm, env)
			if err != nil {
				return nil, err
			}
			if !keep {
				continue
			}
		}
		o := map[string]any{}
		if star != 0 {
			for k, v := range rm {
				o[k] = v
			}
		}
		for _, it := range items {
			v, err := sq.Eval(it.Expr, rm, env)
			if err != nil {
				return nil, err
			}
			name := it.Alias
			if name == "" {
				name = it.Expr.S
			}
			o[name] = v
		}
		out = append(out, o)
	}
	return out, nil
}

func keysOf(m map[string]any) []string {
	ks := make([]string, 0, len(m))
	for k := range m {
		ks = append(ks, k)
	}
	sort.Strings(ks)
	return ks
}

// diffRows explains the first difference between two row sequences ("" = equal).
func diffRows(got, want []any) string {
	if len(got) != len(want) {
		return fmt.Sprintf("row count %d, expected %d", len(got), len(want))
	}
	for i := range want {
		g, ok := got[i].(map[string]any)
		w, _ := want[i].(map[string]any)
		if !ok {
			return fmt.Sprintf("row %d is %T, expected an object", i, got[i])
		}
		gk, wk := keysOf(g), keysOf(w)
		if strings.Join(gk, ",") != strings.Join(wk, ",") {
			return fmt.Sprintf("row %d has keys %v, expected %v", i, gk, wk)
		}
		for _, k := range wk {
			if !val.Equal(g[k], w[k]) {
				return fmt.Sprintf("row %d column %q = %s, expected %s", i, k, val.JSON(g[k]), val.JSON(w[k]))
			}
		}
	}
	return ""
}

func hasKind(items []SelItem, kind string) bool {
	found := false
	for _, it := range items {
		it.Expr.Walk(func(e *sq.E) {
			if e.K == kind {
				found = true
			}
		})
	}
	return found
}

func discardOrHarness(res *Result, err error) {
	if u, ok := err.(*sq.ErrUnspecified); ok {
		res.Discard = u.Why
		return
	}
	res.Harness = err.Error()
}

func checkC02(c *C02Case) Result {
	res := Result{}
	if c.Scale != nil {
		cc := *c
		cc.Doc, cc.Scale = c.Scale.ExpandDoc(c.Doc, "t"), nil
		res = checkC02(&cc)
		res.Labels = append(res.Labels, "large-table")
		return res
	}
	rows, _ := c.Doc["t"].([]any)
	want, err := refProject(rows, c.Items, c.Star, c.Where, &sq.Env{Doc: c.Doc})
	if err != nil {
		discardOrHarness(&res, err)
		return res
	}
	ops := 0
	for _, it := range c.Items {
		ops += it.Expr.Ops()
		res.Labels = append(res.Labels, it.Expr.Kinds()...)
		if it.Alias == "" {
			res.Labels = append(res.Labels, "bare-column")
		} else if !strings.HasPrefix(it.Alias, "o") {
			res.Labels = append(res.Labels, "alias-spelled-like-column")
		}
		if it.Expr.K == "col" && strings.Contains(it.Expr.S, ".") {
			res.Labels = append(res.Labels, "nested-path")
		}
		res.Labels = append(res.Labels, fmt.Sprintf("depth:%d", minInt(it.Expr.Depth(), 6)))
		if it.Alias == "osp" {
			res.Labels = append(res.Labels, "equality-on-a-sparse-key-in-CASE")
		}
		if it.Alias == "osw" {
			res.Labels = append(res.Labels, "CASE-arms-over-look-alike-columns")
		}
		if it.Alias == "oa" {
			res.Labels = append(res.Labels, "nesting-sensitive-arithmetic")
		}
	}
	res.Labels = dedup(res.Labels)
	if c.Star != 0 {
		res.Labels = append(res.Labels, "star")
	}
	if c.Where != nil {
		res.Labels = append(res.Labels, "where")
	}
	if len(want) >= 200 {
		res.Labels = append(res.Labels, fmt.Sprintf("kept-rows>=200:mod-4=%d", len(want)%4))
	}
	res.NonTrivial = len(want) >= 1 && ops >= 1

	out := c.Env.Exec(val.CopyMap(c.Doc), c.SQL)
	res.Execs++
	if !out.OK() {
		res.Violation = fmt.Sprintf("%s\n  expected rows %s\n  got %s", c.SQL, rowsText(want), out.Describe())
		return res
	}
	d := diffRows(out.Rows, want)
	if d != "" && (hasKind(c.Items, "tilde") || hasKind(c.Items, "tilde2")) {
		// the statement does not choose between the readings of ~ (two's complement or unsigned; fractional
		// operands truncated or rounded): one reading must explain the whole result
		for _, env := range []*sq.Env{{Doc: c.Doc, UnsignedTilde: true}, {Doc: c.Doc, TildeRound: true}, {Doc: c.Doc, UnsignedTilde: true, TildeRound: true}} {
			want2, err := refProject(rows, c.Items, c.Star, c.Where, env)
			if err == nil && diffRows(out.Rows, want2) == "" {
				d = ""
				break
			}
		}
	}
	if d != "" {
		res.Violation = fmt.Sprintf("%s\n  %s\n  expected rows %s\n  got      rows %s", c.SQL, d, rowsText(want), rowsText(out.Rows))
	}
	return res
}

// rowsText renders rows for a message; of a long sequence only both ends are shown (the case file has it all).
func rowsText(rows []any) string {
	if len(rows) <= 60 {
		return val.JSON(rows)
	}
	return fmt.Sprintf("%d rows: first 5 %s ... last 5 %s", len(rows), val.JSON(rows[:5]), val.JSON(rows[len(rows)-5:]))
}

func dedup(xs []string) []string {
	seen := map[string]bool{}
	out := xs[:0]
	for _, x := range xs {
		if !seen[x] {
			seen[x] = true
			out = append(out, x)
		}
	}
	return out
}

package checks

import (
	"fmt"
	"sort"
	"strings"

	"github.com/vedadiyan/genql"
	"pgregory.net/rapid"
	"verifharness/sq"
	"verifharness/val"
)

// C20 - SETVAR/GETVAR behave as per-key registers in evaluation order.
//
// A case is a history: an initial variable map and a sequence of queries that all receive the same
// map object. The model is a sequential register file evaluated row by row, item by item.

type C20Item struct {
	Kind  string `json:"kind"` // set | get | col | getsub (GETVAR inside a scalar subquery over dual)
	Key   string `json:"key,omitempty"`
	Val   *sq.E  `json:"val,omitempty"`   // set: value expression (may contain GETVAR calls); col: column reference
	Alias string `json:"alias,omitempty"` // get / col
	// caseset: CASE WHEN Cond THEN SETVAR(Key, Val) ELSE SETVAR(Key2, Val2) END - only the branch taken writes
	Cond *sq.E  `json:"cond,omitempty"`
	Key2 string `json:"key2,omitempty"`
	Val2 *sq.E  `json:"val2,omitempty"`
}

type C20Query struct {
	Rows  []any     `json:"rows"`
	Where *sq.E     `json:"where,omitempty"`
	Items []C20Item `json:"items"`
	// Form: "" flat select; "derived": SELECT * FROM (<select>) x; "cte": WITH c AS (<select>) SELECT * FROM c.
	// Variables are read and written inside the nested query.
	Form string `json:"form,omitempty"`
	// Arm2, when set, makes the statement `<this select> UNION ALL <Arm2>` over the same table: the left arm is
	// evaluated (all its rows) before the right one, whatever form (flat / derived) either arm has
	Arm2 *C20Query `json:"arm2,omitempty"`
	// SameAs > 0: this step executes the Query object of step SameAs (1-based) once more.
	SameAs int `json:"same_as,omitempty"`
	// Pre: entries the caller writes into the shared variable map right before this step runs.
	Pre map[string]any `json:"pre,omitempty"`
	// Scale: Rows is expanded to 200-700 rows by this recipe before anything is computed (rows are still evaluated
	// one after the other in source order, whatever the size of the table)
	Scale *Scale `json:"scale,omitempty"`
}

type C20Case struct {
	// PreBuild: every Query object is constructed (with the shared map) before the first one runs.
	PreBuild bool `json:"prebuild,omitempty"`
	// Big: register kb holds native int64 values beyond 2^53 (c20BigBase + v, v being the small number this
	// case file shows in column b / in init): a register returns exactly what was stored
	// Consts: every query is also given WithConstants with one constant per register name in use (and for
	// `never`): constants and registers are separate name spaces - a register never set reads NULL
	Consts  bool           `json:"consts,omitempty"`
	Big     bool           `json:"big,omitempty"`
	Init    map[string]any `json:"init"`
	Queries []C20Query     `json:"queries"`
}

var c20NumKeys = []string{"k1", "k2"}
var c20StrKeys = []string{"k3"}
var c20AllKeys = []string{"k1", "k2", "k3", "never"}

func genC20Value(t *rapid.T, key string, label string) *sq.E {
	numeric := key != "k3"
	getvar := func(k string) *sq.E { return sq.Call("GETVAR", sq.Str(k)) }
	if numeric {
		switch rapid.IntRange(0, 7).Draw(t, label+".form") {
		case 0:
			return sq.Num(rapid.SampledFrom([]float64{0, 1, 2, 5, -3, 10.5, 100}).Draw(t, label+".c"))
		case 1:
			return sq.Col("a")
		case 2:
			return sq.Bin("+", sq.Col("a"), sq.Num(rapid.SampledFrom([]float64{1, 10, 0.5}).Draw(t, label+".c")))
		case 3:
			return getvar(rapid.SampledFrom(c20NumKeys).Draw(t, label+".from"))
		case 4, 5:
			// counter / accumulator patterns: read-modify-write of a register
			return sq.Bin(rapid.SampledFrom([]string{"+", "*", "-"}).Draw(t, label+".op"), getvar(rapid.SampledFrom(c20NumKeys).Draw(t, label+".from")), sq.Num(rapid.SampledFrom([]float64{1, 2, 3}).Draw(t, label+".c")))
		case 6:
			return sq.Bin("+", getvar(rapid.SampledFrom(c20NumKeys).Draw(t, label+".from")), sq.Col("a"))
		default:
			return sq.Null()
		}
	}
	switch rapid.IntRange(0, 4).Draw(t, label+".form") {
	case 4:
		// a structured value (object with one field or several, empty / one-element / longer array) taken from a
		// column: a register returns exactly what was stored
		return sq.Col("o")
	case 0:
		return sq.Str(rapid.SampledFrom([]string{"", "x", "it's", "é", "k1"}).Draw(t, label+".c"))
	case 1:
		return sq.Col("s")
	case 2:
		return getvar("k3")
	default:
		return sq.Call("CONCAT", getvar("k3"), sq.Col("s"))
	}
}

func genC20(t *rapid.T) any {
	c := &C20Case{Init: map[string]any{}}
	if rapid.IntRange(0, 2).Draw(t, "preset") == 0 {
		c.Init["k1"] = rapid.SampledFrom([]float64{0, 7, -1}).Draw(t, "init.k1")
	}
	if rapid.IntRange(0, 3).Draw(t, "preset3") == 0 {
		c.Init["k3"] = rapid.SampledFrom([]string{"", "p"}).Draw(t, "init.k3")
	}
	c.Big = rapid.IntRange(0, 3).Draw(t, "big") == 0
	if c.Big && rapid.Bool().Draw(t, "presetbig") {
		c.Init["kb"] = rapid.SampledFrom([]float64{1, 2, 3}).Draw(t, "init.kb")
	}
	nq := rapid.IntRange(1, 5).Draw(t, "nqueries")
	for qi := 0; qi < nq; qi++ {
		ql := fmt.Sprintf("q%d", qi)
		q := C20Query{Rows: []any{}}
		nr := rapid.IntRange(0, 5).Draw(t, ql+".nrows")
		for r := 0; r < nr; r++ {
			q.Rows = append(q.Rows, map[string]any{
				"a": rapid.SampledFrom([]float64{1, 2, 3, 4, 10, -5}).Draw(t, fmt.Sprintf("%s.r%d.a", ql, r)),
				"s": rapid.SampledFrom([]string{"x", "y", "", "zz"}).Draw(t, fmt.Sprintf("%s.r%d.s", ql, r)),
				"o": rapid.SampledFrom([]any{map[string]any{"x": 1.0}, map[string]any{"x": 1.0, "y": "b"}, []any{}, []any{map[string]any{"x": 2.0}}, []any{1.0, 2.0}, map[string]any{"n": nil}, []any{"only"}}).Draw(t, fmt.Sprintf("%s.r%d.o", ql, r)),
			})
			if c.Big {
				q.Rows[r].(map[string]any)["b"] = rapid.SampledFrom([]float64{0, 1, 2, 3, 5, -1}).Draw(t, fmt.Sprintf("%s.r%d.b", ql, r))
			}
		}
		if nr > 0 {
			q.Scale = genScale(t, 30, ql+".scale")
		}
		switch rapid.IntRange(0, 3).Draw(t, ql+".where") {
		case 0:
			q.Where = sq.Cmp(rapid.SampledFrom([]string{">", "<", "!=", "="}).Draw(t, ql+".wop"), sq.Col("a"), sq.Num(rapid.SampledFrom([]float64{1, 2, 3, 10}).Draw(t, ql+".wc")))
		case 1:
			q.Where = sq.Cmp("!=", sq.Col("s"), sq.Str(rapid.SampledFrom([]string{"x", ""}).Draw(t, ql+".ws")))
		}
		ni := rapid.IntRange(1, 6).Draw(t, ql+".nitems")
		for i := 0; i < ni; i++ {
			il := fmt.Sprintf("%s.i%d", ql, i)
			kindDraw := rapid.IntRange(0, 6).Draw(t, il+".kind")
			if c.Big && rapid.IntRange(0, 2).Draw(t, il+".bigitem") == 0 {
				if rapid.Bool().Draw(t, il+".bigset") {
					q.Items = append(q.Items, C20Item{Kind: "set", Key: "kb", Val: sq.Col("b")})
				} else {
					q.Items = append(q.Items, C20Item{Kind: "get", Key: "kb", Alias: fmt.Sprintf("g%d", i)})
				}
				continue
			}
			if rapid.IntRange(0, 7).Draw(t, il+".caseset") == 0 {
				k1 := rapid.SampledFrom([]string{"k1", "k2"}).Draw(t, il+".ck1")
				k2 := rapid.SampledFrom([]string{"k1", "k2", "k3"}).Draw(t, il+".ck2")
				q.Items = append(q.Items, C20Item{Kind: "caseset", Key: k1, Val: genC20Value(t, k1, il+".cv1"), Key2: k2, Val2: genC20Value(t, k2, il+".cv2"),
					Cond: sq.Cmp(rapid.SampledFrom([]string{">", "<", "="}).Draw(t, il+".cop"), sq.Col("a"), sq.Num(rapid.SampledFrom([]float64{1, 2, 3}).Draw(t, il+".cc")))})
				continue
			}
			if rapid.IntRange(0, 11).Draw(t, il+".setroot") == 0 {
				// SETVAR inside a sub query over a table of the enclosing document: one write per row of that table
				// (z = 1, then z = 2), every time the item is evaluated
				q.Items = append(q.Items, C20Item{Kind: "setroot", Key: rapid.SampledFrom([]string{"k1", "k2"}).Draw(t, il+".srkey"), Alias: fmt.Sprintf("sr%d", i)})
				continue
			}
			switch kindDraw {
			case 0, 1, 2:
				k := rapid.SampledFrom([]string{"k1", "k2", "k3"}).Draw(t, il+".key")
				it := C20Item{Kind: "set", Key: k, Val: genC20Value(t, k, il+".val")}
				if rapid.IntRange(0, 3).Draw(t, il+".setalias") == 0 {
					it.Alias = fmt.Sprintf("sv%d", len(q.Items)) // SETVAR(..) AS name: still no column
				}
				q.Items = append(q.Items, it)
			case 3, 4, 5:
				kind := "get"
				switch rapid.IntRange(0, 7).Draw(t, il+".insub") {
				case 0:
					kind = "getsub"
				case 1, 2:
					kind = "getroot" // GETVAR inside a sub query over a table of the enclosing document: one reading per row of it
				}
				q.Items = append(q.Items, C20Item{Kind: kind, Key: rapid.SampledFrom(c20AllKeys).Draw(t, il+".key"), Alias: fmt.Sprintf("g%d", i)})
			default:
				q.Items = append(q.Items, C20Item{Kind: "col", Val: sq.Col(rapid.SampledFrom([]string{"a", "s"}).Draw(t, il+".col")), Alias: fmt.Sprintf("c%d", i)})
			}
		}
		if rapid.IntRange(0, 3).Draw(t, ql+".nested") == 0 {
			q.Form = rapid.SampledFrom([]string{"derived", "cte"}).Draw(t, ql+".form")
			q.Items = append(q.Items, C20Item{Kind: "col", Val: sq.Col("a"), Alias: "ca"})
		} else if !c.Big && rapid.IntRange(0, 5).Draw(t, ql+".grouped") == 0 {
			// a grouped query: one output row per group, in the order the groups first appear, its select list
			// evaluated once; a HAVING that keeps every group does not change that
			q.Form = rapid.SampledFrom([]string{"grouped", "grouped-nohaving"}).Draw(t, ql+".gform")
			var items []C20Item
			for _, it := range q.Items {
				usesRow := false
				if it.Val != nil {
					it.Val.Walk(func(e *sq.E) {
						if e.K == "col" && e.S != "s" {
							usesRow = true
						}
					})
				}
				if it.Kind == "getsub" || it.Kind == "getroot" || it.Kind == "setroot" || it.Kind == "caseset" || usesRow {
					continue
				}
				items = append(items, it)
			}
			q.Items = append(items, C20Item{Kind: "col", Val: sq.Col("s"), Alias: "gs"})
		}
		if !c.Big && q.Form != "cte" && rapid.IntRange(0, 5).Draw(t, ql+".union") == 0 {
			// a second arm over the same table: its own WHERE, items and form (flat or derived table)
			arm := C20Query{Rows: nil}
			if rapid.Bool().Draw(t, ql+".arm2where") {
				arm.Where = sq.Cmp(rapid.SampledFrom([]string{">", "<", "!="}).Draw(t, ql+".arm2wop"), sq.Col("a"), sq.Num(rapid.SampledFrom([]float64{1, 2, 3, 10}).Draw(t, ql+".arm2wc")))
			}
			for i := 0; i < rapid.IntRange(1, 4).Draw(t, ql+".arm2n"); i++ {
				il := fmt.Sprintf("%s.arm2.i%d", ql, i)
				switch rapid.IntRange(0, 4).Draw(t, il+".kind") {
				case 0, 1:
					k := rapid.SampledFrom([]string{"k1", "k2", "k3"}).Draw(t, il+".key")
					arm.Items = append(arm.Items, C20Item{Kind: "set", Key: k, Val: genC20Value(t, k, il+".val")})
				case 2, 3:
					arm.Items = append(arm.Items, C20Item{Kind: "get", Key: rapid.SampledFrom(c20AllKeys).Draw(t, il+".key"), Alias: fmt.Sprintf("h%d", i)})
				default:
					arm.Items = append(arm.Items, C20Item{Kind: "col", Val: sq.Col("a"), Alias: fmt.Sprintf("d%d", i)})
				}
			}
			arm.Items = append(arm.Items, C20Item{Kind: "col", Val: sq.Col("s"), Alias: "cs"})
			if rapid.Bool().Draw(t, ql+".arm2derived") {
				arm.Form = "derived"
			}
			q.Arm2 = &arm
		}
		if qi > 0 && rapid.IntRange(0, 5).Draw(t, ql+".again") == 0 {
			// the Query object of an earlier step runs once more (it must start from the registers as they are now)
			j := rapid.IntRange(1, qi).Draw(t, ql+".sameas")
			for c.Queries[j-1].SameAs > 0 {
				j = c.Queries[j-1].SameAs
			}
			// (nested forms are evaluated when the query is constructed - when exactly is not part of the statement)
			if c.Queries[j-1].Form == "" && c.Queries[j-1].Arm2 == nil {
				q = c.Queries[j-1]
				q.SameAs, q.Pre = j, nil
			}
		}
		if qi > 0 && rapid.IntRange(0, 5).Draw(t, ql+".pre") == 0 {
			k := rapid.SampledFrom([]string{"k1", "k2", "k3"}).Draw(t, ql+".prekey")
			if k == "k3" {
				q.Pre = map[string]any{k: rapid.SampledFrom([]string{"", "w"}).Draw(t, ql+".prestr")}
			} else {
				q.Pre = map[string]any{k: rapid.SampledFrom([]float64{0, 3, -8, 41}).Draw(t, ql+".prenum")}
			}
		}
		c.Queries = append(c.Queries, q)
	}
	if rapid.IntRange(0, 3).Draw(t, "names") == 0 {
		// the registers under other names: distinct strings are distinct registers, however alike they look
		// (numeric texts spelling one number, letter case, blanks, an empty name)
		c.rename(rapid.SampledFrom([]map[string]string{
			{"k1": "7", "k2": "07", "k3": "+7", "never": "7.0"},
			{"k1": "1", "k2": "1.0", "k3": "01", "never": "1e0"},
			{"k1": "a", "k2": "A", "k3": "a ", "never": " a"},
			{"k1": "x", "k2": "x'", "k3": "é", "never": "e"},
			{"k1": "02134", "k2": "2134", "k3": "0x10", "never": "16"},
		}).Draw(t, "nameset"))
	}
	c.Consts = rapid.IntRange(0, 3).Draw(t, "consts") == 0
	c.PreBuild = rapid.IntRange(0, 2).Draw(t, "prebuild") == 0
	for _, q := range c.Queries {
		if q.Form != "" || q.Arm2 != nil {
			// a derived table / CTE is evaluated when the query is constructed; the statement orders
			// evaluations, not constructions, so histories that separate the two use flat queries only
			c.PreBuild = false
		}
	}
	return c
}

// names lists every register name the case mentions (written, read, preset), sorted.
func (c *C20Case) names() []string {
	seen := map[string]bool{}
	var expr func(e *sq.E)
	expr = func(e *sq.E) {
		if e == nil {
			return
		}
		if e.K == "call" && strings.EqualFold(e.S, "GETVAR") && len(e.A) == 1 && e.A[0].K == "str" {
			seen[e.A[0].S] = true
		}
		for _, a := range e.A {
			expr(a)
		}
	}
	var query func(q *C20Query)
	query = func(q *C20Query) {
		for k := range q.Pre {
			seen[k] = true
		}
		expr(q.Where)
		for _, it := range q.Items {
			if it.Key != "" {
				seen[it.Key] = true
			}
			if it.Key2 != "" {
				seen[it.Key2] = true
			}
			expr(it.Val)
			expr(it.Val2)
			expr(it.Cond)
		}
		if q.Arm2 != nil {
			query(q.Arm2)
		}
	}
	for k := range c.Init {
		seen[k] = true
	}
	for i := range c.Queries {
		query(&c.Queries[i])
	}
	out := make([]string, 0, len(seen))
	for k := range seen {
		out = append(out, k)
	}
	sort.Strings(out)
	return out
}

// rename gives the registers of the case other names (kb keeps its name: the check maps its values).
func (c *C20Case) rename(m map[string]string) {
	nm := func(k string) string {
		if n, ok := m[k]; ok {
			return n
		}
		return k
	}
	remap := func(mm map[string]any) map[string]any {
		if mm == nil {
			return nil
		}
		out := map[string]any{}
		for k, v := range mm {
			out[nm(k)] = v
		}
		return out
	}
	var expr func(e *sq.E)
	expr = func(e *sq.E) {
		if e == nil {
			return
		}
		if e.K == "call" && strings.EqualFold(e.S, "GETVAR") && len(e.A) == 1 && e.A[0].K == "str" {
			e.A[0].S = nm(e.A[0].S)
			return
		}
		for _, a := range e.A {
			expr(a)
		}
	}
	var query func(q *C20Query)
	query = func(q *C20Query) {
		q.Pre = remap(q.Pre)
		expr(q.Where)
		for i := range q.Items {
			it := &q.Items[i]
			if it.Key != "" {
				it.Key = nm(it.Key)
			}
			if it.Key2 != "" {
				it.Key2 = nm(it.Key2)
			}
			expr(it.Val)
			expr(it.Val2)
			expr(it.Cond)
		}
		if q.Arm2 != nil {
			query(q.Arm2)
		}
	}
	c.Init = remap(c.Init)
	for i := range c.Queries {
		query(&c.Queries[i])
	}
}

func (q *C20Query) sql() string {
	if q.Arm2 != nil {
		left := *q
		left.Arm2 = nil
		return left.sql() + " UNION ALL " + q.Arm2.sql()
	}
	var parts []string
	for _, it := range q.Items {
		switch it.Kind {
		case "set":
			p := "SETVAR(" + sq.StrLit(it.Key) + ", " + sq.Render(it.Val, nil) + ")"
			if it.Alias != "" {
				p += " AS " + it.Alias
			}
			parts = append(parts, p)
		case "caseset":
			parts = append(parts, "CASE WHEN "+sq.Render(it.Cond, nil)+" THEN SETVAR("+sq.StrLit(it.Key)+", "+sq.Render(it.Val, nil)+") ELSE SETVAR("+sq.StrLit(it.Key2)+", "+sq.Render(it.Val2, nil)+") END")
		case "get":
			parts = append(parts, "GETVAR("+sq.StrLit(it.Key)+") AS "+it.Alias)
		case "getsub":
			parts = append(parts, "(SELECT GETVAR("+sq.StrLit(it.Key)+") AS g FROM dual) AS "+it.Alias)
		case "setroot":
			parts = append(parts, "(SELECT SETVAR("+sq.StrLit(it.Key)+", z) FROM `<-meta`) AS "+it.Alias)
		case "getroot":
			parts = append(parts, "(SELECT GETVAR("+sq.StrLit(it.Key)+") AS g FROM `<-meta`) AS "+it.Alias)
		default:
			parts = append(parts, sq.Render(it.Val, nil)+" AS "+it.Alias)
		}
	}
	s := "SELECT " + strings.Join(parts, ", ") + " FROM t"
	if q.Where != nil {
		s += " WHERE " + sq.Render(q.Where, nil)
	}
	switch q.Form {
	case "grouped":
		s += " GROUP BY s HAVING COUNT(*) > 0"
	case "grouped-nohaving":
		s += " GROUP BY s"
	case "derived":
		s = "SELECT * FROM (" + s + ") x"
	case "cte":
		s = "WITH c AS (" + s + ") SELECT * FROM c"
	}
	return s
}

func checkC20(c *C20Case) Result {
	for _, q := range c.Queries {
		if q.Scale != nil {
			cc := *c
			cc.Queries = append([]C20Query{}, c.Queries...)
			for i := range cc.Queries {
				if sc := cc.Queries[i].Scale; sc != nil {
					cc.Queries[i].Rows, cc.Queries[i].Scale = sc.Expand(cc.Queries[i].Rows), nil
				}
			}
			res := checkC20(&cc)
			res.Labels = append(res.Labels, "large-table")
			return res
		}
	}
	res := Result{}
	model := map[string]any{}
	for k, v := range c.Init {
		model[k] = v
	}
	live := val.CopyMap(c.Init)
	if live == nil {
		live = map[string]any{}
	}
	if v, ok := live["kb"].(float64); ok {
		live["kb"] = c20BigBase + int64(v)
	}
	if c.Big {
		res.Labels = append(res.Labels, "register-holding-int64-beyond-2^53")
	}
	if c.Consts {
		res.Labels = append(res.Labels, "constants-named-like-the-registers")
	}
	// provenance of each register value: which (query,row) wrote it
	type stamp struct{ q, r int }
	writer := map[string]stamp{}
	crossRead := false
	var trace []string
	built := make([]*Prepared, len(c.Queries))
	build := func(i int) {
		if j := c.Queries[i].SameAs; j > 0 {
			built[i] = built[j-1]
			return
		}
		rows, _ := val.Copy(c.Queries[i].Rows).([]any)
		for _, r := range rows {
			if m, ok := r.(map[string]any); ok {
				if v, ok := m["b"].(float64); ok {
					m["b"] = c20BigBase + int64(v)
				}
			}
		}
		extra := []genql.QueryOption{genql.WithVars(live)}
		if c.Consts {
			consts := map[string]any{}
			for _, k := range c.names() {
				consts[k] = "constant " + k
			}
			extra = append(extra, genql.WithConstants(consts))
		}
		built[i] = Build(map[string]any{"t": rows, "meta": []any{map[string]any{"z": 1.0}, map[string]any{"z": 2.0}}}, c.Queries[i].sql(), Opts{}, extra...)
	}
	if c.PreBuild {
		for i := range c.Queries {
			build(i)
		}
		res.Labels = append(res.Labels, "all-queries-built-before-the-first-runs")
	}
	for qi := range c.Queries {
		q := &c.Queries[qi]
		for k, v := range q.Pre {
			live[k] = v
			model[k] = v
			writer[k] = stamp{-1, -1}
			res.Labels = append(res.Labels, "caller-writes-between-queries")
		}
		if q.SameAs > 0 {
			res.Labels = append(res.Labels, "query-object-executed-again")
		}
		env := &sq.Env{Funcs: map[string]func([]any) (any, error){
			"getvar": func(a []any) (any, error) {
				k, _ := a[0].(string)
				return model[k], nil
			},
			"concat": func(a []any) (any, error) {
				var sb strings.Builder
				for _, x := range a {
					if x == nil {
						return nil, &sq.ErrUnspecified{Why: "CONCAT with a NULL argument (known finding concat-null of C18)"}
					}
					s, ok := x.(string)
					if !ok {
						return nil, &sq.ErrUnspecified{Why: "CONCAT of a non-string"}
					}
					sb.WriteString(s)
				}
				return sb.String(), nil
			},
		}}
		var want []any
		arms := []*C20Query{q}
		if q.Arm2 != nil {
			arms = append(arms, q.Arm2)
			res.Labels = append(res.Labels, "union-of-two-arms")
		}
		for ai, arm := range arms {
			modelRows := q.Rows
			if strings.HasPrefix(arm.Form, "grouped") {
				// one model row per group of s among the rows passing WHERE, in first-appearance order
				res.Labels = append(res.Labels, "grouped-query")
				seen := map[string]bool{}
				modelRows = nil
				for _, r := range q.Rows {
					row := r.(map[string]any)
					if arm.Where != nil {
						if keep, err := sq.EvalBool(arm.Where, row, env); err != nil || !keep {
							continue
						}
					}
					k, _ := row["s"].(string)
					if !seen[k] {
						seen[k] = true
						modelRows = append(modelRows, r)
					}
				}
			}
			for ri0, r := range modelRows {
				ri := ri0 + ai*1000 // rows of the second arm are later evaluations
				row := r.(map[string]any)
				q := arm
				if q.Where != nil {
					keep, err := sq.EvalBool(q.Where, row, env)
					if err != nil {
						res.Harness = "reference WHERE: " + err.Error()
						return res
					}
					if !keep {
						continue
					}
				}
				out := map[string]any{}
				for _, it := range q.Items {
					if it.Kind == "caseset" {
						res.Labels = append(res.Labels, "setvar-in-case-branches")
						taken, err := sq.EvalBool(it.Cond, row, env)
						if err != nil {
							res.Harness = "reference CASE condition: " + err.Error()
							return res
						}
						key, valE := it.Key, it.Val
						if !taken {
							key, valE = it.Key2, it.Val2
						}
						v, err := sq.Eval(valE, row, env)
						if err != nil {
							if u, ok := err.(*sq.ErrUnspecified); ok {
								res.Discard = u.Why
								return res
							}
							res.Harness = "reference SETVAR value: " + err.Error()
							return res
						}
						model[key] = v
						writer[key] = stamp{qi, ri}
						continue
					}
					switch it.Kind {
					case "set":
						it.Val.Walk(func(e *sq.E) {
							if e.K == "call" && strings.EqualFold(e.S, "GETVAR") {
								if w, ok := writer[e.A[0].S]; ok && (w.q != qi || w.r != ri) {
									crossRead = true
								}
							}
						})
						v, err := sq.Eval(it.Val, row, env)
						if err != nil {
							if u, ok := err.(*sq.ErrUnspecified); ok {
								res.Discard = u.Why
								return res
							}
							res.Harness = "reference SETVAR value: " + err.Error()
							return res
						}
						model[it.Key] = v
						writer[it.Key] = stamp{qi, ri}
					case "setroot":
						model[it.Key] = 2.0
						writer[it.Key] = stamp{qi, ri}
						out[it.Alias] = []any{map[string]any{}, map[string]any{}}
					case "get", "getsub", "getroot":
						if w, ok := writer[it.Key]; ok && (w.q != qi || w.r != ri) {
							crossRead = true
						}
						out[it.Alias] = model[it.Key]
						if it.Kind == "getsub" {
							out[it.Alias] = map[string]any{"g": model[it.Key]}
						}
						if it.Kind == "getroot" {
							out[it.Alias] = []any{map[string]any{"g": model[it.Key]}, map[string]any{"g": model[it.Key]}}
						}
					default:
						v, _ := sq.Eval(it.Val, row, env)
						out[it.Alias] = v
					}
				}
				if q.Form == "derived" {
					out = map[string]any{"x": out}
				}
				want = append(want, out)
			}
		}
		sql := q.sql()
		if built[qi] == nil {
			build(qi)
		}
		got := built[qi].Exec()
		res.Execs++
		if len(q.Pre) > 0 {
			trace = append(trace, fmt.Sprintf("caller writes %s into the variable map", val.JSON(q.Pre)))
		}
		how := ""
		if q.SameAs > 0 {
			how = fmt.Sprintf(" (the Query object of query %d, executed again)", q.SameAs)
		} else if c.PreBuild {
			how = " (constructed before query 1 ran)"
		}
		trace = append(trace, fmt.Sprintf("query %d%s: %s over %s", qi+1, how, sql, val.JSON(q.Rows)))
		ctx := func() string { return strings.Join(trace, "\n  ") + "\n  initial variables " + val.JSON(c.Init) }
		if !got.OK() {
			res.Violation = fmt.Sprintf("%s\n  expected rows %s, got %s", ctx(), val.JSON(want), got.Describe())
			return res
		}
		if c.Big && got.OK() {
			// columns read from register kb come back as the native integers that were stored: map them to
			// the small numbers of the case file (anything else is left as it is and will not match)
			back := make([]any, len(got.Raw))
			for ri, r := range got.Raw {
				back[ri] = r
				m, ok := r.(map[string]any)
				if !ok {
					continue
				}
				if q.Form == "derived" {
					m, _ = m["x"].(map[string]any)
				}
				cp := make(map[string]any, len(m))
				for k, v := range m {
					cp[k] = v
				}
				for _, it := range q.Items {
					if (it.Kind == "get" || it.Kind == "getsub" || it.Kind == "getroot") && it.Key == "kb" {
						cp[it.Alias] = c20Down(cp[it.Alias])
					}
				}
				if q.Form == "derived" {
					back[ri] = map[string]any{"x": cp}
				} else {
					back[ri] = cp
				}
			}
			got.Rows = val.NormRows(back)
		}
		if !seqEqual(got.Rows, normList(want)) {
			res.Violation = fmt.Sprintf("%s\n  expected rows %s\n  got           %s", ctx(), val.JSON(normList(want)), val.JSON(got.Rows))
			return res
		}
		liveView := val.CopyMap(live)
		if v, ok := liveView["kb"]; ok {
			liveView["kb"] = c20Down(v)
		}
		if !val.Equal(val.Norm(liveView), val.Norm(model)) {
			res.Violation = fmt.Sprintf("%s\n  after Exec the caller's variable map is %s, the register model says %s", ctx(), val.JSON(live), val.JSON(model))
			return res
		}
	}
	sets, gets := 0, 0
	for _, q := range c.Queries {
		for _, it := range q.Items {
			switch it.Kind {
			case "set", "setroot":
				sets++
			case "get", "getsub", "getroot":
				gets++
			}
		}
	}
	res.Labels = append(res.Labels, fmt.Sprintf("queries:%d", len(c.Queries)))
	if crossRead {
		res.Labels = append(res.Labels, "read-of-earlier-row-or-query")
	}
	if len(c.Init) > 0 {
		res.Labels = append(res.Labels, "preset-variables")
	}
	res.NonTrivial = len(c.Queries) >= 2 && crossRead && sets > 0 && gets > 0
	return res
}

func normList(rows []any) []any {
	if rows == nil {
		return []any{}
	}
	return val.NormRows(rows)
}

func init() {
	Register(&Prop{
		ID:    "C20",
		Title: "SETVAR/GETVAR behave as per-key registers in evaluation order",
		Rule: "[Dimensions added in rounds p-r of the seeded-defect evaluation: GETVAR / SETVAR also inside sub queries over a table of the enclosing document (one reading / write per row of that table).] " +
			"rapid draws a history: an initial variable map (possibly preset) and 1-5 queries sharing that one map; each query has a table (0-5 rows; about 2% of the tables expanded to 200-700 rows by a recipe), " +
			"an optional WHERE on plain columns and 1-6 select items out of SETVAR(k, const | column | column+const | GETVAR(k') | GETVAR(k') op const | " +
			"GETVAR(k')+column | NULL | CONCAT(GETVAR(k), column)), GETVAR(k) AS alias (incl. a key that is never set; a fifth of them inside a scalar subquery over dual) and plain columns; a quarter of the queries are wrapped in a derived table or a CTE (variables read and written inside the nested query), over keys k1..k3; a sixth are `<arm> UNION ALL <arm>` with flat or derived arms (left arm evaluated first); a quarter of the histories hold int64 values beyond 2^53 in a register (column b, key kb); histories of flat queries also construct all queries before the first runs, execute an earlier Query object again, and let the caller write into the map between queries. " +
			"Oracle: a sequential register model evaluated row by row on the rows passing WHERE, item by item: every GETVAR column equals the model's " +
			"value at that point (NULL if unset), SETVAR adds no column (a quarter of the SETVAR items carry an alias), after each Exec the caller's map deep-equals the model, the next query " +
			"starts from that state. Non-trivial: >=2 queries, >=1 SETVAR and GETVAR, and a GETVAR that reads a value written by an earlier row or query.",
		Assumptions: []string{
			"variables are enabled through WithVars with a non-nil map (statement: 'with variables enabled')",
			"no ORDER BY / LIMIT / joins in these queries (evaluation order there is unspecified); GROUP BY only in the grouped form (one key, variable calls over the key and constants, a HAVING that keeps every group); WHERE does not call GETVAR",
			"arithmetic with an unset (NULL) register yields NULL (C02); CONCAT with a NULL register is discarded (open finding concat-null)",
		},
		Gen:      genC20,
		New:      func() any { return &C20Case{} },
		Check:    func(c any) Result { return checkC20(c.(*C20Case)) },
		Quick:    2000,
		Thorough: 150000,
	})
}

// c20BigBase + v is what register kb and column b really hold when a case says v.
const c20BigBase = int64(1) << 53

func c20Down(v any) any {
	switch n := v.(type) {
	case int64:
		return float64(n - c20BigBase)
	case []any:
		out := make([]any, len(n))
		for i, x := range n {
			out[i] = c20Down(x)
		}
		return out
	case map[string]any:
		out := make(map[string]any, len(n))
		for k, x := range n {
			out[k] = c20Down(x)
		}
		return out
	}
	return v
}

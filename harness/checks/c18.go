package checks

import (
	"errors"
	"fmt"
	"math"
	"strconv"
	"strings"

	"github.com/vedadiyan/genql"
	"pgregory.net/rapid"
	"verifharness/sq"
	"verifharness/val"
)

// C18 - built-in functions obey their algebraic contracts for all arguments.

type C18Case struct {
	Row    map[string]any `json:"row"`              // argument values live in columns of one row (duplicated: purity across rows)
	Expr   *sq.E          `json:"expr"`             // SELECT <Expr> AS v
	Same   *sq.E          `json:"same,omitempty"`   // optional second item w; law: v == w (engine vs engine)
	Other  *sq.E          `json:"other,omitempty"`  // optional further item u over the same columns, judged by the reference like v
	Consts map[string]any `json:"consts,omitempty"` // WithConstants
	Direct bool           `json:"direct,omitempty"` // also call the exported Go function directly
	Class  string         `json:"class"`
	// Prelude: calls of built-ins made in the same process right before the query, on arguments of any shape
	// (arrays and objects included); whatever they return - a value or an error - the functions are functions
	// of their arguments, so the outcome of the query must not depend on them
	Prelude []string `json:"prelude,omitempty"`
}

// c18Preludes: select items evaluated over the row {arr: [1, "x", null, [2]], o: {a: 1, b: "y"}, s: "abc"}
var c18Preludes = []string{
	"HASH(arr, 'md5')", "HASH(o, 'sha1')", "HASH(arr, 'sha256')", "HASH(o, 'sha512')", "HASH(arr, 'nope')", "HASH(s, 'nope')",
	"ENCODE(arr, 'hex')", "ENCODE(o, 'base64')", "ENCODE(arr, 'base32')", "ENCODE(o, 'hex')", "ENCODE(arr, 'nope')", "ENCODE(s, 'nope')",
	"DECODE('zz', 'hex')", "DECODE('!!', 'base64')", "DECODE(s, 'base32')", "DECODE(arr, 'hex')", "DECODE(ENCODE(s, 'hex'), 'base64')",
	"ELEMENTAT(arr, 9)", "ELEMENTAT(arr, -1)", "ELEMENTAT(o, 0)", "FIRST(o)", "LAST(s)", "UNWIND(o)", "UNWIND(s)",
	"CHANGETYPE('x', 'double')", "CHANGETYPE(arr, 'string')", "CHANGETYPE(o, 'integer')", "CHANGETYPE(s, 'nope')",
	"CONCAT(arr, o)", "TO_UPPER(arr)", "TO_LOWER(o)", "IF(s, 1, 2)", "DATERANGE(arr, o)", "CONSTANT('missing')", "HASH(s)", "ENCODE()",
}

func c18RunPrelude(c *C18Case) {
	for _, item := range c.Prelude {
		doc := map[string]any{"t": []any{map[string]any{"arr": []any{1.0, "x", nil, []any{2.0}}, "o": map[string]any{"a": 1.0, "b": "y"}, "s": "abc"}}}
		Run(doc, "SELECT "+item+" AS p FROM t", Opts{}, genql.UnReportedErrors(func(error) {}))
	}
}

// reference outcomes beyond plain values
var errMustFail = errors.New("the engine must report an error")
var errNullOrFail = errors.New("the engine must report an error or return NULL")

type encOpaque struct {
	V    any
	Base string
}
type hashOpaque struct{ Len int }
type strOfFloat struct{ F float64 }
type anyNumber struct{}

// rangeOpen is the reference value of DATERANGE with a NULL bound (nil = NULL bound).
type rangeOpen struct{ F, T any }

func c18Scalar(v any) bool {
	switch v.(type) {
	case nil, string, float64, bool:
		return true
	}
	return false
}

func c18Arity(n int, args []any) error {
	if len(args) != n {
		return errMustFail
	}
	return nil
}

func c18Text(v any) (string, error) {
	switch t := v.(type) {
	case string:
		return t, nil
	case bool:
		return strconv.FormatBool(t), nil
	case float64:
		a := math.Abs(t)
		if a >= 1e6 || (a != 0 && a < 1e-4) {
			return "", &sq.ErrUnspecified{Why: "textual form of a number outside [1e-4, 1e6) (plain vs exponent notation)"}
		}
		return strconv.FormatFloat(t, 'f', -1, 64), nil
	}
	return "", &sq.ErrUnspecified{Why: fmt.Sprintf("textual form of %T", v)}
}

var c18HashLen = map[string]int{"md5": 32, "sha1": 40, "sha256": 64, "sha512": 128}

func c18Funcs(consts map[string]any, nilText bool) map[string]func(args []any) (any, error) {
	unspec := func(f string, a ...any) error { return &sq.ErrUnspecified{Why: fmt.Sprintf(f, a...)} }
	arr := func(v any) ([]any, bool) { a, ok := v.([]any); return a, ok }
	str := func(v any) (string, bool) { s, ok := v.(string); return s, ok }
	m := map[string]func(args []any) (any, error){}
	m["first"] = func(a []any) (any, error) {
		if err := c18Arity(1, a); err != nil {
			return nil, err
		}
		if a[0] == nil {
			return nil, nil
		}
		s, ok := arr(a[0])
		if !ok {
			return nil, unspec("FIRST of %T", a[0])
		}
		if len(s) == 0 {
			return nil, nil
		}
		return s[0], nil
	}
	m["last"] = func(a []any) (any, error) {
		if err := c18Arity(1, a); err != nil {
			return nil, err
		}
		if a[0] == nil {
			return nil, nil
		}
		s, ok := arr(a[0])
		if !ok {
			return nil, unspec("LAST of %T", a[0])
		}
		if len(s) == 0 {
			return nil, nil
		}
		return s[len(s)-1], nil
	}
	m["elementat"] = func(a []any) (any, error) {
		if err := c18Arity(2, a); err != nil {
			return nil, err
		}
		if a[0] == nil {
			return nil, nil
		}
		s, ok := arr(a[0])
		i, ok2 := a[1].(float64)
		if !ok || !ok2 || i != math.Trunc(i) {
			return nil, unspec("ELEMENTAT(%T, %v)", a[0], a[1])
		}
		if len(s) == 0 {
			// "NULL for an empty array" and "an error for an index outside the array" both apply
			return nil, errNullOrFail
		}
		if i < 0 || int(i) >= len(s) {
			return nil, errMustFail
		}
		return s[int(i)], nil
	}
	m["unwind"] = func(a []any) (any, error) {
		if err := c18Arity(1, a); err != nil {
			return nil, err
		}
		if a[0] == nil {
			return nil, nil
		}
		s, ok := arr(a[0])
		if !ok {
			return nil, unspec("UNWIND of %T", a[0])
		}
		out := []any{}
		for _, x := range s {
			if in, ok := arr(x); ok {
				out = append(out, in...)
			} else {
				out = append(out, x)
			}
		}
		return out, nil
	}
	m["array"] = func(a []any) (any, error) { return append([]any{}, a...), nil }
	m["concat"] = func(a []any) (any, error) {
		var sb strings.Builder
		for _, x := range a {
			if x == nil {
				if nilText {
					sb.WriteString("<nil>")
				}
				continue
			}
			s, err := c18Text(x)
			if err != nil {
				return nil, err
			}
			sb.WriteString(s)
		}
		return sb.String(), nil
	}
	m["if"] = func(a []any) (any, error) {
		if err := c18Arity(3, a); err != nil {
			return nil, err
		}
		c, ok := a[0].(bool)
		if !ok {
			return nil, unspec("IF condition %T", a[0])
		}
		if c {
			return a[1], nil
		}
		return a[2], nil
	}
	m["to_lower"] = func(a []any) (any, error) {
		if err := c18Arity(1, a); err != nil {
			return nil, err
		}
		s, ok := str(a[0])
		if !ok {
			return nil, unspec("TO_LOWER of %T", a[0])
		}
		return strings.ToLower(s), nil
	}
	m["to_upper"] = func(a []any) (any, error) {
		if err := c18Arity(1, a); err != nil {
			return nil, err
		}
		s, ok := str(a[0])
		if !ok {
			return nil, unspec("TO_UPPER of %T", a[0])
		}
		return strings.ToUpper(s), nil
	}
	m["changetype"] = func(a []any) (any, error) {
		if err := c18Arity(2, a); err != nil {
			return nil, err
		}
		ty, ok := str(a[1])
		if !ok {
			return nil, unspec("CHANGETYPE type name %T", a[1])
		}
		if a[0] == nil {
			return nil, nil
		}
		switch strings.ToLower(ty) {
		case "array":
			return []any{a[0]}, nil
		case "string":
			switch v := a[0].(type) {
			case string:
				return v, nil
			case float64:
				return strOfFloat{v}, nil
			case strOfFloat:
				return v, nil
			}
			return nil, unspec("CHANGETYPE(%T,'string')", a[0])
		case "double":
			switch v := a[0].(type) {
			case float64:
				return v, nil
			case strOfFloat:
				return v.F, nil
			case string:
				f, err := strconv.ParseFloat(v, 64)
				if err != nil || strings.ContainsAny(v, "xXpP_nNiI") {
					return nil, unspec("CHANGETYPE of non-decimal text to double")
				}
				return f, nil
			}
			return nil, unspec("CHANGETYPE(%T,'double')", a[0])
		case "integer":
			switch v := a[0].(type) {
			case float64:
				if v != math.Trunc(v) || math.Abs(v) > (1<<31) {
					return nil, unspec("CHANGETYPE of a fractional/huge double to integer")
				}
				return v, nil
			case string:
				i, err := strconv.ParseInt(v, 10, 32)
				if err != nil || strings.HasPrefix(v, "+") {
					if w, err := strconv.ParseInt(v, 10, 64); err == nil && !strings.HasPrefix(v, "+") {
						// beyond 32 bits (and possibly beyond 2^53): the integer the text spells, digit for digit
						return exactInt{strconv.FormatInt(w, 10)}, nil
					}
					return nil, unspec("CHANGETYPE of non-integer text to integer")
				}
				return float64(i), nil
			}
			return nil, unspec("CHANGETYPE(%T,'integer')", a[0])
		}
		return nil, errNullOrFail
	}
	m["encode"] = func(a []any) (any, error) {
		if err := c18Arity(2, a); err != nil {
			return nil, err
		}
		b, ok := str(a[1])
		if !ok || !c18Scalar(a[0]) {
			return nil, unspec("ENCODE(%T,%T)", a[0], a[1])
		}
		switch strings.ToLower(b) {
		case "base64", "base32", "hex":
			return encOpaque{a[0], strings.ToLower(b)}, nil
		}
		return nil, errNullOrFail
	}
	m["decode"] = func(a []any) (any, error) {
		if err := c18Arity(2, a); err != nil {
			return nil, err
		}
		b, ok := str(a[1])
		e, ok2 := a[0].(encOpaque)
		if !ok || !ok2 || strings.ToLower(b) != e.Base {
			return nil, unspec("DECODE of something that is not ENCODE's output in the same base")
		}
		return e.V, nil
	}
	m["hash"] = func(a []any) (any, error) {
		if err := c18Arity(2, a); err != nil {
			return nil, err
		}
		alg, ok := str(a[1])
		if !ok || !c18Scalar(a[0]) {
			return nil, unspec("HASH(%T,%T)", a[0], a[1])
		}
		if n, ok := c18HashLen[strings.ToLower(alg)]; ok {
			return hashOpaque{n}, nil
		}
		return nil, errNullOrFail
	}
	m["daterange"] = func(a []any) (any, error) {
		if err := c18Arity(2, a); err != nil {
			return nil, err
		}
		f, ok := str(a[0])
		t, ok2 := str(a[1])
		if (ok || a[0] == nil) && (ok2 || a[1] == nil) && !(ok && ok2) {
			// a NULL bound: the statement says [f, t] - two positions; how a NULL bound is shown
			// (NULL or empty text), or whether it is rejected, is left open
			return rangeOpen{a[0], a[1]}, nil
		}
		if !ok || !ok2 {
			return nil, unspec("DATERANGE(%T,%T)", a[0], a[1])
		}
		return []any{f, t}, nil
	}
	m["constant"] = func(a []any) (any, error) {
		if err := c18Arity(1, a); err != nil {
			return nil, err
		}
		k, ok := str(a[0])
		v, ok2 := consts[k]
		if !ok || !ok2 {
			return nil, unspec("CONSTANT of an unconfigured name")
		}
		return v, nil
	}
	m["timestamp"] = func(a []any) (any, error) {
		if err := c18Arity(0, a); err != nil {
			return nil, err
		}
		return anyNumber{}, nil
	}
	// fixed-arity functions that only appear in the arity class
	for name, n := range map[string]int{"getvar": 1, "setvar": 2, "raise": 1, "raise_when": 2, "report": 1, "report_when": 2, "fuse": 1, "defaultkey": 1} {
		n := n
		m[name] = func(a []any) (any, error) {
			if err := c18Arity(n, a); err != nil {
				return nil, err
			}
			return nil, unspec("value of this function is not part of C18")
		}
	}
	return m
}

var c18Arities = map[string]int{"first": 1, "last": 1, "elementat": 2, "unwind": 1, "if": 3, "to_lower": 1, "to_upper": 1, "changetype": 2, "encode": 2, "decode": 2,
	"hash": 2, "daterange": 2, "constant": 1, "timestamp": 0, "getvar": 1, "setvar": 2, "raise": 1, "raise_when": 2, "report": 1, "report_when": 2, "fuse": 1, "defaultkey": 1}

var c18Direct = map[string]func(*genql.Query, genql.Map, *genql.FunctionOptions, []any) (any, error){
	"first": genql.FirstFunc, "last": genql.LastFunc, "elementat": genql.ElementAtFunc, "unwind": genql.UnwindFunc, "array": genql.ArrayFunc,
	"concat": genql.ConcatFunc, "if": genql.IfFunc, "to_lower": genql.ToLowerFunc, "to_upper": genql.ToUpperFunc, "changetype": genql.ChangeTypeFunc,
	"daterange": genql.DateRangeFunc, "hash": genql.HashFunc, "encode": genql.EncodeFunc,
}

var c18Strings = []string{"", "a", "Abc", "it's", "ÀÉÎ õü", "straße", "ǅ", "İstanbul", "ΣΊΣΥΦΟΣ", "日本", "x\ny", "a\\b", "\"q\"", "50%", "  ", "NULL", "0", "-1.5", "2024-01-31", "2024-02-29T10:00:00Z", "😀", "\x00z"}
var c18Numbers = []float64{0, 1, -1, 2, 3, 7, 0.5, -2.25, 1.5, 100, 255, 99999.75, 1000000, 123456789, -40000000, 1e21, 1.25e-7, 2147483647, 0.1}

func genC18Scalar(t *rapid.T, label string) any {
	switch rapid.IntRange(0, 6).Draw(t, label+".kind") {
	case 0:
		return nil
	case 1:
		return rapid.Bool().Draw(t, label+".b")
	case 2, 3:
		return rapid.SampledFrom(c18Numbers).Draw(t, label+".n")
	default:
		return rapid.SampledFrom(c18Strings).Draw(t, label+".s")
	}
}

func genC18Array(t *rapid.T, depth int, label string) []any {
	n := rapid.SampledFrom([]int{0, 0, 1, 1, 2, 3, 4}).Draw(t, label+".len")
	out := make([]any, 0, n)
	for i := 0; i < n; i++ {
		l := fmt.Sprintf("%s.%d", label, i)
		k := rapid.IntRange(0, 7).Draw(t, l+".k")
		switch {
		case k == 0 && depth > 0:
			out = append(out, genC18Array(t, depth-1, l))
		case k == 1 && depth > 0:
			out = append(out, []any{})
		case k == 2:
			out = append(out, map[string]any{"k": genC18Scalar(t, l+".ov")})
		case k == 3:
			out = append(out, nil)
		default:
			out = append(out, genC18Scalar(t, l))
		}
	}
	return out
}

type c18Builder struct {
	t   *rapid.T
	row map[string]any
}

// arg places v in a column (or renders it as a literal when it is a scalar and the coin says so).
func (b *c18Builder) arg(v any, label string) *sq.E {
	if c18Scalar(v) && rapid.Bool().Draw(b.t, label+".lit") {
		return lit(v)
	}
	name := fmt.Sprintf("c%d", len(b.row))
	b.row[name] = v
	return sq.Col(name)
}

func caseFlip(t *rapid.T, s string, label string) string {
	switch rapid.IntRange(0, 3).Draw(t, label+".case") {
	case 0:
		return strings.ToUpper(s)
	case 1:
		return strings.ToUpper(s[:1]) + s[1:]
	}
	return s
}

func genC18(t *rapid.T) any {
	b := &c18Builder{t: t, row: map[string]any{}}
	c := &C18Case{Row: b.row}
	classes := []string{"encdec", "hash", "index", "index", "unwind", "array", "concat", "if", "case", "changetype", "changetype", "daterange", "constant", "arity", "arity", "nested"}
	c.Class = rapid.SampledFrom(classes).Draw(t, "class")
	bases := []string{"base64", "base32", "hex"}
	switch c.Class {
	case "encdec":
		v := genC18Scalar(t, "v")
		base := rapid.SampledFrom(bases).Draw(t, "base")
		switch rapid.IntRange(0, 5).Draw(t, "form") {
		case 0:
			c.Expr = sq.Call("ENCODE", b.arg(v, "v"), sq.Str(rapid.SampledFrom([]string{"base16", "", "b64", "rot13", "baſe64", "BAſE32", "heẋ"}).Draw(t, "badbase")))
		case 1:
			c.Expr = sq.Call("ENCODE", b.arg(v, "v"), sq.Str(caseFlip(t, base, "b")))
			c.Direct = true
		default:
			c.Expr = sq.Call("DECODE", sq.Call("ENCODE", b.arg(v, "v"), sq.Str(caseFlip(t, base, "b1"))), sq.Str(caseFlip(t, base, "b2")))
		}
	case "hash":
		v := genC18Scalar(t, "v")
		alg := rapid.SampledFrom([]string{"md5", "sha1", "sha256", "sha512", "sha384", "crc32", "", "ſha1", "ſHA256", "ſha512"}).Draw(t, "alg")
		if strings.Contains(alg, "ſ") {
			// look-alike of a known name (U+017F folds onto s, but is neither s nor S): kept as drawn
			c.Expr = sq.Call("HASH", b.arg(v, "v"), sq.Str(alg))
		} else {
			c.Expr = sq.Call("HASH", b.arg(v, "v"), sq.Str(caseFlip(t, alg+" ", "a")[:len(alg)]))
		}
		c.Direct = true
		if (alg == "md5" || alg == "sha1" || alg == "sha256" || alg == "sha512") && rapid.IntRange(0, 3).Draw(t, "zeros") == 0 {
			// two values that compare equal but are different values (0 and -0, 1 and "1", 2 and 2.5): each digest in the
			// query equals the digest of that value hashed in a query of its own (HASH is a function of v alone)
			pair := rapid.SampledFrom([][2]any{{0.0, math.Copysign(0, -1)}, {math.Copysign(0, -1), 0.0}, {1.0, "1"}, {"1", 1.0}, {true, "true"}, {2.0, 2.5}, {"", nil}}).Draw(t, "zeropair")
			c.Expr = sq.Call("HASH", b.arg(pair[0], "z0"), sq.Str(alg))
			c.Other = sq.Call("HASH", b.arg(pair[1], "z1"), sq.Str(alg))
			c.Direct = false
		}
	case "index":
		var arr any = genC18Array(t, 2, "arr")
		if rapid.IntRange(0, 7).Draw(t, "nullarr") == 0 {
			arr = nil
		}
		n := 0
		if a, ok := arr.([]any); ok {
			n = len(a)
		}
		var arrE *sq.E
		if a, ok := arr.([]any); ok && rapid.IntRange(0, 3).Draw(t, "asarraycall") == 0 {
			var args []*sq.E
			for i, x := range a {
				args = append(args, b.arg(x, fmt.Sprintf("el%d", i)))
			}
			arrE = sq.Call("ARRAY", args...)
		} else {
			arrE = b.arg(arr, "arr")
		}
		switch rapid.IntRange(0, 3).Draw(t, "fn") {
		case 0:
			c.Expr = sq.Call("FIRST", arrE)
		case 1:
			c.Expr = sq.Call("LAST", arrE)
		default:
			idx := rapid.SampledFrom([]int{-2, -1, 0, 0, 1, n - 1, n - 1, n, n + 1, n + 5}).Draw(t, "idx")
			c.Expr = sq.Call("ELEMENTAT", arrE, b.arg(float64(idx), "idx"))
		}
		c.Direct = true
	case "unwind":
		var arr any = genC18Array(t, 3, "arr")
		if rapid.IntRange(0, 9).Draw(t, "nullarr") == 0 {
			arr = nil
		}
		c.Expr = sq.Call("UNWIND", b.arg(arr, "arr"))
		if rapid.IntRange(0, 3).Draw(t, "twice") == 0 {
			c.Expr = sq.Call("UNWIND", c.Expr)
		}
		c.Direct = true
		if a, ok := arr.([]any); ok && rapid.IntRange(0, 2).Draw(t, "shared") == 0 {
			// two results built from the same array of the document in one query: ARRAY(col, x) and ARRAY(col, y)
			// flattened one level each (the document's arrays carry spare capacity, as decoded JSON does)
			col := b.arg(a, "sharedarr")
			x, y := b.arg(genC18Scalar(t, "tailx"), "tailx"), b.arg(genC18Scalar(t, "taily"), "taily")
			c.Expr = sq.Call("UNWIND", sq.Call("ARRAY", col, x))
			c.Other = sq.Call("UNWIND", sq.Call("ARRAY", col, y, x))
			c.Direct = false
		}
	case "array":
		n := rapid.IntRange(0, 4).Draw(t, "n")
		var args []*sq.E
		for i := 0; i < n; i++ {
			l := fmt.Sprintf("a%d", i)
			if rapid.IntRange(0, 3).Draw(t, l+".arr") == 0 {
				args = append(args, b.arg(genC18Array(t, 1, l), l))
			} else {
				args = append(args, b.arg(genC18Scalar(t, l), l))
			}
		}
		c.Expr = sq.Call("ARRAY", args...)
		c.Direct = true
	case "concat":
		n := rapid.IntRange(0, 5).Draw(t, "n")
		var args []*sq.E
		for i := 0; i < n; i++ {
			l := fmt.Sprintf("a%d", i)
			args = append(args, b.arg(genC18Scalar(t, l), l))
		}
		c.Expr = sq.Call("CONCAT", args...)
		c.Direct = true
	case "if":
		var cond *sq.E
		switch rapid.IntRange(0, 2).Draw(t, "condform") {
		case 0:
			cond = b.arg(rapid.Bool().Draw(t, "cond"), "cond")
		case 1:
			cond = sq.Cmp(rapid.SampledFrom(cmpOps).Draw(t, "op"), b.arg(rapid.SampledFrom(c18Numbers).Draw(t, "l"), "l"), b.arg(rapid.SampledFrom(c18Numbers).Draw(t, "r"), "r"))
		default:
			cond = sq.Is(rapid.SampledFrom([]string{"null", "notnull"}).Draw(t, "isop"), b.arg(genC18Scalar(t, "isv"), "isv.col"))
			if cond.A[0].K != "col" {
				cond = b.arg(true, "cond")
			}
		}
		branch := func(l string) *sq.E {
			if rapid.IntRange(0, 3).Draw(t, l+".arr") == 0 {
				return b.arg(genC18Array(t, 1, l), l)
			}
			return b.arg(genC18Scalar(t, l), l)
		}
		c.Expr = sq.Call("IF", cond, branch("x"), branch("y"))
		c.Direct = cond.K == "col" || cond.K == "bool"
	case "case":
		fn := rapid.SampledFrom([]string{"TO_LOWER", "TO_UPPER"}).Draw(t, "fn")
		var s string
		if rapid.Bool().Draw(t, "pool") {
			s = rapid.SampledFrom(c18Strings).Draw(t, "s")
		} else {
			s = rapid.StringOfN(rapid.RuneFrom(unicodeLetters()), 0, 6, -1).Draw(t, "s")
		}
		c.Expr = sq.Call(fn, b.arg(s, "s"))
		if rapid.IntRange(0, 3).Draw(t, "nest") == 0 {
			c.Expr = sq.Call(rapid.SampledFrom([]string{"TO_LOWER", "TO_UPPER"}).Draw(t, "fn2"), c.Expr)
		}
		c.Direct = true
	case "changetype":
		switch rapid.IntRange(0, 6).Draw(t, "form") {
		case 0: // double -> string -> double
			d := genC18Double(t, "d")
			c.Expr = sq.Call("CHANGETYPE", sq.Call("CHANGETYPE", b.arg(d, "d"), sq.Str(caseFlip(t, "string", "t1"))), sq.Str(caseFlip(t, "double", "t2")))
		case 1: // string -> double -> string on the engine's own text: v == w
			d := genC18Double(t, "d")
			col := b.arg(d, "d")
			inner := sq.Call("CHANGETYPE", col, sq.Str("string"))
			c.Expr = sq.Call("CHANGETYPE", sq.Call("CHANGETYPE", inner, sq.Str("double")), sq.Str("string"))
			c.Same = inner
		case 2: // decimal text -> double
			d := genC18Double(t, "d")
			txt := strconv.FormatFloat(d, rapid.SampledFrom([]byte{'f', 'g', 'e'}).Draw(t, "fmt"), -1, 64)
			c.Expr = sq.Call("CHANGETYPE", b.arg(txt, "txt"), sq.Str(caseFlip(t, "double", "t")))
			c.Direct = true
		case 3: // integer
			var v any
			i := rapid.SampledFrom([]int{0, 1, -1, 42, -77, 99999, 1000000, 12345678, -40000000, 2147483647}).Draw(t, "i")
			if rapid.Bool().Draw(t, "astext") {
				v = strconv.Itoa(i)
				if rapid.IntRange(0, 3).Draw(t, "wide") == 0 {
					// integer texts beyond 32 bits and beyond 2^53
					v = rapid.SampledFrom([]string{"2147483648", "4294967296", "-4294967297", "9007199254740992", "9007199254740993", "-9007199254740993", "1234567890123456789", "9223372036854775807", "-9223372036854775808", "-9223372036854775807"}).Draw(t, "widetext")
				}
			} else {
				v = float64(i)
			}
			c.Expr = sq.Call("CHANGETYPE", b.arg(v, "v"), sq.Str(caseFlip(t, "integer", "t")))
			c.Direct = true
		case 4: // array
			var v any = genC18Scalar(t, "v")
			if rapid.IntRange(0, 2).Draw(t, "arr") == 0 {
				v = genC18Array(t, 1, "va")
			}
			c.Expr = sq.Call("CHANGETYPE", b.arg(v, "v"), sq.Str(caseFlip(t, "array", "t")))
			c.Direct = true
		case 5: // unknown type name
			c.Expr = sq.Call("CHANGETYPE", b.arg(genC18Scalar(t, "v"), "v"), sq.Str(rapid.SampledFrom([]string{"int", "float", "bool", "", "text", "map", "ſtring", "ſTRING"}).Draw(t, "badtype")))
			c.Direct = true
		default: // string -> string, NULL -> NULL
			v := genC18Scalar(t, "v")
			if _, ok := v.(bool); ok {
				v = nil
			}
			c.Expr = sq.Call("CHANGETYPE", b.arg(v, "v"), sq.Str(rapid.SampledFrom([]string{"string", "double", "integer", "array"}).Draw(t, "ty")))
			c.Direct = true
		}
	case "daterange":
		var f, to any = rapid.SampledFrom(c18Strings).Draw(t, "f"), rapid.SampledFrom(c18Strings).Draw(t, "to")
		switch rapid.IntRange(0, 7).Draw(t, "nullbound") { // an open range: one bound (or both) is NULL
		case 0:
			f = nil
		case 1:
			to = nil
		case 2:
			f, to = nil, nil
		}
		c.Expr = sq.Call("DATERANGE", b.arg(f, "f"), b.arg(to, "to"))
		c.Direct = true
	case "constant":
		c.Consts = map[string]any{}
		n := rapid.IntRange(1, 3).Draw(t, "nconst")
		var keys []string
		for i := 0; i < n; i++ {
			k := rapid.SampledFrom([]string{"pi", "Name", "k 1", "é", "limit", "x.y"}).Draw(t, fmt.Sprintf("k%d", i))
			if _, dup := c.Consts[k]; dup {
				continue
			}
			if rapid.IntRange(0, 3).Draw(t, fmt.Sprintf("k%d.arr", i)) == 0 {
				c.Consts[k] = genC18Array(t, 1, fmt.Sprintf("cv%d", i))
			} else {
				c.Consts[k] = genC18Scalar(t, fmt.Sprintf("cv%d", i))
			}
			keys = append(keys, k)
		}
		c.Expr = sq.Call("CONSTANT", b.arg(rapid.SampledFrom(keys).Draw(t, "key"), "key"))
	case "arity":
		names := make([]string, 0, len(c18Arities))
		for n := range c18Arities {
			names = append(names, n)
		}
		sortStrings(names)
		fn := rapid.SampledFrom(names).Draw(t, "fn")
		n := c18Arities[fn]
		k := n + rapid.SampledFrom([]int{-1, 1, 1, 2}).Draw(t, "delta")
		if k < 0 {
			k = n + 1
		}
		var args []*sq.E
		for i := 0; i < k; i++ {
			l := fmt.Sprintf("a%d", i)
			var v any = rapid.SampledFrom([]any{"x", 1.0, true, "base64", "string", nil}).Draw(t, l)
			if i == 0 && (fn == "first" || fn == "last" || fn == "elementat" || fn == "unwind") {
				v = []any{1.0, 2.0}
				if rapid.IntRange(0, 2).Draw(t, l+".nullarr") == 0 {
					v = nil // a NULL first argument does not excuse a wrong argument count
				}
			}
			args = append(args, b.arg(v, l))
		}
		c.Expr = sq.Call(strings.ToUpper(fn), args...)
		_, c.Direct = c18Direct[fn]
		c.Consts = map[string]any{"x": 1.0}
	case "nested":
		// compositions: FIRST(UNWIND(..)), ELEMENTAT(ARRAY(..), i), CONCAT(TO_UPPER(..), IF(..)), LAST(CHANGETYPE(v,'array'))
		switch rapid.IntRange(0, 4).Draw(t, "form") {
		case 0:
			c.Expr = sq.Call(rapid.SampledFrom([]string{"FIRST", "LAST"}).Draw(t, "fn"), sq.Call("UNWIND", b.arg(genC18Array(t, 2, "arr"), "arr")))
		case 1:
			n := rapid.IntRange(1, 4).Draw(t, "n")
			var args []*sq.E
			for i := 0; i < n; i++ {
				args = append(args, b.arg(genC18Scalar(t, fmt.Sprintf("e%d", i)), fmt.Sprintf("e%d", i)))
			}
			c.Expr = sq.Call("ELEMENTAT", sq.Call("ARRAY", args...), sq.Num(float64(rapid.IntRange(-1, n).Draw(t, "i"))))
		case 2:
			s := rapid.SampledFrom(c18Strings).Draw(t, "s")
			c.Expr = sq.Call("CONCAT", sq.Call("TO_UPPER", b.arg(s, "s")), sq.Call("IF", b.arg(rapid.Bool().Draw(t, "c"), "c"), b.arg(genC18Scalar(t, "x"), "x"), sq.Str("-")))
		case 3:
			c.Expr = sq.Call("LAST", sq.Call("CHANGETYPE", b.arg(genC18Scalar(t, "v"), "v"), sq.Str("array")))
		default:
			base := rapid.SampledFrom(bases).Draw(t, "base")
			c.Expr = sq.Call("FIRST", sq.Call("ARRAY", sq.Call("DECODE", sq.Call("ENCODE", b.arg(genC18Scalar(t, "v"), "v"), sq.Str(base)), sq.Str(base))))
		}
	}
	if rapid.IntRange(0, 3).Draw(t, "withprelude") == 0 {
		n := rapid.IntRange(1, 3).Draw(t, "nprelude")
		for i := 0; i < n; i++ {
			c.Prelude = append(c.Prelude, rapid.SampledFrom(c18Preludes).Draw(t, fmt.Sprintf("prelude%d", i)))
		}
	}
	return c
}

func genC18Double(t *rapid.T, label string) float64 {
	if rapid.Bool().Draw(t, label+".pool") {
		return rapid.SampledFrom(c18Numbers).Draw(t, label)
	}
	f := rapid.Float64().Draw(t, label+".f")
	if math.IsNaN(f) || math.IsInf(f, 0) {
		return 1.5
	}
	return f
}

func sortStrings(s []string) {
	for i := 1; i < len(s); i++ {
		for j := i; j > 0 && s[j] < s[j-1]; j-- {
			s[j], s[j-1] = s[j-1], s[j]
		}
	}
}

func unicodeLetters() []rune {
	return []rune("aZßéÉİıǅǆσςΣѐЖ日ßﬁÅ k9ǰΐ")
}

// c18Match compares an engine value with a reference outcome (which may be opaque).
// exactInt: the expected value is the integer with decimal text S, held in any Go numeric type that holds it exactly.
type exactInt struct{ S string }

func c18IntText(v any) (string, bool) {
	switch n := v.(type) {
	case int:
		return strconv.FormatInt(int64(n), 10), true
	case int64:
		return strconv.FormatInt(n, 10), true
	case int32:
		return strconv.FormatInt(int64(n), 10), true
	case uint64:
		return strconv.FormatUint(n, 10), true
	case uint:
		return strconv.FormatUint(uint64(n), 10), true
	case float64:
		if n == math.Trunc(n) && math.Abs(n) < 1<<53 {
			return strconv.FormatFloat(n, 'f', 0, 64), true
		}
	case *float64:
		if n != nil {
			return c18IntText(*n)
		}
	}
	return "", false
}

func c18Match(got any, want any) string {
	if w, ok := want.(exactInt); ok {
		if s, ok := c18IntText(got); !ok || s != w.S {
			return fmt.Sprintf("expected the integer %s, got %T(%v)", w.S, got, got)
		}
		return ""
	}
	got = val.Norm(got)
	switch w := want.(type) {
	case rangeOpen:
		arr, ok := got.([]any)
		if !ok || len(arr) != 2 {
			return fmt.Sprintf("expected the two positions [from, to] of %s, got %s", c18Show(w), val.JSON(got))
		}
		for i, bound := range []any{w.F, w.T} {
			if bound == nil {
				if arr[i] != nil && arr[i] != "" {
					return fmt.Sprintf("position %d of %s holds %s although that bound is NULL", i, c18Show(w), val.JSON(arr[i]))
				}
			} else if !val.Equal(arr[i], bound) {
				return fmt.Sprintf("position %d: expected %s, got %s", i, val.JSON(bound), val.JSON(got))
			}
		}
		return ""
	case hashOpaque:
		s, ok := got.(string)
		if !ok || len(s) != w.Len || strings.Trim(s, "0123456789abcdef") != "" {
			return fmt.Sprintf("expected %d lower-case hex digits, got %s", w.Len, val.JSON(got))
		}
		return ""
	case encOpaque:
		if s, ok := got.(string); !ok || s == "" {
			return fmt.Sprintf("expected encoded text, got %s", val.JSON(got))
		}
		return ""
	case strOfFloat:
		s, ok := got.(string)
		if !ok {
			return fmt.Sprintf("expected the text of %v, got %s", w.F, val.JSON(got))
		}
		f, err := strconv.ParseFloat(s, 64)
		if err != nil || f != w.F {
			return fmt.Sprintf("expected text that reads back as %v, got %q", w.F, s)
		}
		return ""
	case anyNumber:
		if _, ok := got.(float64); !ok {
			return fmt.Sprintf("expected a number, got %s", val.JSON(got))
		}
		return ""
	}
	if !val.Equal(got, want) {
		return fmt.Sprintf("expected %s, got %s", val.JSON(want), val.JSON(got))
	}
	return ""
}

func c18DirectCall(f func(*genql.Query, genql.Map, *genql.FunctionOptions, []any) (any, error), args []any) (v any, err error, panicked string) {
	defer func() {
		if r := recover(); r != nil {
			panicked = fmt.Sprint(r)
		}
	}()
	v, err = f(nil, nil, nil, args)
	return v, err, ""
}

func checkC18(c *C18Case) Result {
	res := c18Judge(c, false)
	if res.Violation != "" && c18ConcatNull(c) {
		// known finding concat-null: the same case judged with "NULL prints as <nil>" must hold,
		// otherwise this is a different violation
		if alt := c18Judge(c, true); alt.Violation == "" && alt.Harness == "" {
			res.KnownKey = "concat-null"
		}
	}
	return res
}

// c18ConcatNull: some CONCAT call of the expression receives a NULL argument.
func firstRow(o Out) any {
	if len(o.Rows) == 0 {
		return nil
	}
	return o.Rows[0]
}

func c18ConcatNull(c *C18Case) bool {
	env := &sq.Env{Funcs: c18Funcs(c.Consts, false)}
	found := false
	c.Expr.Walk(func(e *sq.E) {
		if e.K == "call" && strings.EqualFold(e.S, "CONCAT") {
			for _, a := range e.A {
				if v, err := sq.Eval(a, c.Row, env); err == nil && v == nil {
					found = true
				}
			}
		}
	})
	return found
}

func c18Judge(c *C18Case, nilText bool) Result {
	res := Result{}
	funcs := c18Funcs(c.Consts, nilText)
	env := &sq.Env{Funcs: funcs}
	row := val.CopyMap(c.Row)
	if row == nil {
		row = map[string]any{}
	}
	want, werr := sq.Eval(c.Expr, row, env)
	var unspec *sq.ErrUnspecified
	if errors.As(werr, &unspec) {
		res.Discard = unspec.Why
		return res
	}
	if werr != nil && werr != errMustFail && werr != errNullOrFail {
		res.Harness = werr.Error()
		return res
	}
	top := strings.ToLower(c.Expr.S)
	res.Labels = append(res.Labels, "class:"+c.Class, "fn:"+top)
	switch {
	case werr == errMustFail:
		res.Labels = append(res.Labels, "expect:error")
	case werr == errNullOrFail:
		res.Labels = append(res.Labels, "expect:null-or-error")
	default:
		res.Labels = append(res.Labels, "expect:value")
	}
	res.NonTrivial = c18NonTrivial(c, werr)

	sql := "SELECT " + sq.Render(c.Expr, nil) + " AS v"
	if c.Same != nil {
		sql += ", " + sq.Render(c.Same, nil) + " AS w"
	}
	var wantOther any
	if c.Other != nil {
		var oerr error
		if wantOther, oerr = sq.Eval(c.Other, row, env); oerr != nil {
			res.Harness = "reference value of the second item: " + oerr.Error()
			return res
		}
		sql += ", " + sq.Render(c.Other, nil) + " AS u"
		res.Labels = append(res.Labels, "two-results-from-one-array")
	}
	sql += " FROM t"
	doc := map[string]any{"t": []any{val.CopySpare(row), val.CopySpare(row)}}
	var extra []genql.QueryOption
	if c.Consts != nil {
		extra = append(extra, genql.WithConstants(val.CopyMap(c.Consts)))
	}
	extra = append(extra, genql.WithVars(map[string]any{}), genql.UnReportedErrors(func(error) {}))
	if len(c.Prelude) > 0 {
		res.Labels = append(res.Labels, "after-prelude-calls")
		c18RunPrelude(c)
		res.Execs += len(c.Prelude)
	}
	out := Run(doc, sql, Opts{}, extra...)
	res.Execs++
	ctx := fmt.Sprintf("%s on row %s", sql, val.JSON(row))
	if out.Panic != "" {
		res.Violation = ctx + "\n  " + out.Describe()
		return res
	}
	switch {
	case werr == errMustFail:
		if out.OK() {
			res.Violation = fmt.Sprintf("%s\n  expected an error, got %s", ctx, out.Describe())
			return res
		}
	case werr == errNullOrFail:
		if out.OK() {
			for _, r := range out.Rows {
				if m, _ := r.(map[string]any); m == nil || m["v"] != nil {
					res.Violation = fmt.Sprintf("%s\n  expected an error or NULL, got %s", ctx, out.Describe())
					return res
				}
			}
		}
	default:
		if _, open := want.(rangeOpen); open && !out.OK() {
			res.Labels = append(res.Labels, "daterange-null-bound:rejected")
			return res // rejecting a NULL bound is left open by the statement
		}
		if !out.OK() {
			res.Violation = fmt.Sprintf("%s\n  expected %s, got %s", ctx, c18Show(want), out.Describe())
			return res
		}
		if len(out.Rows) != 2 {
			res.Violation = fmt.Sprintf("%s\n  expected two rows, got %s", ctx, out.Describe())
			return res
		}
		for ri, r := range out.Rows {
			m, _ := r.(map[string]any)
			if m == nil {
				res.Violation = fmt.Sprintf("%s\n  row is %s", ctx, val.JSON(r))
				return res
			}
			gv := m["v"]
			if _, ok := want.(exactInt); ok && ri < len(out.Raw) {
				// compared digit for digit on the value as the engine returned it
				if rm, ok := out.Raw[ri].(map[string]any); ok {
					gv = rm["v"]
				}
			}
			if d := c18Match(gv, want); d != "" {
				res.Violation = fmt.Sprintf("%s\n  %s", ctx, d)
				return res
			}
			if c.Other != nil && c.Class == "hash" {
				alone := Run(map[string]any{"t": []any{val.CopySpare(row)}}, "SELECT "+sq.Render(c.Other, nil)+" AS v FROM t", Opts{}, extra...)
				res.Execs++
				if am, _ := firstRow(alone).(map[string]any); !alone.OK() || am == nil || !val.Equal(val.Norm(am["v"]), val.Norm(m["u"])) {
					res.Violation = fmt.Sprintf("%s\n  second item u = %s, the same call in a query of its own returns %s", ctx, val.JSON(m["u"]), alone.Describe())
					return res
				}
			}
			if c.Other != nil {
				if d := c18Match(m["u"], wantOther); d != "" {
					res.Violation = fmt.Sprintf("%s\n  second item u: %s", ctx, d)
					return res
				}
			}
			if c.Same != nil && !val.Equal(val.Norm(m["v"]), val.Norm(m["w"])) {
				res.Violation = fmt.Sprintf("%s\n  v and w must be equal (round trip on the engine's own text): %s", ctx, val.JSON(r))
				return res
			}
		}
		if !val.Equal(out.Rows[0], out.Rows[1]) {
			res.Violation = fmt.Sprintf("%s\n  equal rows gave different values: %s", ctx, val.JSON(out.Rows))
			return res
		}
	}
	// the exported Go function, called directly with the evaluated arguments
	if f, ok := c18Direct[top]; ok && c.Direct && c.Expr.K == "call" {
		args := make([]any, len(c.Expr.A))
		for i, a := range c.Expr.A {
			v, err := sq.Eval(a, row, env)
			if err != nil {
				return res
			}
			switch v.(type) {
			case encOpaque, hashOpaque, strOfFloat, anyNumber, exactInt, rangeOpen:
				return res
			}
			args[i] = val.Copy(v)
		}
		c18RunPrelude(c)
		got, gerr, p := c18DirectCall(f, args)
		res.Execs++
		res.Labels = append(res.Labels, "direct-call")
		dctx := fmt.Sprintf("%s(%s) called directly", c.Expr.S, val.JSON(args))
		switch {
		case p != "":
			res.Violation = fmt.Sprintf("%s panicked: %s", dctx, p)
		case werr == errMustFail && gerr == nil:
			res.Violation = fmt.Sprintf("%s: expected an error, got %s", dctx, val.JSON(val.Norm(got)))
		case werr == errNullOrFail && gerr == nil && got != nil:
			res.Violation = fmt.Sprintf("%s: expected an error or NULL, got %s", dctx, val.JSON(val.Norm(got)))
		case werr == nil && gerr != nil:
			if _, open := want.(rangeOpen); !open {
				res.Violation = fmt.Sprintf("%s: expected %s, got error %v", dctx, c18Show(want), gerr)
			}
		case werr == nil:
			if d := c18Match(got, want); d != "" {
				res.Violation = fmt.Sprintf("%s: %s", dctx, d)
			}
		}
	}
	return res
}

func c18Show(v any) string {
	switch w := v.(type) {
	case rangeOpen:
		return fmt.Sprintf("<[%s, %s] with a NULL bound shown as NULL or as empty text>", val.JSON(w.F), val.JSON(w.T))
	case hashOpaque:
		return fmt.Sprintf("<%d hex digits>", w.Len)
	case encOpaque:
		return "<encoded text>"
	case strOfFloat:
		return fmt.Sprintf("<text of %v>", w.F)
	case anyNumber:
		return "<a number>"
	}
	return val.JSON(v)
}

// non-trivial = the argument is not the "friendly" one
func c18NonTrivial(c *C18Case, werr error) bool {
	if werr != nil || c.Class == "nested" || c.Class == "encdec" || c.Class == "changetype" {
		return true
	}
	friendly := true
	var walk func(v any, depth int)
	walk = func(v any, depth int) {
		switch t := v.(type) {
		case nil:
			friendly = false
		case []any:
			if len(t) == 0 || depth > 0 {
				friendly = false
			}
			for _, x := range t {
				walk(x, depth+1)
			}
		case string:
			if t == "" || hasMultiByte(t) || strings.ContainsAny(t, "'\\\"\n\x00") {
				friendly = false
			}
		case float64:
			if t < 0 || t != math.Trunc(t) || t >= 1e6 {
				friendly = false
			}
		}
	}
	for _, v := range c.Row {
		walk(v, 0)
	}
	c.Expr.Walk(func(e *sq.E) {
		switch e.K {
		case "null":
			friendly = false
		case "str":
			walk(e.S, 0)
		case "num":
			walk(e.N, 0)
		}
	})
	return !friendly
}

func init() {
	Register(&Prop{
		ID:    "C18",
		Title: "Built-in functions obey their algebraic contracts for all arguments",
		Rule: "[Dimensions added in rounds p-r of the seeded-defect evaluation: a quarter of the cases run 1-3 built-in calls on arguments of any shape right before the query (outcome ignored); UNWIND also as two results built from one array column in one query, on documents with spare capacity; HASH also of two equal-looking values (0 / -0, 1 / '1') in one query, each compared with the same call in a query of its own.] " +
			"rapid draws one function-call expression per case (classes: DECODE(ENCODE(v,b),b) over scalars x {base64,base32,hex,unknown} in any letter case; " +
			"HASH over scalars x {md5,sha1,sha256,sha512,unknown}; FIRST/LAST/ELEMENTAT over arrays (empty, nested, with NULLs and objects, NULL array, " +
			"ARRAY(..) literals) x indexes {-2,-1,0,1,n-1,n,n+1,n+5}; UNWIND (also twice); ARRAY; CONCAT with NULLs; IF with boolean column / " +
			"comparison / IS NULL conditions; TO_LOWER/TO_UPPER over multi-byte strings; CHANGETYPE double->string->double, engine-text->double->string, " +
			"decimal text->double, integer from doubles and texts, array, unknown type names, NULL; DATERANGE incl. open ranges (a NULL bound keeps its position, shown as NULL or empty text, or is rejected); CONSTANT with WithConstants; every " +
			"fixed-arity function with n-1, n+1, n+2 arguments; nested compositions). Arguments are placed in row columns or rendered as literals. " +
			"Oracle: reference implementations of the stated contracts (opaque tokens for encoded/hashed text), evaluated on two equal rows; the exported Go " +
			"function is also called directly (a panic is not an error). Non-trivial: an argument that is NULL, empty, nested, negative, fractional, " +
			">=10^6, multi-byte or quote-bearing, a boundary/outside index, an unknown name, a wrong arity, or a composition.",
		Assumptions: []string{
			"IF conditions are boolean; TO_LOWER/TO_UPPER/DATERANGE arguments are strings; ENCODE/HASH arguments are scalars",
			"ELEMENTAT on an empty array may return NULL or an error (the statement gives both); unknown base/algorithm/type names may return NULL or an error",
			"CONCAT's textual form of a number is asserted only for 1e-4 <= |v| < 1e6 (plain vs exponent notation is unspecified)",
			"CHANGETYPE(double,'string') may choose any text that reads back as the same double",
		},
		Gen:      genC18,
		New:      func() any { return &C18Case{} },
		Check:    func(c any) Result { return checkC18(c.(*C18Case)) },
		Quick:    5000,
		Thorough: 300000,
	})
}

package checks

import (
	"encoding/json"
	"fmt"
	"math"
	"strconv"
	"strings"

	"github.com/vedadiyan/genql"
	"pgregory.net/rapid"
	"verifharness/val"
)

// C12 - results are plain self-contained data and evaluation is deterministic.

type C12Case struct {
	Doc       map[string]any `json:"doc"`
	SQL       string         `json:"sql"`
	Wrapped   bool           `json:"wrapped,omitempty"`
	Unordered bool           `json:"unordered,omitempty"`
	Form      string         `json:"form"`
	Repeats   int            `json:"repeats,omitempty"` // re-executions (default 2)
	Position  string         `json:"position"`
	// Mixed (form "mixed-kinds"): the values of column g of table t, as tokens "<go type>:<text>"; the
	// document is built from them at check time because JSON cannot carry Go types. Column v numbers the rows.
	Mixed []string `json:"mixed,omitempty"`
	// Many (form "many-groups"): table t is built at check time from {rows, a, b}: row i holds g1 = i mod a,
	// g2 = "s<(i div a) mod b>", v = i - min(rows, a*b) distinct (g1, g2) pairs, met again once all have appeared
	Many []int `json:"many,omitempty"`
	// Between: an evaluation of its own (own document, own text) that runs in the same process between the first
	// execution and every re-execution. It is not judged - it may fail, and mostly does: what the judged query
	// returns on an equal input does not depend on what the engine evaluated, or failed to evaluate, in between.
	Between *C12Step `json:"between,omitempty"`
}

// C12Step is an evaluation whose outcome is ignored. Sound is its document before the damage (equal to Doc when
// there is none): the same text on Sound is evaluated before the first execution and after the last one, and these two
// evaluations of one query on equal inputs are judged like any other repetition. It also makes the case self-contained:
// nothing the failing evaluation may have left behind in the process outlives the case.
type C12Step struct {
	Doc   map[string]any `json:"doc"`
	Sound map[string]any `json:"sound"`
	SQL   string         `json:"sql"`
	Fault string         `json:"fault"` // none | <kind>@first-key | <kind>@later-key, for the labels only
}

// genC12Between draws a sibling join p x <op> s y over 1-3 equi conjuncts whose key columns are plain columns,
// paths into a nested object (`m.n`) or elements of an array (`a[1]`), on tables of 1-4 rows, and (3 of 4) damages one
// key column of one row of one table so that reading it fails (a scalar where the path expects an object, an array
// too short for the index): the join then gives up in the middle of the keys of that row, after any number of
// rows and key columns that were read fine.
func genC12Between(t *rapid.T) *C12Step {
	nk := rapid.IntRange(1, 3).Draw(t, "between.nkeys")
	fault := rapid.IntRange(0, 3).Draw(t, "between.fault") != 0
	fk := rapid.IntRange(0, nk-1).Draw(t, "between.fault.key")
	shapes := make([]string, nk)
	for i := range shapes {
		if fault && i == fk {
			shapes[i] = rapid.SampledFrom([]string{"path", "index"}).Draw(t, fmt.Sprintf("between.k%d.shape", i))
		} else {
			shapes[i] = rapid.SampledFrom([]string{"plain", "path", "index"}).Draw(t, fmt.Sprintf("between.k%d.shape", i))
		}
	}
	pool := []any{1.0, 2.0, "a"}
	cell := func(shape string, v any) any {
		switch shape {
		case "path":
			return map[string]any{"n": v}
		case "index":
			return []any{7.0, v}
		}
		return v
	}
	sel := func(i int) string {
		switch shapes[i] {
		case "path":
			return fmt.Sprintf("`c%d.n`", i)
		case "index":
			return fmt.Sprintf("`c%d[1]`", i)
		}
		return fmt.Sprintf("c%d", i)
	}
	tables := map[string]any{}
	sizes := map[string]int{}
	for _, name := range []string{"p", "s"} {
		n := rapid.IntRange(1, 4).Draw(t, "between."+name+".rows")
		sizes[name] = n
		rows := make([]any, n)
		for r := range rows {
			row := map[string]any{"w": float64(r + 1)}
			for i := range shapes {
				row[fmt.Sprintf("c%d", i)] = cell(shapes[i], rapid.SampledFrom(pool).Draw(t, fmt.Sprintf("between.%s.r%d.c%d", name, r, i)))
			}
			rows[r] = row
		}
		tables[name] = rows
	}
	st := &C12Step{Doc: tables, Sound: val.CopyMap(tables), Fault: "none"}
	if fault {
		tb := rapid.SampledFrom([]string{"p", "s"}).Draw(t, "between.fault.table")
		r := rapid.IntRange(0, sizes[tb]-1).Draw(t, "between.fault.row")
		row := tables[tb].([]any)[r].(map[string]any)
		kind := "scalar-under-path"
		if shapes[fk] == "index" {
			kind = "array-too-short"
			row[fmt.Sprintf("c%d", fk)] = []any{7.0}
		} else {
			row[fmt.Sprintf("c%d", fk)] = 5.0
		}
		pos := "first-key"
		if fk > 0 {
			pos = "later-key"
		}
		st.Fault = kind + "@" + pos
	}
	op := rapid.SampledFrom([]string{"JOIN", "LEFT JOIN", "RIGHT JOIN", "HASH_JOIN", "LEFT HASH_JOIN"}).Draw(t, "between.op")
	on := make([]string, nk)
	for i := range on {
		if rapid.Bool().Draw(t, fmt.Sprintf("between.k%d.swap", i)) {
			on[i] = "y." + sel(i) + " = x." + sel(i)
		} else {
			on[i] = "x." + sel(i) + " = y." + sel(i)
		}
	}
	st.SQL = fmt.Sprintf("SELECT x.w AS xw, y.w AS yw FROM p x %s s y ON %s", op, strings.Join(on, " AND "))
	return st
}

// c12WithBetween adds the unjudged evaluation in between to 1 of 2 cases whose query joins and to 1 of 10 others.
func c12WithBetween(t *rapid.T, c *C12Case) *C12Case {
	odds := 9
	if strings.Contains(c.SQL, "JOIN") {
		odds = 1
	}
	if rapid.IntRange(0, odds).Draw(t, "between") == 0 {
		c.Between = genC12Between(t)
	}
	return c
}

// c12MixedPool: values of different kinds and Go types that are equal under one notion of equality and
// different under another (text vs number, -0 vs 0, float32 vs float64, 1e6 printed with an exponent).
var c12MixedPool = []string{"s:1000000", "f64:1000000", "int:1000000", "f32:0.1", "s:0.1", "f64:0.1", "s:0", "f64:0", "f64:-0", "int:0", "u8:0", "s:1", "int:1", "f64:1", "i64:1",
	"b:true", "s:true", "s:1e+06", "s:", "nil", "u64:1000000", "f32:1"}

func c12MixedValue(tok string) any {
	kind, text, _ := strings.Cut(tok, ":")
	f, _ := strconv.ParseFloat(text, 64)
	switch kind {
	case "s":
		return text
	case "f64":
		if text == "-0" {
			return math.Copysign(0, -1)
		}
		return f
	case "f32":
		return float32(f)
	case "int":
		return int(f)
	case "i64":
		return int64(f)
	case "u8":
		return uint8(f)
	case "u64":
		return uint64(f)
	case "b":
		return text == "true"
	}
	return nil
}

func (c *C12Case) doc() map[string]any {
	if len(c.Many) == 3 {
		rows := make([]any, c.Many[0])
		for i := range rows {
			rows[i] = map[string]any{"g1": float64(i % c.Many[1]), "g2": fmt.Sprintf("s%d", (i/c.Many[1])%c.Many[2]), "v": float64(i)}
		}
		return map[string]any{"t": rows}
	}
	if c.Mixed == nil {
		return val.CopyMap(c.Doc)
	}
	rows := make([]any, len(c.Mixed))
	for i, tok := range c.Mixed {
		rows[i] = map[string]any{"g": c12MixedValue(tok), "v": float64(i + 1)}
	}
	t2 := []any{}
	for i, tok := range c.Mixed {
		if i%2 == 0 {
			t2 = append(t2, map[string]any{"g": c12MixedValue(tok), "w": float64(10 * (i + 1))})
		}
	}
	return map[string]any{"t": rows, "t2": t2}
}

// expression forms; {c:NAME} is replaced by the (possibly prefixed) column reference
type c12Form struct {
	name string
	sql  string
	kind string // num | str | bool | any | omit (adds no column) | agg
}

func c12Forms(sc *c07Schema) []c12Form {
	k, s, v, items, p := sc.k, sc.s, sc.v, sc.items, sc.p
	r := func(x string) string { return "{c:" + x + "}" }
	return []c12Form{
		{"column", r(k), "num"},
		{"string-column", r(s), "str"},
		{"array-column", r(items), "any"},
		{"missing-column", r("nokey"), "any"},
		{"number-literal", "5", "num"},
		{"negative-literal", "(-2.5)", "num"},
		{"string-literal", "'lit'", "str"},
		{"boolean-literal", "TRUE", "bool"},
		{"null-literal", "NULL", "any"},
		{"arithmetic", "(" + r(k) + " + " + r(v) + " * 2)", "num"},
		{"division", "(" + r(v) + " / 4)", "num"},
		{"bitwise", "(" + r(k) + " | 4)", "num"},
		{"unary-minus", "(- " + r(v) + ")", "num"},
		{"comparison", "(" + r(k) + " > 1)", "bool"},
		{"string-comparison", "(" + r(s) + " != 'a')", "bool"},
		{"in-list", "(" + r(k) + " IN (1, 3))", "bool"},
		{"between", "(" + r(v) + " BETWEEN 0 AND 2)", "bool"},
		{"like", "(" + r(s) + " LIKE 'a%')", "bool"},
		{"is-null", "(" + r("nokey") + " IS NULL)", "bool"},
		{"not", "(NOT (" + r(k) + " = 2))", "bool"},
		{"and-or", "((" + r(k) + " > 1 AND " + r(v) + " < 3) OR " + r(s) + " = 'b')", "bool"},
		{"case", "CASE WHEN " + r(k) + " > 1 THEN " + r(s) + " ELSE 'small' END", "str"},
		{"case-no-else", "CASE WHEN " + r(k) + " > 2 THEN " + r(v) + " END", "any"},
		{"builtin-function", "CONCAT(" + r(s) + ", '-', " + r(s) + ")", "str"},
		{"builtin-if", "IF(" + r(k) + " > 1, " + r(v) + ", NULL)", "any"},
		{"builtin-array", "ARRAY(" + r(k) + ", " + r(s) + ", ARRAY(1))", "any"},
		{"builtin-first", "FIRST(" + r(items) + ")", "any"},
		{"builtin-changetype", "CHANGETYPE(" + r(k) + ", 'string')", "str"},
		{"builtin-hash", "HASH(" + r(s) + ", 'md5')", "str"},
		{"builtin-lower", "TO_LOWER(" + r(s) + ")", "str"},
		{"builtin-upper-null", "TO_UPPER(" + r("nokey") + ")", "any"},
		{"builtin-lower-null", "TO_LOWER(NULL)", "any"},
		{"builtin-encode", "DECODE(ENCODE(" + r(s) + ", 'base64'), 'base64')", "str"},
		{"builtin-encode-null", "ENCODE(" + r("nokey") + ", 'hex')", "any"},
		{"builtin-hash-null", "HASH(" + r("nokey") + ", 'sha1')", "any"},
		{"builtin-first-null", "FIRST(" + r("nokey") + ")", "any"},
		{"builtin-hash-object", "HASH(FIRST(" + r(items) + "), 'sha256')", "any"},
		{"builtin-encode-object", "ENCODE(ARRAY(LAST(" + r(items) + "), " + r(k) + "), 'hex')", "any"},
		{"builtin-hash-array", "HASH(" + r(items) + ", 'md5')", "any"},
		{"builtin-concat-object", "CONCAT(FIRST(" + r(items) + "), '|', " + r(items) + ")", "any"},
		{"builtin-changetype-object", "CHANGETYPE(FIRST(" + r(items) + "), 'string')", "any"},
		{"builtin-last", "LAST(" + r(items) + ")", "any"},
		{"builtin-elementat", "ELEMENTAT(" + r(items) + ", 0)", "any"},
		{"builtin-unwind", "UNWIND(ARRAY(" + r(items) + ", ARRAY(" + r(k) + ")))", "any"},
		{"builtin-daterange", "DATERANGE('2020-01-01', '2020-01-03')", "any"},
		{"builtin-changetype-null", "CHANGETYPE(" + r("nokey") + ", 'string')", "any"},
		{"builtin-array-null", "ARRAY(NULL, " + r("nokey") + ", " + r(items) + ")", "any"},
		{"builtin-if-null", "IF(" + r("nokey") + " IS NULL, NULL, 1)", "any"},
		// bracket selectors over the per-row array (0-3 elements, so the same selector meets arrays of different lengths)
		{"selector-range-to-end", r("`" + items + "[(0:end)]`"), "any"},
		{"selector-range-from-1", r("`" + items + "[(1:end)]`"), "any"},
		{"selector-range-begin", r("`" + items + "[(begin:1)]`"), "any"},
		{"selector-range-fixed", r("`" + items + "[(0:2)]`"), "any"},
		{"selector-each-key", r("`" + items + "[each]." + p + "`"), "any"},
		{"selector-continued", r("`" + items + "::" + p + "`"), "any"},
		{"user-function", "vf_id(" + r(v) + ")", "num"},
		{"nested-function", "vf_mul(vf_id(" + r(k) + "), 3)", "num"},
		{"subquery", "(SELECT " + p + " FROM " + r(items) + ")", "any"},
		{"subquery-dual-star", "(SELECT * FROM dual)", "any"},
		{"subquery-dual-star-item", "(SELECT *, 1 AS one FROM dual)", "any"},
		{"subquery-dual-cmp-star", "(SELECT " + r(k) + " = 1 AS f, * FROM dual)", "any"},
		{"subquery-dual-nested", "(SELECT (SELECT * FROM dual) AS inner1, 2 AS two FROM dual)", "any"},
		{"subquery-derived-dual-star", "(SELECT * FROM (SELECT * FROM dual) x)", "any"},
		{"subquery-derived-dual-alias", "(SELECT x FROM (SELECT * FROM dual) x)", "any"},
		{"subquery-derived-dual-star-item", "(SELECT x, 1 AS one FROM (SELECT *, 2 AS two FROM dual) x)", "any"},
		{"subquery-join-dual-star", "(SELECT * FROM (SELECT * FROM dual) x JOIN (SELECT * FROM dual) y ON 1 = 1)", "any"},
		{"subquery-where", "(SELECT " + p + " AS pv FROM " + r(items) + " WHERE " + p + " > 1)", "any"},
		{"async-call", "ASYNC.vf_id(" + r(v) + ")", "num"},
		{"once-call", "ONCE.vf_id(7)", "num"},
		{"setvar", "SETVAR('reg', " + r(k) + ")", "omit"},
		{"getvar", "GETVAR('reg')", "any"},
		{"spin-call", "SPIN.vf_id(" + r(k) + ")", "omit"},
		{"spinasync-call", "SPINASYNC.vf_id(" + r(k) + ")", "omit"},
		{"fuse", "FUSE(FIRST(" + r(items) + "))", "omit"},
		{"constant", "CONSTANT('pi')", "num"},
	}
}

var c12Positions = []string{"select-item", "select-item-unaliased", "function-argument", "array-element", "case-in-array-element", "case-in-function-argument", "case-branch", "case-else", "case-condition", "in-list", "where",
	"subquery-select-list", "grouped-select-list", "having", "joined-select-list", "cte-select-list", "derived-select-list", "order-by-key", "distinct-item", "union-branch", "star-plus-item", "nested-from-select-item", "distinct-order-tie", "distinct-order-hidden"}

func c12Col(form string, prefix string) string {
	out := form
	for {
		i := strings.Index(out, "{c:")
		if i < 0 {
			return out
		}
		j := strings.Index(out[i:], "}")
		out = out[:i] + prefix + out[i+3:i+j] + out[i+j+1:]
	}
}

func genC12(t *rapid.T) any {
	if rapid.IntRange(0, 1<<20).Draw(t, "many")%40 == 39 {
		// determinism does not depend on the number of groups / distinct rows: several hundred to a thousand distinct
		// two-column keys, every one met again later in the table
		c := &C12Case{Form: "many-groups", Unordered: true, Repeats: 4}
		a := rapid.SampledFrom([]int{7, 23, 32, 33, 64}).Draw(t, "many.a")
		b := rapid.SampledFrom([]int{5, 9, 16, 17, 31}).Draw(t, "many.b")
		c.Many = []int{a*b + rapid.IntRange(1, 400).Draw(t, "many.extra"), a, b}
		c.Position = rapid.SampledFrom([]string{"group-by", "group-by-having", "distinct", "union"}).Draw(t, "many.pos")
		c.SQL = map[string]string{
			"group-by":        "SELECT g1, g2, COUNT(*) AS n, MAX(v) AS mv FROM t GROUP BY g1, g2",
			"group-by-having": "SELECT g2, g1, SUM(v) AS sv FROM t GROUP BY g2, g1 HAVING COUNT(*) > 1",
			"distinct":        "SELECT DISTINCT g1, g2 FROM t",
			"union":           "SELECT g1, g2 FROM t UNION SELECT g1, g2 FROM t",
		}[c.Position]
		return c
	}
	if rapid.IntRange(0, 9).Draw(t, "mixed") == 0 {
		// determinism does not depend on the column holding one kind of value: grouping, de-duplication, IN and
		// joins over values of mixed kinds and Go types must give the same answer on every run
		c := &C12Case{Form: "mixed-kinds", Unordered: true}
		n := rapid.IntRange(2, 7).Draw(t, "mixed.n")
		for i := 0; i < n; i++ {
			c.Mixed = append(c.Mixed, rapid.SampledFrom(c12MixedPool).Draw(t, fmt.Sprintf("mixed.%d", i)))
		}
		c.Position = rapid.SampledFrom([]string{"group-by", "group-by-star", "distinct", "in-subquery", "join", "hash-join", "union", "where-equals"}).Draw(t, "mixed.pos")
		c.SQL = map[string]string{
			"group-by":      "SELECT g, COUNT(*) AS n, SUM(v) AS sv FROM t GROUP BY g",
			"group-by-star": "SELECT COUNT(*) AS n, * FROM t GROUP BY g",
			"distinct":      "SELECT DISTINCT g FROM t",
			"in-subquery":   "SELECT v FROM t WHERE g IN (SELECT g FROM `<-t2`)",
			"join":          "SELECT x.v, y.w FROM t x JOIN t2 y ON x.g = y.g",
			"hash-join":     "SELECT x.v, y.w FROM t x LEFT HASH_JOIN t2 y ON x.g = y.g",
			"union":         "SELECT g FROM t UNION SELECT g FROM t2",
			"where-equals":  "SELECT a.v, (SELECT w FROM `<-t2` WHERE g = `<-.g`) AS ws FROM t a",
		}[c.Position]
		return c12WithBetween(t, c)
	}
	if rapid.IntRange(0, 11).Draw(t, "orderedwindow") == 0 {
		// a source whose row order is open (joins, grouping) under a total ORDER BY and a LIMIT / OFFSET window with
		// ties on the leading key across the window's ends: the same rows in the same order on every run
		n := rapid.IntRange(6, 40).Draw(t, "ow.n")
		var rows, rows2 []any
		ng := rapid.IntRange(1, 3).Draw(t, "ow.groups")
		for i := 0; i < n; i++ {
			rows = append(rows, map[string]any{"id": float64(i), "g": float64(rapid.IntRange(0, ng-1).Draw(t, fmt.Sprintf("ow.g%d", i)))})
			rows2 = append(rows2, map[string]any{"id": float64(i), "n": float64((i*7 + 3) % n * 2)})
		}
		if n%7 == 0 {
			// (i*7+3) mod n is not a permutation then: fall back to distinct values in source order
			for i := range rows2 {
				rows2[i].(map[string]any)["n"] = float64(n - i)
			}
		}
		lim := rapid.IntRange(1, n-1).Draw(t, "ow.limit")
		off := 0
		if rapid.Bool().Draw(t, "ow.hasoffset") {
			off = rapid.IntRange(1, n-lim).Draw(t, "ow.offset")
		}
		win := fmt.Sprintf(" LIMIT %d", lim)
		if off > 0 {
			win += fmt.Sprintf(" OFFSET %d", off)
		}
		dir := rapid.SampledFrom([]string{"", " DESC"}).Draw(t, "ow.dir")
		pos := rapid.SampledFrom([]string{"join", "hash-join", "left-join", "parallel-join", "group-by", "join-three-keys"}).Draw(t, "ow.pos")
		sql := map[string]string{
			"join":            "SELECT x.g AS g, y.n AS n FROM t x JOIN t2 y ON x.id = y.id ORDER BY g" + dir + ", n",
			"hash-join":       "SELECT x.g AS g, y.n AS n FROM t x HASH_JOIN t2 y ON x.id = y.id ORDER BY g" + dir + ", n DESC",
			"left-join":       "SELECT x.g AS g, y.n AS n FROM t x LEFT JOIN t2 y ON x.id = y.id ORDER BY g" + dir + ", n",
			"parallel-join":   "SELECT x.g AS g, y.n AS n FROM t x PARALLEL JOIN t2 y ON x.id = y.id ORDER BY g" + dir + ", n",
			"group-by":        "SELECT g, id, COUNT(*) AS c FROM t GROUP BY g, id ORDER BY g" + dir + ", id DESC",
			"join-three-keys": "SELECT x.g AS g, x.g AS h, y.n AS n FROM t x JOIN t2 y ON x.id = y.id ORDER BY g" + dir + ", h, n",
		}[pos] + win
		return c12WithBetween(t, &C12Case{Doc: map[string]any{"t": rows, "t2": rows2}, SQL: sql, Form: "ordered-window", Position: pos, Repeats: 8})
	}
	if rapid.IntRange(0, 3).Draw(t, "wide") == 0 {
		w := genWide(t, nil)
		return c12WithBetween(t, &C12Case{Doc: w.Doc, SQL: w.SQL(-1, ""), Wrapped: w.Wrapped, Unordered: w.Unordered, Form: "wide", Position: w.Construct})
	}
	doc, sc := genC07Doc(t)
	forms := c12Forms(sc)
	f := forms[rapid.IntRange(0, len(forms)-1).Draw(t, "form")]
	pos := rapid.SampledFrom(c12Positions).Draw(t, "position")
	where := ""
	if rapid.Bool().Draw(t, "where") {
		where = fmt.Sprintf(" WHERE %s %s %s", sc.v, rapid.SampledFrom([]string{">", "<", "!="}).Draw(t, "wop"), rapid.SampledFrom([]string{"0", "1", "2.5"}).Draw(t, "wc"))
	}
	join := rapid.SampledFrom([]string{"JOIN", "LEFT JOIN", "HASH_JOIN", "PARALLEL JOIN"}).Draw(t, "join")
	return c12WithBetween(t, c12Render(doc, sc, f, pos, where, join))
}

var c12AsyncDirect = map[string]bool{"select-item": true, "select-item-unaliased": true, "star-plus-item": true, "joined-select-list": true, "cte-select-list": true,
	"derived-select-list": true, "subquery-select-list": true, "union-branch": true, "distinct-item": true, "order-by-key": true, "nested-from-select-item": true, "distinct-order-tie": true, "distinct-order-hidden": true}

func c12Render(doc map[string]any, sc *c07Schema, f c12Form, pos string, where string, join string) *C12Case {
	if f.name == "async-call" && !c12AsyncDirect[pos] {
		// the statement covers ASYNC calls used directly as select-list items only
		pos = "select-item"
	}
	c := &C12Case{Doc: doc, Form: f.name, Position: pos}
	k, s, v, items, p, c2 := sc.k, sc.s, sc.v, sc.items, sc.p, sc.t2c
	e := c12Col(f.sql, "")
	switch pos {
	case "select-item":
		c.SQL = fmt.Sprintf("SELECT %s, %s AS e FROM t%s", k, e, where)
	case "select-item-unaliased":
		c.SQL = fmt.Sprintf("SELECT %s FROM t%s", e, where)
	case "function-argument":
		c.SQL = fmt.Sprintf("SELECT %s, vf_id(%s) AS e FROM t%s", k, e, where)
	case "array-element":
		c.SQL = fmt.Sprintf("SELECT ARRAY(%s, %s) AS e FROM t%s", k, e, where)
	case "case-in-array-element":
		c.SQL = fmt.Sprintf("SELECT ARRAY(%s, CASE WHEN %s > 1 THEN %s ELSE %s END) AS e FROM t%s", k, k, e, s, where)
	case "case-in-function-argument":
		c.SQL = fmt.Sprintf("SELECT %s, CONCAT(%s, CASE WHEN %s > 1 THEN %s ELSE 'small' END) AS e FROM t%s", k, s, k, e, where)
	case "case-branch":
		c.SQL = fmt.Sprintf("SELECT %s, CASE WHEN %s > 1 THEN %s ELSE NULL END AS e FROM t%s", k, k, e, where)
	case "case-else":
		c.SQL = fmt.Sprintf("SELECT %s, CASE WHEN %s > 1 THEN 'big' ELSE %s END AS e FROM t%s", k, k, e, where)
	case "case-condition":
		c.SQL = fmt.Sprintf("SELECT %s, CASE WHEN %s THEN 'yes' ELSE 'no' END AS e FROM t%s", k, e, where)
	case "in-list":
		c.SQL = fmt.Sprintf("SELECT %s, (%s IN (1, %s)) AS e FROM t%s", k, k, e, where)
	case "where":
		c.SQL = fmt.Sprintf("SELECT %s, %s FROM t WHERE %s", k, s, e)
	case "subquery-select-list":
		inner := c12Col(strings.ReplaceAll(strings.ReplaceAll(f.sql, "{c:"+k+"}", "{c:"+p+"}"), "{c:"+v+"}", "{c:"+p+"}"), "")
		c.SQL = fmt.Sprintf("SELECT %s, (SELECT %s AS e FROM %s) AS sb FROM t%s", k, inner, items, where)
	case "grouped-select-list":
		g := strings.ReplaceAll(f.sql, "{c:"+v+"}", "SUM({c:"+v+"})")
		g = strings.ReplaceAll(g, "{c:"+s+"}", "{c:"+k+"}")
		c.SQL = fmt.Sprintf("SELECT %s, COUNT(*) AS n, %s AS e FROM t%s GROUP BY %s", k, c12Col(g, ""), where, k)
		c.Unordered = true
	case "having":
		c.SQL = fmt.Sprintf("SELECT %s, COUNT(*) AS n FROM t%s GROUP BY %s HAVING %s", k, where, k, e)
		c.Unordered = true
	case "joined-select-list":
		c.SQL = fmt.Sprintf("SELECT x.%s, y.%s, %s AS e FROM t x %s t2 y ON x.%s = y.%s", k, c2, c12Col(f.sql, "x."), join, k, c2)
		c.Unordered = true
	case "cte-select-list":
		c.SQL = fmt.Sprintf("WITH c AS (SELECT %s, %s AS e FROM t%s) SELECT * FROM c", k, e, where)
	case "derived-select-list":
		c.SQL = fmt.Sprintf("SELECT x.%s, x.e FROM (SELECT %s, %s AS e FROM t%s) x", k, k, e, where)
	case "order-by-key":
		c.SQL = fmt.Sprintf("SELECT %s, %s, %s, %s AS e FROM t%s ORDER BY e, %s, %s, %s", k, s, v, e, where, k, s, v)
	case "distinct-item":
		c.SQL = fmt.Sprintf("SELECT DISTINCT %s, %s AS e FROM t%s", k, e, where)
	case "distinct-order-tie":
		// no join, no grouping: the sequence is the same on every evaluation, also where ORDER BY leaves ties
		c.SQL = fmt.Sprintf("SELECT DISTINCT %s, %s AS e FROM t%s ORDER BY %s", s, e, where, s)
	case "distinct-order-hidden":
		c.SQL = fmt.Sprintf("SELECT DISTINCT %s, %s AS e FROM t%s ORDER BY %s", s, e, where, k)
	case "union-branch":
		c.SQL = fmt.Sprintf("SELECT %s AS e FROM t%s UNION ALL SELECT %s AS e FROM t", k, where, e)
	case "star-plus-item":
		c.SQL = fmt.Sprintf("SELECT *, %s AS e FROM t%s", e, where)
	case "nested-from-select-item":
		// nn holds the rows of t split into two inner arrays (multi-dimensional FROM)
		rows, _ := doc["t"].([]any)
		d2 := val.CopyMap(doc)
		d2["nn"] = []any{val.Copy(rows[:len(rows)/2]), val.Copy(rows[len(rows)/2:])}
		c.Doc = d2
		c.SQL = fmt.Sprintf("SELECT %s, %s AS e FROM nn%s", k, e, where)
	}
	return c
}

// c12Grid (runs once per check, before the random search): every expression form in every position
// on two fixed documents, so that the (form, position) table is covered completely on every run.
func c12Grid(st *Stats) (string, any) {
	sc := &c07Schema{k: "kk", s: "ss", v: "vv", items: "it", p: "pp", q: "qq", t2c: "cc"}
	docs := []map[string]any{
		{"t": []any{
			map[string]any{"kk": 1.0, "ss": "a", "vv": 0.5, "it": []any{map[string]any{"pp": 1.0, "qq": "a"}, map[string]any{"pp": 3.0, "qq": "b"}}},
			map[string]any{"kk": 2.0, "ss": "b", "vv": 2.5, "it": []any{}},
			map[string]any{"kk": 3.0, "ss": "ab", "vv": 4.0, "it": []any{map[string]any{"pp": 2.0, "qq": "ab"}}},
			map[string]any{"kk": 2.0, "ss": "a", "vv": -1.0, "it": []any{map[string]any{"pp": 5.0, "qq": "a"}, map[string]any{"pp": 5.0, "qq": "a"}}},
		}, "t2": []any{map[string]any{"cc": 2.0}, map[string]any{"cc": 3.0}, map[string]any{"cc": 2.0}}},
		{"t": []any{map[string]any{"kk": 3.0, "ss": "b", "vv": 1.0, "it": []any{map[string]any{"pp": 2.0, "qq": "z"}}}}, "t2": []any{}},
	}
	n, ok := 0, 0
	for _, doc := range docs {
		for _, f := range c12Forms(sc) {
			for _, pos := range c12Positions {
				for _, where := range []string{"", " WHERE vv > 0"} {
					c := c12Render(doc, sc, f, pos, where, "JOIN")
					r := checkC12(c)
					n++
					if r.Violation != "" {
						return "form x position grid: " + r.Violation, c
					}
					for _, l := range r.Labels {
						if strings.HasSuffix(l, ":ok") {
							ok++
						}
					}
				}
			}
		}
	}
	st.mu.Lock()
	st.Extra["grid_queries"] = float64(n)
	st.Extra["grid_queries_accepted_by_the_engine"] = float64(ok)
	st.Extra["grid_forms"] = float64(len(c12Forms(sc)))
	st.Extra["grid_positions"] = float64(len(c12Positions))
	st.mu.Unlock()
	return "", nil
}

func checkC12(c *C12Case) Result {
	res := Result{}
	opts := Opts{Wrapped: c.Wrapped}
	run := func() Out {
		injReset(0, 0)
		return Run(c.doc(), c.SQL, opts, genql.WithVars(map[string]any{"reg": 1.0}), genql.WithConstants(map[string]any{"pi": 3.14}), genql.UnReportedErrors(func(error) {}))
	}
	var twin Out
	if c.Between != nil {
		twin = Run(val.CopyMap(c.Between.Sound), c.Between.SQL, Opts{})
		res.Execs++
	}
	first := run()
	res.Execs++
	outcome := "ok"
	if first.Panic != "" {
		outcome = "panic"
	} else if first.Err != "" {
		outcome = "error"
	}
	res.Labels = append(res.Labels, "form:"+c.Form, "position:"+c.Position, c.Form+"@"+c.Position+":"+outcome)
	if c.Between != nil {
		res.Labels = append(res.Labels, "between:"+c.Between.Fault)
	}
	if !first.OK() {
		// rejected combinations are outside "a successful result"; panics belong to C10
		return c12Settle(c, twin, res)
	}
	res.NonTrivial = len(first.Raw) > 0 && c.Form != "column" && c.Form != "string-column"
	if d := val.PlainWalk(first.Raw); d != "" {
		res.Violation = fmt.Sprintf("%s\n  result is not plain data: %s\n  result (normalised) %s", c.SQL, d, val.JSON(first.Rows))
		return res
	}
	if _, err := json.Marshal(first.Raw); err != nil {
		res.Violation = fmt.Sprintf("%s\n  result cannot be marshalled to JSON: %v", c.SQL, err)
		return res
	}
	repeats := 2
	if c.Repeats > 0 {
		repeats = c.Repeats
	}
	if c.Mixed != nil {
		repeats = 24 // choices that depend on the iteration order of a Go map show up in a fraction of the runs only
	}
	for i := 0; i < repeats; i++ {
		if c.Between != nil {
			// not judged: only what the judged query returns afterwards counts
			Run(val.CopyMap(c.Between.Doc), c.Between.SQL, Opts{})
			res.Execs++
		}
		again := run()
		res.Execs++
		if !again.OK() {
			res.Violation = fmt.Sprintf("%s\n  first execution succeeded with %s\n  execution %d on an equal input: %s", c.SQL, val.JSON(first.Rows), i+2, again.Describe())
			return res
		}
		same := false
		if c.Unordered {
			same = val.MultisetEqual(first.Rows, again.Rows)
		} else {
			same = seqEqual(first.Rows, again.Rows)
		}
		if !same {
			res.Violation = fmt.Sprintf("%s\n  execution 1: %s\n  execution %d on an equal input: %s", c.SQL, val.JSON(first.Rows), i+2, val.JSON(again.Rows))
			if c.Between != nil {
				res.Violation += fmt.Sprintf("\n  evaluated in between (not judged, fault %s): %s on %s", c.Between.Fault, c.Between.SQL, val.JSON(c.Between.Doc))
			}
			return res
		}
	}
	return c12Settle(c, twin, res)
}

// c12Settle ends a case that has an evaluation in between: that evaluation once more (a case whose judged query failed
// has not run it yet), then its text on the undamaged document, which must return what it returned before the first execution.
func c12Settle(c *C12Case, twin Out, res Result) Result {
	if c.Between == nil {
		return res
	}
	Run(val.CopyMap(c.Between.Doc), c.Between.SQL, Opts{})
	after := Run(val.CopyMap(c.Between.Sound), c.Between.SQL, Opts{})
	res.Execs += 2
	if !twin.OK() {
		return res
	}
	if !after.OK() || !val.MultisetEqual(twin.Rows, after.Rows) {
		res.Violation = fmt.Sprintf("%s\n  on %s\n  execution 1: %s\n  execution 2 on an equal input: %s\n  evaluated in between (not judged, fault %s): the same text on %s, and %s",
			c.Between.SQL, val.JSON(c.Between.Sound), val.JSON(twin.Rows), after.Describe(), c.Between.Fault, val.JSON(c.Between.Doc), c.SQL)
	}
	return res
}

func init() {
	Register(&Prop{
		ID:    "C12",
		Title: "Results are plain self-contained data and evaluation is deterministic",
		Rule: "[Dimensions added in rounds p-r of the seeded-defect evaluation: form many-groups (36-2000 distinct two-column keys built at check time under GROUP BY / HAVING / DISTINCT / UNION, 4 re-executions); scalar sub queries over aliased derived tables selecting * from dual.] " +
			"(1/12 of the cases: form ordered-window - joins of 6-40 rows per side and groupings, whose row order is open, under a total multi-key ORDER BY with a LIMIT / OFFSET window and ties on the leading key, re-executed 8 times and compared as sequences.) rapid draws a document and (2/3) one of 70 expression forms (columns, bracket and continued selectors over per-row arrays of different lengths, literals of every kind, arithmetic, unary, comparisons, IN, BETWEEN, LIKE, " +
			"IS, NOT, AND/OR, CASE with and without ELSE, built-in and user function calls, nested calls, subqueries, ASYNC / ONCE / SPIN / SPINASYNC " +
			"calls, SETVAR/GETVAR, FUSE, CONSTANT, 14 built-ins with NULL / missing arguments) placed in one of 24 positions (select item aliased/unaliased, function argument, array element, " +
			"CASE branch/else/condition, IN list, WHERE, subquery select list, grouped select list, HAVING, joined select list, CTE and derived-table " +
			"select lists, ORDER BY key, DISTINCT item, UNION branch, star plus item, select item of a multi-dimensional FROM) or (1/4) one of the 47 wide constructs, or (1/10) the form mixed-kinds: GROUP BY / DISTINCT / IN-subquery / JOIN / HASH_JOIN / UNION / correlated equality over a column whose values mix kinds and Go types (text vs number, int vs float64 vs float32, -0, 1e6), re-executed 24 times. Oracle on every " +
			"successful result: reflective walk (only maps with string keys, slices, strings, Go numeric kinds, bools, nil; no type declared by " +
			"the library, no pointer/func/struct, no key `<-`, no cycle, finite numbers), json.Marshal succeeds, and two re-executions on fresh equal " +
			"inputs return the identical sequence (multiset when GROUP BY / joins / UNION leave the order open). Non-trivial: >=1 output row and a " +
			"form other than a plain column. Combinations the engine rejects with an error are counted under their own label. History: 1 of 2 queries with a join and 1 of 10 others get an unjudged evaluation of its own " +
			"between the first execution and every re-execution, in the same process: a sibling join (JOIN / LEFT / RIGHT / HASH_JOIN) over 1-3 equi conjuncts on plain, `m.n` and `a[1]` key columns of 1-4 row tables, in 3 of 4 with one key column of one row unreadable " +
			"(scalar under the path, array too short; first or later key, any row, either table) so that it fails midway; whatever it does, the re-execution must return what the first execution returned, and so must the text of that join on its undamaged document, evaluated before the first execution and again after the last.",
		Assumptions: []string{
			"TIMESTAMP() and stateful user functions are excluded from the determinism half; no zero divisors",
			"ASYNC calls are direct operands of the position (the statement covers ASYNC used directly as a select-list item; other positions are checked only when the engine accepts them)",
		},
		Gen:      genC12,
		New:      func() any { return &C12Case{} },
		Check:    func(c any) Result { return checkC12(c.(*C12Case)) },
		Extra:    c12Grid,
		Quick:    4000,
		Thorough: 200000,
	})
}

package checks

import (
	"fmt"
	"math"
	"math/big"
	"strconv"
	"strings"

	"github.com/vedadiyan/genql/compare"
	"pgregory.net/rapid"
	"verifharness/sq"
)

// C15 - value comparison is a coherent order across all numeric types and strings.

// TV is a typed value: T names a Go type, V is the decimal text of the value.
type TV struct {
	T string `json:"t"`
	V string `json:"v"`
}

type C15Case struct {
	Vals []TV `json:"vals"` // 2 (pair laws) or 3 (transitivity as well)
	// Join: the first two values also meet as keys of one-row tables in an equi join, in both plans: the rows
	// pair exactly when the two values are equal in the stated order ("the comparison used by ... joins")
	Join bool `json:"join,omitempty"`
	// Order: "" = no sort route; "k" = "ORDER BY k" (ascending by default), "ASC", "DESC": the first two values are the
	// key column of a TWO-row table (both input orders) and ORDER BY k must put them in the stated order ("the
	// comparison used by ... ORDER BY"); values of one kind (all of Vals, then More) also form one n-row table,
	// whose output must be sorted, as the order is transitive within a kind
	Order string `json:"order,omitempty"`
	More  []TV   `json:"more,omitempty"` // further key values of the kind of Vals, for the n-row table only
}

// wide 64-bit integers: exact as integers, not as float64 - compared with integers and strings only
var c15WideInts = map[string][]string{
	"int64":  {"9223372036854775807", "9223372036854775806", "-9223372036854775808", "-9223372036854775807", "9007199254740993", "-9007199254740993", "4611686018427387904"},
	"int":    {"9223372036854775807", "-9223372036854775808", "9007199254740993", "-9007199254740993"},
	"uint64": {"18446744073709551615", "18446744073709551614", "9223372036854775808", "9223372036854775807", "9223372036854775809", "9007199254740993", "13835058055282163712"},
	"uint":   {"18446744073709551615", "9223372036854775808", "9223372036854775807", "9007199254740993"},
}

func c15Wide(v any) bool {
	r := c15Rat(v)
	if r == nil || !r.IsInt() {
		return false
	}
	lim := new(big.Int).Lsh(big.NewInt(1), 53)
	return new(big.Int).Abs(r.Num()).Cmp(lim) > 0
}

func c15IsFloat(v any) bool {
	switch v.(type) {
	case float32, float64:
		return true
	}
	return false
}

var c15Types = []string{"int", "int8", "int16", "int32", "int64", "uint", "uint8", "uint16", "uint32", "uint64", "float32", "float64"}

const two53 = 1 << 53

type typeRange struct {
	lo, hi *big.Int
}

func c15Range(t string) (lo, hi int64, unsignedHi uint64) {
	switch t {
	case "int8":
		return math.MinInt8, math.MaxInt8, 0
	case "int16":
		return math.MinInt16, math.MaxInt16, 0
	case "int32":
		return math.MinInt32, math.MaxInt32, 0
	case "int", "int64":
		return -two53, two53, 0
	case "uint8":
		return 0, math.MaxUint8, 0
	case "uint16":
		return 0, math.MaxUint16, 0
	case "uint32":
		return 0, math.MaxUint32, 0
	case "uint", "uint64":
		return 0, two53, 0
	}
	return -two53, two53, 0
}

// goValue builds the Go value described by tv. ok=false when the text does not fit the type.
func (tv TV) goValue() (any, bool) {
	switch tv.T {
	case "string":
		return tv.V, true
	case "float64":
		f, err := strconv.ParseFloat(tv.V, 64)
		return f, err == nil
	case "float32":
		f, err := strconv.ParseFloat(tv.V, 32)
		return float32(f), err == nil
	}
	if strings.HasPrefix(tv.T, "uint") {
		u, err := strconv.ParseUint(tv.V, 10, 64)
		if err != nil {
			return nil, false
		}
		switch tv.T {
		case "uint":
			return uint(u), true
		case "uint8":
			return uint8(u), u <= math.MaxUint8
		case "uint16":
			return uint16(u), u <= math.MaxUint16
		case "uint32":
			return uint32(u), u <= math.MaxUint32
		case "uint64":
			return u, true
		}
		return nil, false
	}
	i, err := strconv.ParseInt(tv.V, 10, 64)
	if err != nil {
		return nil, false
	}
	switch tv.T {
	case "int":
		return int(i), true
	case "int8":
		return int8(i), i >= math.MinInt8 && i <= math.MaxInt8
	case "int16":
		return int16(i), i >= math.MinInt16 && i <= math.MaxInt16
	case "int32":
		return int32(i), i >= math.MinInt32 && i <= math.MaxInt32
	case "int64":
		return i, true
	}
	return nil, false
}

// exact returns the mathematical value of a numeric Go value.
func c15Rat(v any) *big.Rat {
	r := new(big.Rat)
	switch t := v.(type) {
	case int:
		return r.SetInt64(int64(t))
	case int8:
		return r.SetInt64(int64(t))
	case int16:
		return r.SetInt64(int64(t))
	case int32:
		return r.SetInt64(int64(t))
	case int64:
		return r.SetInt64(t)
	case uint:
		return r.SetInt(new(big.Int).SetUint64(uint64(t)))
	case uint8:
		return r.SetInt64(int64(t))
	case uint16:
		return r.SetInt64(int64(t))
	case uint32:
		return r.SetInt64(int64(t))
	case uint64:
		return r.SetInt(new(big.Int).SetUint64(t))
	case float32:
		r.SetFloat64(float64(t))
		return r
	case float64:
		r.SetFloat64(t)
		return r
	}
	return nil
}

// decimal text of a numeric value (no exponent), as the statement's "the number's decimal text".
func c15Text(v any) string {
	switch t := v.(type) {
	case float32:
		return strconv.FormatFloat(float64(t), 'f', -1, 32)
	case float64:
		return strconv.FormatFloat(t, 'f', -1, 64)
	}
	return c15Rat(v).RatString()
}

func c15Expected(a, b any) int {
	sa, aStr := a.(string)
	sb, bStr := b.(string)
	switch {
	case aStr && bStr:
		return strings.Compare(sa, sb)
	case aStr:
		return strings.Compare(sa, c15Text(b))
	case bStr:
		return strings.Compare(c15Text(a), sb)
	}
	return c15Rat(a).Cmp(c15Rat(b))
}

// c15Specified: a float of magnitude >= 10^6 has more than one customary decimal text (Go's %v
// switches to exponent notation there); against a string the statement fixes no order for it, so
// only the algebraic laws are checked on such pairs.
func c15Specified(a, b any) bool {
	_, aStr := a.(string)
	_, bStr := b.(string)
	if (c15Wide(a) && c15IsFloat(b)) || (c15Wide(b) && c15IsFloat(a)) {
		return false // outside the exactly-representable range of the floating point operand
	}
	if aStr == bStr {
		return true
	}
	n := a
	if aStr {
		n = b
	}
	var f float64
	switch t := n.(type) {
	case float32:
		f = float64(t)
	case float64:
		f = t
	default:
		return true
	}
	return math.Abs(f) < 1e6
}

func c15Call(a, b any) (r int, panicked string) {
	defer func() {
		if x := recover(); x != nil {
			panicked = fmt.Sprint(x)
		}
	}()
	return compare.Compare(a, b), ""
}

func c15Desc(v any) string { return fmt.Sprintf("%T(%v)", v, v) }

// c15Pair checks range, oracle agreement, reflexivity and antisymmetry on one ordered pair.
func c15Pair(a, b any) string {
	ab, p := c15Call(a, b)
	if p != "" {
		return fmt.Sprintf("Compare(%s, %s) panicked: %s", c15Desc(a), c15Desc(b), p)
	}
	if ab != -1 && ab != 0 && ab != 1 {
		return fmt.Sprintf("Compare(%s, %s) = %d, not in {-1,0,1}", c15Desc(a), c15Desc(b), ab)
	}
	if want := c15Expected(a, b); c15Specified(a, b) && ab != want {
		return fmt.Sprintf("Compare(%s, %s) = %d, the order of the values says %d", c15Desc(a), c15Desc(b), ab, want)
	}
	ba, p := c15Call(b, a)
	if p != "" {
		return fmt.Sprintf("Compare(%s, %s) panicked: %s", c15Desc(b), c15Desc(a), p)
	}
	if ab != -ba {
		return fmt.Sprintf("antisymmetry: Compare(%s, %s) = %d but Compare(%s, %s) = %d", c15Desc(a), c15Desc(b), ab, c15Desc(b), c15Desc(a), ba)
	}
	if aa, _ := c15Call(a, a); aa != 0 {
		return fmt.Sprintf("reflexivity: Compare(%s, %s) = %d", c15Desc(a), c15Desc(a), aa)
	}
	return ""
}

func sameKind(a, b any) bool {
	_, x := a.(string)
	_, y := b.(string)
	return x == y
}

// c15Triple checks transitivity on an ordered triple of one kind (engine-only law, no reference).
func c15Triple(a, b, c any) string {
	ab, _ := c15Call(a, b)
	bc, _ := c15Call(b, c)
	ac, _ := c15Call(a, c)
	if ab <= 0 && bc <= 0 && ac > 0 {
		return fmt.Sprintf("transitivity: %s <= %s and %s <= %s but Compare(%s, %s) = %d", c15Desc(a), c15Desc(b), c15Desc(b), c15Desc(c), c15Desc(a), c15Desc(c), ac)
	}
	if ab == 0 && bc == 0 && ac != 0 {
		return fmt.Sprintf("transitivity of equality: %s == %s == %s but Compare(%s, %s) = %d", c15Desc(a), c15Desc(b), c15Desc(c), c15Desc(a), c15Desc(c), ac)
	}
	if ab < 0 && bc <= 0 && ac >= 0 || ab <= 0 && bc < 0 && ac >= 0 {
		return fmt.Sprintf("transitivity: %s < %s <= %s (or <=, <) but Compare(%s, %s) = %d", c15Desc(a), c15Desc(b), c15Desc(c), c15Desc(a), c15Desc(c), ac)
	}
	return ""
}

// the finite representative domain
func c15Domain() []TV {
	var out []TV
	ints := []string{"-9007199254740992", "-2147483648", "-32768", "-129", "-128", "-2", "-1", "0", "1", "2", "10", "127", "128", "255", "256", "32767", "32768", "65535", "65536", "2147483647", "2147483648", "4294967295", "4294967296", "9007199254740991", "9007199254740992"}
	for _, t := range c15Types {
		if strings.HasPrefix(t, "float") {
			continue
		}
		for _, v := range ints {
			tv := TV{t, v}
			if _, ok := tv.goValue(); ok {
				out = append(out, tv)
			}
		}
	}
	f64 := append([]string{"-1.5", "-0.5", "0.5", "1.5", "2.5", "0.25", "127.5", "255.5", "-128.5", "1000000000000000", "4294967295.5", "-0.75"}, ints...)
	for _, v := range f64 {
		out = append(out, TV{"float64", v})
	}
	// non-dyadic values: a float32 and its float64 widening are different numbers with different texts
	for _, v := range []string{"0.1", "0.10000000149011612", "-0", "1.1", "1.100000023841858", "33.3", "0.3"} {
		out = append(out, TV{"float64", v})
	}
	for _, v := range []string{"0.1", "1.1", "33.3", "-0.3", "-0"} {
		out = append(out, TV{"float32", v})
	}
	f32 := []string{"-16777216", "-129", "-128", "-1.5", "-1", "-0.5", "0", "0.25", "0.5", "1", "1.5", "2", "2.5", "10", "127", "127.5", "128", "255", "255.5", "256", "65535", "65536", "16777216"}
	for _, v := range f32 {
		out = append(out, TV{"float32", v})
	}
	for _, s := range []string{"", "0", "1", "1.5", "10", "2", "-1", "-1.5", "a", "A", "ab", "b", "1a", "255", "256", "0.5", "-", "é", "127", "0.1", "0.10000000149011612", "-0", "1.1", "33.3"} {
		out = append(out, TV{"string", s})
	}
	return out
}

func c15Exhaustive(st *Stats) (string, any) {
	dom := c15Domain()
	vals := make([]any, len(dom))
	for i, tv := range dom {
		v, ok := tv.goValue()
		if !ok {
			return "harness: domain value does not fit its type: " + tv.T + " " + tv.V, nil
		}
		vals[i] = v
	}
	pairs, cross, triples := 0, 0, 0
	for i, a := range vals {
		for j, b := range vals {
			pairs++
			if dom[i].T != dom[j].T {
				cross++
			}
			if v := c15Pair(a, b); v != "" {
				return v, &C15Case{Vals: []TV{dom[i], dom[j]}}
			}
		}
	}
	// all same-kind triples
	var nums, strs []int
	for i := range vals {
		if dom[i].T == "string" {
			strs = append(strs, i)
		} else {
			nums = append(nums, i)
		}
	}
	for _, set := range [][]int{nums, strs} {
		for _, i := range set {
			for _, j := range set {
				for _, k := range set {
					triples++
					if v := c15Triple(vals[i], vals[j], vals[k]); v != "" {
						return v, &C15Case{Vals: []TV{dom[i], dom[j], dom[k]}}
					}
				}
			}
		}
	}
	st.mu.Lock()
	st.Extra["exhaustive_domain_values"] = float64(len(dom))
	st.Extra["exhaustive_ordered_pairs"] = float64(pairs)
	st.Extra["exhaustive_cross_type_pairs"] = float64(cross)
	st.Extra["exhaustive_same_kind_triples"] = float64(triples)
	st.mu.Unlock()
	return "", nil
}

func genTV(t *rapid.T, label string) TV { return genTVIn(t, label, 0, 13) }

// genTVIn draws a typed value whose kind index lies in kindLo..kindHi: 0..11 = the numeric types of c15Types, 12..13 = string.
func genTVIn(t *rapid.T, label string, kindLo, kindHi int) TV {
	kind := rapid.IntRange(kindLo, kindHi).Draw(t, label+".kind")
	if kind >= 12 {
		alpha := []string{"0", "1", "2", "5", "9", ".", "-", "a", "A", "b", "e", "+", " "}
		n := rapid.IntRange(0, 5).Draw(t, label+".len")
		var sb strings.Builder
		for i := 0; i < n; i++ {
			sb.WriteString(rapid.SampledFrom(alpha).Draw(t, fmt.Sprintf("%s.c%d", label, i)))
		}
		return TV{"string", sb.String()}
	}
	ty := c15Types[kind]
	switch ty {
	case "float64":
		// k/8 with |k| < 2^43, or an integer up to 2^53
		if rapid.Bool().Draw(t, label+".frac") {
			k := rapid.Int64Range(-(1<<20), 1<<20).Draw(t, label+".k")
			return TV{ty, strconv.FormatFloat(float64(k)/8, 'f', -1, 64)}
		}
		return TV{ty, strconv.FormatInt(rapid.Int64Range(-two53, two53).Draw(t, label+".i"), 10)}
	case "float32":
		k := rapid.Int64Range(-(1<<12), 1<<12).Draw(t, label+".k")
		return TV{ty, strconv.FormatFloat(float64(k)/4, 'f', -1, 32)}
	}
	if w := c15WideInts[ty]; w != nil && rapid.IntRange(0, 7).Draw(t, label+".wide") == 0 {
		return TV{ty, rapid.SampledFrom(w).Draw(t, label+".widev")}
	}
	lo, hi, _ := c15Range(ty)
	// bias towards small magnitudes so that equal values of different types meet
	if rapid.IntRange(0, 2).Draw(t, label+".small") != 0 {
		if lo < -300 {
			lo = -300
		}
		if hi > 300 {
			hi = 300
		}
	}
	return TV{ty, strconv.FormatInt(rapid.Int64Range(lo, hi).Draw(t, label+".i"), 10)}
}

func genC15(t *rapid.T) any {
	c := &C15Case{}
	n := rapid.IntRange(2, 3).Draw(t, "n")
	for i := 0; i < n; i++ {
		c.Vals = append(c.Vals, genTV(t, fmt.Sprintf("v%d", i)))
	}
	// derived neighbours: make the second value close to the first one half of the time
	if rapid.Bool().Draw(t, "near") && c.Vals[0].T != "string" && c.Vals[1].T != "string" {
		a, _ := c.Vals[0].goValue()
		r := c15Rat(a)
		f, _ := r.Float64()
		d := float64(rapid.IntRange(-1, 1).Draw(t, "delta"))
		tv := TV{c.Vals[1].T, strconv.FormatFloat(math.Trunc(f)+d, 'f', -1, 64)}
		if _, ok := tv.goValue(); ok {
			c.Vals[1] = tv
		}
	}
	if rapid.IntRange(0, 5).Draw(t, "widepair") == 0 {
		// a wide integer meets its own text, the same value in the other 64-bit types, or the value its bits would
		// be under the other signedness
		ty := rapid.SampledFrom([]string{"int64", "uint64", "int", "uint"}).Draw(t, "widepair.t")
		v := rapid.SampledFrom(c15WideInts[ty]).Draw(t, "widepair.v")
		c.Vals[0] = TV{ty, v}
		other := TV{"string", v}
		switch rapid.IntRange(0, 3).Draw(t, "widepair.other") {
		case 0:
			other = TV{rapid.SampledFrom([]string{"int64", "uint64", "int", "uint"}).Draw(t, "widepair.t2"), v}
		case 1:
			if u, err := strconv.ParseUint(v, 10, 64); err == nil {
				other = TV{rapid.SampledFrom([]string{"int64", "int", "int8", "string"}).Draw(t, "widepair.t3"), strconv.FormatInt(int64(u), 10)}
			} else if i, err := strconv.ParseInt(v, 10, 64); err == nil {
				other = TV{rapid.SampledFrom([]string{"uint64", "uint", "string"}).Draw(t, "widepair.t4"), strconv.FormatUint(uint64(i), 10)}
			}
		case 2:
			other = TV{rapid.SampledFrom([]string{"int64", "uint64"}).Draw(t, "widepair.t5"), rapid.SampledFrom(append(append([]string{}, c15WideInts["int64"]...), c15WideInts["uint64"]...)).Draw(t, "widepair.v5")}
		}
		if _, ok := other.goValue(); ok {
			c.Vals[1] = other
		}
	}
	c.Join = rapid.IntRange(0, 3).Draw(t, "join") == 0
	if c.Join && rapid.IntRange(0, 2).Draw(t, "textpair") == 0 {
		// a number meets its own decimal text (equal in the stated order), on either side
		i := rapid.IntRange(0, 1).Draw(t, "textpair.side")
		if v, ok := c.Vals[i].goValue(); ok && c.Vals[i].T != "string" {
			c.Vals[1-i] = TV{"string", c15Text(v)}
		}
	}
	// the ORDER BY route: three cases in eight; half of those whose values are of one kind get up to 12 more rows
	c.Order = rapid.SampledFrom([]string{"", "", "", "", "", "k", "ASC", "DESC"}).Draw(t, "order")
	if c.Order != "" {
		oneKind := true
		for _, tv := range c.Vals[1:] {
			oneKind = oneKind && (tv.T == "string") == (c.Vals[0].T == "string")
		}
		if oneKind && rapid.Bool().Draw(t, "more") {
			lo, hi := 0, 11
			if c.Vals[0].T == "string" {
				lo, hi = 12, 13
			}
			n := rapid.IntRange(1, 12).Draw(t, "more.n")
			for i := 0; i < n; i++ {
				c.More = append(c.More, genTVIn(t, fmt.Sprintf("more%d", i), lo, hi))
			}
		}
	}
	return c
}

// c15Sorted runs "SELECT id, k FROM ta ORDER BY k [ASC|DESC]" over one row per key (id = position in keys) and returns
// a violation text unless the output is a permutation of the rows in which every row's key is <= (DESC: >=) its
// successor's in the stated order; rows whose keys are equal may come in either order. The caller passes keys on
// which the stated order is specified pairwise and transitive (two keys of any kinds, or n keys of one kind).
func c15Sorted(keys []any, order string) string {
	sql := "SELECT id, k FROM ta ORDER BY k"
	if order != "k" {
		sql += " " + order
	}
	rows := make([]any, len(keys))
	var desc []string
	for i, k := range keys {
		rows[i] = map[string]any{"id": i, "k": k}
		desc = append(desc, c15Desc(k))
	}
	out := Run(map[string]any{"ta": rows}, sql, Opts{})
	fail := func(why string) string {
		return fmt.Sprintf("%s over ta.k = [%s] (id = position)\n  %s\n  got %s", sql, strings.Join(desc, ", "), why, out.Describe())
	}
	if !out.OK() {
		return fail("the query must succeed")
	}
	if len(out.Raw) != len(keys) {
		return fail(fmt.Sprintf("ORDER BY must return the %d rows", len(keys)))
	}
	ids := make([]int, len(out.Raw))
	seen := make([]bool, len(keys))
	for i, r := range out.Raw {
		m, _ := r.(map[string]any)
		x := c15Rat(m["id"])
		if x == nil || !x.IsInt() || !x.Num().IsInt64() || x.Num().Int64() < 0 || x.Num().Int64() >= int64(len(keys)) || seen[x.Num().Int64()] {
			return fail("the output must be a permutation of the rows")
		}
		ids[i] = int(x.Num().Int64())
		seen[ids[i]] = true
	}
	for i := 0; i+1 < len(ids); i++ {
		cmp := c15Expected(keys[ids[i]], keys[ids[i+1]])
		if order == "DESC" {
			cmp = -cmp
		}
		if cmp > 0 {
			return fail(fmt.Sprintf("the order of the values says %d for %s against %s, yet the former comes right before the latter", c15Expected(keys[ids[i]], keys[ids[i+1]]), c15Desc(keys[ids[i]]), c15Desc(keys[ids[i+1]])))
		}
	}
	return ""
}

func checkC15(c *C15Case) Result {
	res := Result{}
	if len(c.Vals) < 2 {
		res.Discard = "fewer than two values"
		return res
	}
	vals := make([]any, len(c.Vals))
	for i, tv := range c.Vals {
		v, ok := tv.goValue()
		if !ok {
			res.Discard = "value does not fit its type"
			return res
		}
		vals[i] = v
	}
	res.NonTrivial = c.Vals[0].T != c.Vals[1].T
	ka, kb := "num", "num"
	if c.Vals[0].T == "string" {
		ka = "str"
	}
	if c.Vals[1].T == "string" {
		kb = "str"
	}
	res.Labels = append(res.Labels, "pair:"+ka+"/"+kb, "left:"+c.Vals[0].T)
	for i := range vals {
		for j := range vals {
			res.Execs += 3
			if v := c15Pair(vals[i], vals[j]); v != "" {
				res.Violation = v
				return res
			}
		}
	}
	if c15Wide(vals[0]) || c15Wide(vals[1]) {
		res.Labels = append(res.Labels, "beyond-2^53")
	}
	if c.Join && c15Specified(vals[0], vals[1]) {
		res.Labels = append(res.Labels, "join-keys")
		want := 0
		if c15Expected(vals[0], vals[1]) == 0 {
			want = 1
		}
		for _, kw := range []string{"JOIN", "HASH_JOIN"} {
			sql := "SELECT x.k AS a, y.k AS b FROM ta x " + kw + " tb y ON x.k = y.k"
			out := Run(map[string]any{"ta": []any{map[string]any{"k": vals[0]}}, "tb": []any{map[string]any{"k": vals[1]}}}, sql, Opts{})
			res.Execs++
			if !out.OK() || len(out.Rows) != want {
				res.Violation = fmt.Sprintf("%s over ta.k = %s, tb.k = %s\n  the order of the values says %d, so %d row(s) pair\n  got %s", sql, c15Desc(vals[0]), c15Desc(vals[1]), c15Expected(vals[0], vals[1]), want, out.Describe())
				return res
			}
		}
	}
	if c.Join && c15Specified(vals[0], vals[1]) && !c15Wide(vals[1]) {
		// the first value as a column, the second as a literal of an IN list among other literals of its kind:
		// the row is kept exactly when the column equals one of the list's members in the stated order
		var list []any
		if _, isStr := vals[1].(string); isStr {
			list = []any{"9", vals[1], "a", "100"}
		} else if f, _ := c15Rat(vals[1]).Float64(); math.Abs(f) < 1e15 {
			list = []any{9.0, f, 11.0, 100.0, 2.5}
		}
		ok := list != nil
		want := 0
		var lits []string
		for _, e := range list {
			if !c15Specified(vals[0], e) {
				ok = false
				break
			}
			if c15Expected(vals[0], e) == 0 {
				want = 1
			}
			if s, isStr := e.(string); isStr {
				lits = append(lits, sq.StrLit(s))
			} else {
				lits = append(lits, sq.NumLit(e.(float64)))
			}
		}
		if ok {
			// the six relational operators and BETWEEN with the second value as the literal
			lit := lits[1]
			cmp := c15Expected(vals[0], vals[1])
			for _, op := range []string{"<", "<=", ">", ">=", "=", "!=", "BETWEEN"} {
				holds := map[string]bool{"<": cmp < 0, "<=": cmp <= 0, ">": cmp > 0, ">=": cmp >= 0, "=": cmp == 0, "!=": cmp != 0, "BETWEEN": cmp == 0}[op]
				sql := "SELECT k FROM ta WHERE k " + op + " " + lit
				if op == "BETWEEN" {
					sql += " AND " + lit
				}
				n := 0
				if holds {
					n = 1
				}
				out := Run(map[string]any{"ta": []any{map[string]any{"k": vals[0]}}}, sql, Opts{})
				res.Execs++
				if !out.OK() || len(out.Rows) != n {
					res.Violation = fmt.Sprintf("%s over ta.k = %s\n  the order of the values says %d, so the row is kept %d time(s)\n  got %s", sql, c15Desc(vals[0]), cmp, n, out.Describe())
					return res
				}
			}
			res.Labels = append(res.Labels, "where-operators")
		}
		if ok {
			res.Labels = append(res.Labels, "in-list")
			for _, not := range []bool{false, true} {
				sql := "SELECT k FROM ta WHERE k IN (" + strings.Join(lits, ", ") + ")"
				n := want
				if not {
					sql = strings.Replace(sql, " IN (", " NOT IN (", 1)
					n = 1 - want
				}
				out := Run(map[string]any{"ta": []any{map[string]any{"k": vals[0]}}}, sql, Opts{})
				res.Execs++
				if !out.OK() || len(out.Rows) != n {
					res.Violation = fmt.Sprintf("%s over ta.k = %s\n  by the order of the values the row is kept %d time(s)\n  got %s", sql, c15Desc(vals[0]), n, out.Describe())
					return res
				}
			}
		}
	}
	if c.Order != "" && c15Specified(vals[0], vals[1]) {
		res.Labels = append(res.Labels, "order-by-pair", "order-by:"+c.Order)
		for _, keys := range [][]any{{vals[0], vals[1]}, {vals[1], vals[0]}} {
			res.Execs++
			if v := c15Sorted(keys, c.Order); v != "" {
				res.Violation = v
				return res
			}
		}
	}
	if c.Order != "" && len(vals)+len(c.More) > 2 {
		// the n-row table: keys of one kind on which the stated order is specified pairwise
		keys := append([]any{}, vals...)
		ok := true
		for _, tv := range c.More {
			v, fits := tv.goValue()
			ok = ok && fits
			keys = append(keys, v)
		}
		for i := 0; ok && i < len(keys); i++ {
			for j := 0; j < i; j++ {
				ok = ok && sameKind(keys[i], keys[j]) && c15Specified(keys[i], keys[j])
			}
		}
		if ok {
			res.Labels = append(res.Labels, fmt.Sprintf("order-by-rows:%d", (len(keys)+3)/4*4))
			res.Execs++
			if v := c15Sorted(keys, c.Order); v != "" {
				res.Violation = v
				return res
			}
		}
	}
	if len(vals) == 3 && sameKind(vals[0], vals[1]) && sameKind(vals[1], vals[2]) {
		res.Labels = append(res.Labels, "triple")
		perms := [][3]int{{0, 1, 2}, {0, 2, 1}, {1, 0, 2}, {1, 2, 0}, {2, 0, 1}, {2, 1, 0}}
		for _, p := range perms {
			if v := c15Triple(vals[p[0]], vals[p[1]], vals[p[2]]); v != "" {
				res.Violation = v
				return res
			}
		}
	}
	return res
}

func init() {
	Register(&Prop{
		ID:    "C15",
		Title: "Value comparison is a coherent order across all numeric types and strings",
		Rule: "part 1 (exhaustive, every run): a finite representative domain - for each of the 12 Go numeric types the boundary values " +
			"(min, -129..-128, -2..2, 10, 127/128, 255/256, 32767/32768, 65535/65536, 2^31-1/2^31, 2^32-1/2^32, +-2^53 where representable), " +
			"fractions for the float types, and 19 strings (empty, numeric-looking, prefixes, case pairs, multi-byte) - all ordered pairs and " +
			"all same-kind ordered triples; part 2: rapid draws pairs/triples of random typed values (64-bit boundary integers beyond 2^53 against integers and strings; a quarter of the pairs also meet as keys of one-row tables in JOIN and HASH_JOIN, which must pair them iff they are equal; three in eight also meet as the key column of a two-row table under ORDER BY k [ASC|DESC] (both input orders; the output must be a permutation with the smaller key first, equal keys in either order), and values of one kind also as one table of 3..15 rows whose output must be sorted; any type, " +
			"small-magnitude bias, neighbours +-1 of the first value). Oracle: exact rational comparison (math/big) for number/number, " +
			"strings.Compare for string/string and decimal-text/string; result in {-1,0,1}; reflexive; antisymmetric; transitive within kind. " +
			"Non-trivial: operands of different Go types.",
		Assumptions: []string{
			"|v| <= 2^53 (the exactly-representable range of the statement); floats are dyadic fractions, plus a few non-dyadic float32/float64 values (0.1, 1.1, 33.3, the float64 widening of float32(0.1), -0) whose decimal text is the shortest text that reads back as the same value of that type",
			"float-vs-string pairs with |float| >= 10^6 are judged by the algebraic laws only (plain vs. exponent decimal text is not fixed by the statement)",
			"float32 values are compared by the exact value of the float32",
		},
		Gen:        genC15,
		New:        func() any { return &C15Case{} },
		Check:      func(c any) Result { return checkC15(c.(*C15Case)) },
		Extra:      c15Exhaustive,
		Exhaustive: true,
		Quick:      20000,
		Thorough:   2000000,
		Shards:     8,
	})
}

package checks

import (
	"fmt"

	"pgregory.net/rapid"
	"verifharness/sq"
	"verifharness/val"
)

// C01 - WHERE keeps exactly the rows that satisfy the predicate, in source order.

type C01Case struct {
	Doc  map[string]any `json:"doc"`
	Pred *sq.E          `json:"pred"`
	SQL  string         `json:"sql"`
	// GoTypes: numeric columns of t (and of t2: s<i> shares the type of column i) that are handed to
	// the engine as natively built Go values of that type instead of float64
	GoTypes map[string]string `json:"go_types,omitempty"`
	// Opts: options that must not change the meaning of a query that does not use their alternative syntax
	Opts Opts `json:"opts,omitempty"`
	// Scale: large table: t is expanded from the rows of the document by this recipe before anything is computed
	Scale *Scale `json:"scale,omitempty"`
	// Alias: the table is read under an alias (`FROM t x WHERE x.col ...`): every column of the predicate is
	// qualified and every kept row comes back as {x: row}
	Alias bool `json:"alias,omitempty"`
}

// qualifyCols returns a copy of the predicate whose column references (not those inside the WHERE of an
// IN-subquery, which belong to the subquery's own table) are written as <alias>.<col>.
func qualifyCols(e *sq.E, alias string) *sq.E {
	n := *e
	if e.K == "col" {
		n.S = alias + "." + e.S
		return &n
	}
	n.A = make([]*sq.E, len(e.A))
	for i, a := range e.A {
		if e.K == "insub" && i > 0 {
			n.A[i] = a
			continue
		}
		n.A[i] = qualifyCols(a, alias)
	}
	return &n
}

func init() {
	Register(&Prop{
		ID:    "C01",
		Title: "WHERE keeps exactly the rows that satisfy the predicate, in source order",
		Rule: "[Dimensions added in rounds p-r of the seeded-defect evaluation: a sixth of the cases read the table under an alias (FROM t x WHERE x.col ..., rows come back as {x: row}); an eighth of the IN lists have 30-120 members (negative numbers, zero, fractions, not ascending); LIKE patterns also made of 2-4 arbitrary fragments of one value around % and of head%mid%tail cut out of one value so that mid overlaps its neighbours.] " +
			"rapid draws a typed table t (2-5 columns of kind int/num/str/bool, some nullable, 0-10 rows from small per-column value pools, " +
			"LIKE-hostile strings included; about 2.5% of the cases expand t to 200-700 rows by a recipe; a third of the numeric columns are handed to the engine as native Go values of another numeric type: int*, uint*, float32), a second table t2 for IN-subqueries and a predicate tree (depth<=5) over = != <> < <= > >= / [NOT] IN / " +
			"IN (SELECT..) / [NOT] BETWEEN / [NOT] LIKE / IS [NOT] NULL|TRUE|FALSE / AND OR NOT; oracle = independent reference filter " +
			"(sequence equality) for p and NOT(p), plus engine-vs-engine rewrites (BETWEEN -> >= AND <=, NOT IN -> NOT(IN), NOT LIKE -> NOT(LIKE)). " +
			"The predicate, its negation and the rewrites run one after the other on the same input object; a quarter of the IN-subqueries read the filtered table itself; a quarter of the cases run under PostgresEscapingDialect and/or IdiomaticArrays (the queries use neither double quotes nor brackets, string pools include caseless multi-byte text). Non-trivial: >=2 rows and 0 < kept < n. Distinct = distinct JSON encodings of (doc, predicate).",
		Assumptions: []string{
			"columns hold non-NULL values of one scalar kind; NULL only under IS [NOT] NULL (as the statement says)",
			"no backslash in LIKE patterns (escape semantics unspecified)",
			"the harness's SQL literal renderer is faithful (checked by the C16/C17 echo round-trips)",
		},
		Gen:      genC01,
		New:      func() any { return &C01Case{} },
		Check:    func(c any) Result { return checkC01(c.(*C01Case)) },
		Quick:    4500,
		Thorough: 250000,
	})
}

func genC01(t *rapid.T) any {
	tb := genTable(t, TableSpec{MinCols: 2, MaxCols: 5, MinRows: 0, MaxRows: 10, Nullable: true, Hostile: true, MissingKeys: true}, "t")
	// make sure at least one non-nullable orderable column exists
	ok := false
	for _, c := range tb.Cols {
		if !c.Nullable && c.Kind != "bool" {
			ok = true
		}
	}
	if !ok {
		tb.Cols[0].Nullable = false
		if tb.Cols[0].Kind == "bool" {
			tb.Cols[0].Kind = "int"
			tb.Cols[0].Pool = []any{1.0, 2.0, 3.0}
		}
		for i, r := range tb.Rows {
			r.(map[string]any)[tb.Cols[0].Name] = tb.Cols[0].Pool[i%len(tb.Cols[0].Pool)]
		}
	}
	// t2 shares value pools with t so that IN-subqueries hit
	t2 := &Table{}
	for i, c := range tb.Cols {
		if c.Nullable || c.Kind == "bool" {
			continue
		}
		t2.Cols = append(t2.Cols, Col{Name: fmt.Sprintf("s%d", i), Kind: c.Kind, Pool: c.Pool})
	}
	n2 := rapid.IntRange(0, 5).Draw(t, "t2.nrows")
	t2.Rows = []any{}
	for r := 0; r < n2; r++ {
		row := map[string]any{}
		for _, c := range t2.Cols {
			row[c.Name] = rapid.SampledFrom(c.Pool).Draw(t, fmt.Sprintf("t2.r%d.%s", r, c.Name))
		}
		t2.Rows = append(t2.Rows, row)
	}
	ps := &PredSpec{SubTable: "t2", SubCols: t2.Cols}
	if rapid.IntRange(0, 3).Draw(t, "selfsub") == 0 {
		// IN-subqueries read the filtered table itself
		ps = &PredSpec{SubTable: "t", SubCols: tb.Cols}
	}
	pred := genPred(t, tb, ps, rapid.IntRange(0, 5).Draw(t, "depth"), "p")
	c := &C01Case{Doc: map[string]any{"t": tb.Rows, "t2": t2.Rows}, Pred: pred}
	if rapid.IntRange(0, 3).Draw(t, "withopts") == 0 {
		b := rapid.IntRange(1, 3).Draw(t, "optbits")
		c.Opts = Opts{PG: b&1 != 0, Arrays: b&2 != 0}
	}
	c.GoTypes = genGoTypes(t, tb.Cols, "gotypes")
	for i, col := range tb.Cols {
		if typ, ok := c.GoTypes[col.Name]; ok {
			c.GoTypes[fmt.Sprintf("s%d", i)] = typ
		}
	}
	c.SQL = "SELECT * FROM t WHERE " + sq.Render(pred, nil)
	// scale: exactly the satisfying rows, each once and in source order, whatever the size of the table
	c.Scale = genScale(t, 20, "scale")
	if c.Scale != nil && len(tb.Rows) == 0 {
		c.Scale = nil
	}
	if rapid.IntRange(0, 5).Draw(t, "alias") == 0 {
		c.Alias = true
		c.SQL = "SELECT * FROM t x WHERE " + sq.Render(qualifyCols(pred, "x"), nil)
	}
	return c
}

// engineDoc is the document handed to the engine: a fresh copy, with the GoTypes columns converted.
func (c *C01Case) engineDoc() map[string]any {
	d := val.CopyMap(c.Doc)
	if len(c.GoTypes) > 0 {
		for _, key := range []string{"t", "t2"} {
			if rows, ok := d[key].([]any); ok {
				d[key] = applyGoTypes(rows, c.GoTypes)
			}
		}
	}
	return d
}

func refFilter(rows []any, pred *sq.E, env *sq.Env) ([]any, []any, error) {
	var keep, drop []any
	for _, r := range rows {
		rm, ok := r.(map[string]any)
		if !ok {
			return nil, nil, fmt.Errorf("row is %T", r)
		}
		b, err := sq.EvalBool(pred, rm, env)
		if err != nil {
			return nil, nil, err
		}
		if b {
			keep = append(keep, r)
		} else {
			drop = append(drop, r)
		}
	}
	return keep, drop, nil
}

// rewriteSugar replaces BETWEEN / NOT IN / NOT LIKE by their defining expansions.
func rewriteSugar(e *sq.E) (*sq.E, bool) {
	changed := false
	var rec func(e *sq.E) *sq.E
	rec = func(e *sq.E) *sq.E {
		n := *e
		n.A = make([]*sq.E, len(e.A))
		for i, a := range e.A {
			n.A[i] = rec(a)
		}
		switch n.K {
		case "btw":
			changed = true
			x := sq.And(sq.Cmp(">=", n.A[0], n.A[1]), sq.Cmp("<=", n.A[0], n.A[2]))
			if n.Not {
				return sq.Not(x)
			}
			return x
		case "in":
			if n.Not {
				changed = true
				p := n
				p.Not = false
				return sq.Not(&p)
			}
		case "like":
			if n.Not {
				changed = true
				p := n
				p.Not = false
				return sq.Not(&p)
			}
		}
		return &n
	}
	out := rec(e)
	return out, changed
}

func seqEqual(a, b []any) bool {
	if len(a) != len(b) {
		return false
	}
	for i := range a {
		if !val.Equal(a[i], b[i]) {
			return false
		}
	}
	return true
}

func checkC01(c *C01Case) Result {
	res := Result{}
	if c.Scale != nil {
		cc := *c
		cc.Doc, cc.Scale = c.Scale.ExpandDoc(c.Doc, "t"), nil
		res = checkC01(&cc)
		res.Labels = append(res.Labels, "large-table")
		return res
	}
	rows, _ := c.Doc["t"].([]any)
	env := &sq.Env{Doc: c.Doc}
	keep, drop, err := refFilter(rows, c.Pred, env)
	if err != nil {
		if u, ok := err.(*sq.ErrUnspecified); ok {
			res.Discard = u.Why
			return res
		}
		res.Harness = err.Error()
		return res
	}
	res.Labels = append(res.Labels, c.Pred.Kinds()...)
	res.Labels = append(res.Labels, fmt.Sprintf("depth:%d", minInt(c.Pred.Depth(), 6)))
	if len(c.GoTypes) > 0 {
		res.Labels = append(res.Labels, "native-go-numeric-columns")
	}
	if c.Opts.PG || c.Opts.Arrays {
		res.Labels = append(res.Labels, "options:"+c.Opts.String())
	}
	res.NonTrivial = len(rows) >= 2 && len(keep) > 0 && len(keep) < len(rows)

	live := c.engineDoc()
	from, wrap := "SELECT * FROM t WHERE ", func(rows []any) []any { return rows }
	where := func(p *sq.E) string { return sq.Render(p, nil) }
	if c.Alias {
		from = "SELECT * FROM t x WHERE "
		where = func(p *sq.E) string { return sq.Render(qualifyCols(p, "x"), nil) }
		wrap = func(rows []any) []any {
			out := make([]any, len(rows))
			for i, r := range rows {
				out[i] = map[string]any{"x": r}
			}
			return out
		}
		res.Labels = append(res.Labels, "aliased-table")
	}
	keep, drop = wrap(keep), wrap(drop)
	sql := c.SQL
	if sql == "" {
		sql = from + where(c.Pred)
	}
	out := Run(live, sql, c.Opts)
	res.Execs++
	if !out.OK() {
		res.Violation = fmt.Sprintf("%s\n  expected rows %s\n  got %s", sql, val.JSON(keep), out.Describe())
		return res
	}
	if !seqEqual(out.Rows, keep) {
		res.Violation = fmt.Sprintf("%s\n  expected rows %s\n  got      rows %s", sql, val.JSON(keep), val.JSON(out.Rows))
		return res
	}
	// negation: complement, in source order
	nsql := from + "NOT (" + where(c.Pred) + ")"
	nout := Run(live, nsql, c.Opts)
	res.Execs++
	if !nout.OK() || !seqEqual(nout.Rows, drop) {
		res.Violation = fmt.Sprintf("negation does not select the complement: %s\n  expected rows %s\n  got %s", nsql, val.JSON(drop), nout.Describe())
		return res
	}
	if len(out.Rows)+len(nout.Rows) != len(rows) {
		res.Violation = fmt.Sprintf("predicate and negation do not partition the table: %d + %d != %d (%s)", len(out.Rows), len(nout.Rows), len(rows), sql)
		return res
	}
	// defining expansions, engine vs engine
	if rw, changed := rewriteSugar(c.Pred); changed {
		rsql := from + where(rw)
		rout := Run(live, rsql, c.Opts)
		res.Execs++
		if !rout.OK() || !seqEqual(rout.Rows, out.Rows) {
			res.Violation = fmt.Sprintf("sugar and its expansion disagree:\n  %s -> %s\n  %s -> %s", sql, val.JSON(out.Rows), rsql, rout.Describe())
			return res
		}
		res.Labels = append(res.Labels, "expansion-checked")
	}
	return res
}

func minInt(a, b int) int {
	if a < b {
		return a
	}
	return b
}

func maxInt(a, b int) int {
	if a > b {
		return a
	}
	return b
}

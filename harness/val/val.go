// Package val is the JSON-like value model shared by generators, reference models and oracles.
// Values are exactly what encoding/json yields: map[string]any, []any, string, float64, bool, nil.
// Results coming back from the engine may additionally carry other Go numeric kinds (int from
// COUNT, int64 from TIMESTAMP): Norm maps every numeric kind to float64.
package val

import (
	"encoding/json"
	"fmt"
	"math"
	"reflect"
	"sort"
	"strconv"
	"strings"
	"unsafe"
)

type Map = map[string]any

// Copy returns a deep copy of a JSON-like value (maps and slices are rebuilt, leaves are shared).
func Copy(v any) any {
	switch t := v.(type) {
	case map[string]any:
		m := make(map[string]any, len(t))
		for k, x := range t {
			m[k] = Copy(x)
		}
		return m
	case []any:
		if t == nil {
			return []any(nil)
		}
		s := make([]any, len(t))
		for i, x := range t {
			s[i] = Copy(x)
		}
		return s
	default:
		return v
	}
}

// CopySpare is Copy with every array allocated with spare capacity (cap = len + 3), the way arrays of a
// decoded JSON document usually are: code that appends to an array of the document then writes behind its end
// instead of reallocating, which shows as soon as two results were built from the same array.
func CopySpare(v any) any {
	switch t := v.(type) {
	case map[string]any:
		m := make(map[string]any, len(t))
		for k, x := range t {
			m[k] = CopySpare(x)
		}
		return m
	case []any:
		if t == nil {
			return []any(nil)
		}
		s := make([]any, len(t), len(t)+3)
		for i, x := range t {
			s[i] = CopySpare(x)
		}
		return s
	default:
		return v
	}
}

func CopyMap(m map[string]any) map[string]any {
	if m == nil {
		return nil
	}
	return Copy(m).(map[string]any)
}

// Norm converts an engine result into the plain value model: every Go numeric kind becomes
// float64, typed slices/maps of plain values become []any / map[string]any, a nil slice becomes an
// empty []any. Values that are not plain data (pointers, funcs, engine wrapper types) are left as
// they are so that comparisons fail on them and TypeWalk can report them.
func Norm(v any) any { return norm(v, map[uintptr]bool{}) }

// TooDeep replaces a back-reference (a map or slice that contains itself) so that normalisation
// terminates; it is never equal to plain data.
type TooDeep struct{}

func norm(v any, onPath map[uintptr]bool) any {
	switch t := v.(type) {
	case nil:
		return nil
	case map[string]any:
		p := reflect.ValueOf(t).Pointer()
		if onPath[p] {
			return TooDeep{}
		}
		onPath[p] = true
		defer delete(onPath, p)
		m := make(map[string]any, len(t))
		for k, x := range t {
			m[k] = norm(x, onPath)
		}
		return m
	case []any:
		if len(t) > 0 {
			p := uintptr(unsafe.Pointer(&t[0]))
			if onPath[p] {
				return TooDeep{}
			}
			onPath[p] = true
			defer delete(onPath, p)
		}
		s := make([]any, len(t))
		for i, x := range t {
			s[i] = norm(x, onPath)
		}
		return s
	case string, bool, float64:
		return t
	case float32:
		return float64(t)
	case int:
		return float64(t)
	case int8:
		return float64(t)
	case int16:
		return float64(t)
	case int32:
		return float64(t)
	case int64:
		return float64(t)
	case uint:
		return float64(t)
	case uint8:
		return float64(t)
	case uint16:
		return float64(t)
	case uint32:
		return float64(t)
	case uint64:
		return float64(t)
	}
	rv := reflect.ValueOf(v)
	switch rv.Kind() {
	case reflect.Slice, reflect.Array:
		// only typed slices of plain element kinds (e.g. []string from DATERANGE)
		if rv.Type().PkgPath() != "" || rv.Type().Elem().Kind() == reflect.Interface {
			return v
		}
		s := make([]any, rv.Len())
		for i := 0; i < rv.Len(); i++ {
			s[i] = norm(rv.Index(i).Interface(), onPath)
		}
		return s
	}
	return v
}

// NormRows normalises an Exec result.
func NormRows(rows []any) []any {
	return Norm(rows).([]any)
}

const relTol = 1e-9

func floatEq(a, b float64) bool {
	if a == b {
		return true
	}
	if math.IsNaN(a) && math.IsNaN(b) {
		return true
	}
	if math.IsInf(a, 0) || math.IsInf(b, 0) {
		return false
	}
	d := math.Abs(a - b)
	m := math.Max(math.Abs(a), math.Abs(b))
	return d <= relTol*m
}

// NumText stands, on the expected side of a comparison, for "a decimal text of this number": it equals every
// string that parses as a number within 5e-7 (six decimals) or 1e-12 relative of it, and nothing else.
type NumText float64

func (n NumText) matches(s string) bool {
	f, err := strconv.ParseFloat(s, 64)
	if err != nil || strings.TrimSpace(s) != s {
		return false
	}
	return math.Abs(f-float64(n)) <= 5e-7+1e-12*math.Abs(float64(n))
}

// Equal compares two normalised values structurally. nil slice == empty slice.
func Equal(a, b any) bool {
	switch x := a.(type) {
	case nil:
		return b == nil
	case NumText:
		y, ok := b.(string)
		return ok && x.matches(y)
	case map[string]any:
		y, ok := b.(map[string]any)
		if !ok || len(x) != len(y) {
			return false
		}
		for k, xv := range x {
			yv, ok := y[k]
			if !ok || !Equal(xv, yv) {
				return false
			}
		}
		return true
	case []any:
		y, ok := b.([]any)
		if !ok || len(x) != len(y) {
			return false
		}
		for i := range x {
			if !Equal(x[i], y[i]) {
				return false
			}
		}
		return true
	case float64:
		y, ok := b.(float64)
		return ok && floatEq(x, y)
	case string:
		if n, isNum := b.(NumText); isNum {
			return n.matches(x)
		}
		y, ok := b.(string)
		return ok && x == y
	case bool:
		y, ok := b.(bool)
		return ok && x == y
	default:
		return false
	}
}

// Canon is a canonical text encoding (sorted keys, kind-tagged leaves) used for multiset
// comparison and for hashing cases. Floats are rounded to 12 significant digits so that values that
// are Equal under the relative tolerance almost always share an encoding; multiset comparison falls
// back to Equal-based matching when encodings differ (see MultisetEqual).
func Canon(v any) string {
	var sb strings.Builder
	canon(&sb, v)
	return sb.String()
}

func canon(sb *strings.Builder, v any) {
	switch t := v.(type) {
	case nil:
		sb.WriteString("N")
	case bool:
		if t {
			sb.WriteString("T")
		} else {
			sb.WriteString("F")
		}
	case float64:
		sb.WriteString("#")
		sb.WriteString(strconv.FormatFloat(t, 'g', 12, 64))
	case string:
		sb.WriteString(strconv.Quote(t))
	case []any:
		sb.WriteString("[")
		for i, x := range t {
			if i > 0 {
				sb.WriteString(",")
			}
			canon(sb, x)
		}
		sb.WriteString("]")
	case map[string]any:
		keys := make([]string, 0, len(t))
		for k := range t {
			keys = append(keys, k)
		}
		sort.Strings(keys)
		sb.WriteString("{")
		for i, k := range keys {
			if i > 0 {
				sb.WriteString(",")
			}
			sb.WriteString(strconv.Quote(k))
			sb.WriteString(":")
			canon(sb, t[k])
		}
		sb.WriteString("}")
	default:
		fmt.Fprintf(sb, "?%T", v)
	}
}

// MultisetEqual reports whether a and b hold the same elements with the same multiplicities.
func MultisetEqual(a, b []any) bool {
	if len(a) != len(b) {
		return false
	}
	ca := make([]string, len(a))
	cb := make([]string, len(b))
	for i := range a {
		ca[i] = Canon(a[i])
		cb[i] = Canon(b[i])
	}
	sort.Strings(ca)
	sort.Strings(cb)
	same := true
	for i := range ca {
		if ca[i] != cb[i] {
			same = false
			break
		}
	}
	if same {
		return true
	}
	// tolerance fallback: greedy matching under Equal (rare; only float rounding edge)
	used := make([]bool, len(b))
outer:
	for _, x := range a {
		for j, y := range b {
			if !used[j] && Equal(x, y) {
				used[j] = true
				continue outer
			}
		}
		return false
	}
	return true
}

// SubMultiset reports whether every element of a occurs in b at least as often.
func SubMultiset(a, b []any) bool {
	used := make([]bool, len(b))
outer:
	for _, x := range a {
		for j, y := range b {
			if !used[j] && Equal(x, y) {
				used[j] = true
				continue outer
			}
		}
		return false
	}
	return true
}

// JSON renders a value compactly for messages; never fails (cycles are not expected here).
func JSON(v any) string {
	b, err := json.Marshal(v)
	if err != nil {
		return fmt.Sprintf("<not JSON-serialisable: %v>", err)
	}
	return string(b)
}

// SameShape is the cycle-safe, type-strict comparison used for "the input is unchanged": live is
// the (possibly mutated, possibly cyclic) document, snap a pristine deep copy. It returns "" when
// live is structurally identical to snap, else a path-qualified description of the first
// difference.
func SameShape(live, snap any) string {
	return sameShape(live, snap, "$", map[uintptr]bool{}, 0)
}

func sameShape(live, snap any, path string, onPath map[uintptr]bool, depth int) string {
	if depth > 200 {
		return path + ": nesting deeper than 200 (cycle?)"
	}
	switch s := snap.(type) {
	case nil:
		if live != nil {
			return fmt.Sprintf("%s: was null, now %T", path, live)
		}
		return ""
	case map[string]any:
		l, ok := live.(map[string]any)
		if !ok {
			return fmt.Sprintf("%s: was object, now %T", path, live)
		}
		p := reflect.ValueOf(l).Pointer()
		if onPath[p] {
			return path + ": reference cycle"
		}
		onPath[p] = true
		defer delete(onPath, p)
		for k := range l {
			if _, ok := s[k]; !ok {
				return fmt.Sprintf("%s: key %q was added (value type %T)", path, k, l[k])
			}
		}
		for k, sv := range s {
			lv, ok := l[k]
			if !ok {
				return fmt.Sprintf("%s: key %q was removed", path, k)
			}
			if d := sameShape(lv, sv, path+"."+k, onPath, depth+1); d != "" {
				return d
			}
		}
		return ""
	case []any:
		l, ok := live.([]any)
		if !ok {
			return fmt.Sprintf("%s: was array, now %T", path, live)
		}
		if len(l) != len(s) {
			return fmt.Sprintf("%s: array length was %d, now %d", path, len(s), len(l))
		}
		for i := range s {
			if d := sameShape(l[i], s[i], fmt.Sprintf("%s[%d]", path, i), onPath, depth+1); d != "" {
				return d
			}
		}
		return ""
	case string:
		l, ok := live.(string)
		if !ok || l != s {
			return fmt.Sprintf("%s: was %q, now %#v", path, s, live)
		}
		return ""
	case float64:
		l, ok := live.(float64)
		if !ok || !(l == s || (math.IsNaN(l) && math.IsNaN(s))) {
			return fmt.Sprintf("%s: was %v, now %#v", path, s, live)
		}
		return ""
	case bool:
		l, ok := live.(bool)
		if !ok || l != s {
			return fmt.Sprintf("%s: was %v, now %#v", path, s, live)
		}
		return ""
	default:
		return fmt.Sprintf("%s: snapshot holds unsupported %T", path, snap)
	}
}

// PlainWalk checks that v (a raw, un-normalised engine result) consists only of JSON-representable
// data and is acyclic. It returns "" or a description of the first offending value.
func PlainWalk(v any) string {
	return plainWalk(reflect.ValueOf(v), "$", map[uintptr]bool{}, 0)
}

func plainWalk(rv reflect.Value, path string, onPath map[uintptr]bool, depth int) string {
	if depth > 200 {
		return path + ": nesting deeper than 200 (cycle?)"
	}
	if !rv.IsValid() {
		return ""
	}
	t := rv.Type()
	switch rv.Kind() {
	case reflect.Interface:
		if rv.IsNil() {
			return ""
		}
		return plainWalk(rv.Elem(), path, onPath, depth)
	case reflect.Bool, reflect.String,
		reflect.Int, reflect.Int8, reflect.Int16, reflect.Int32, reflect.Int64,
		reflect.Uint, reflect.Uint8, reflect.Uint16, reflect.Uint32, reflect.Uint64,
		reflect.Float32, reflect.Float64:
		if t.PkgPath() != "" {
			return fmt.Sprintf("%s: engine-internal type %s", path, t.String())
		}
		if rv.Kind() == reflect.Float64 || rv.Kind() == reflect.Float32 {
			f := rv.Float()
			if math.IsNaN(f) || math.IsInf(f, 0) {
				return fmt.Sprintf("%s: non-finite number %v", path, f)
			}
		}
		return ""
	case reflect.Map:
		if t.PkgPath() != "" {
			return fmt.Sprintf("%s: engine-internal type %s", path, t.String())
		}
		if t.Key().Kind() != reflect.String {
			return fmt.Sprintf("%s: map with non-string keys %s", path, t.String())
		}
		if rv.IsNil() {
			return ""
		}
		p := rv.Pointer()
		if onPath[p] {
			return path + ": reference cycle"
		}
		onPath[p] = true
		defer delete(onPath, p)
		keys := rv.MapKeys()
		sort.Slice(keys, func(i, j int) bool { return keys[i].String() < keys[j].String() })
		for _, k := range keys {
			if k.String() == "<-" {
				return fmt.Sprintf("%s: navigation key \"<-\" present", path)
			}
			if d := plainWalk(rv.MapIndex(k), path+"."+k.String(), onPath, depth+1); d != "" {
				return d
			}
		}
		return ""
	case reflect.Slice, reflect.Array:
		if t.PkgPath() != "" {
			return fmt.Sprintf("%s: engine-internal type %s", path, t.String())
		}
		for i := 0; i < rv.Len(); i++ {
			if d := plainWalk(rv.Index(i), fmt.Sprintf("%s[%d]", path, i), onPath, depth+1); d != "" {
				return d
			}
		}
		return ""
	default:
		return fmt.Sprintf("%s: non-data value of type %s (kind %s)", path, t.String(), rv.Kind())
	}
}

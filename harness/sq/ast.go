// Package sq holds the harness's own expression AST (JSON-serialisable so that a generated case can
// be written out and replayed without the generator), its SQL renderer and the reference evaluator
// written from the property statements ("ordinary SQL meaning"). It shares no code with genql.
package sq

import (
	"fmt"
	"math"
	"strconv"
	"strings"
	"unicode"
)

// E is an expression node.
//
//	K      meaning                          fields
//	col    column / path reference          S (path, segments joined by '.')
//	num    numeric literal                  N
//	str    string literal                   S
//	bool   TRUE/FALSE                       B
//	null   NULL
//	bin    binary arithmetic                Op in + - * / DIV % & | ^ << >>, A[0], A[1]
//	neg    unary minus                      A[0]
//	tilde  bitwise not                      A[0]
//	bang   logical not (!)                  A[0]
//	cmp    comparison                       Op in = != <> < <= > >=, A[0], A[1]
//	and/or                                  A[0], A[1]
//	not    NOT                              A[0]
//	in     [NOT] IN literal list            Not, A[0] operand, A[1:] list
//	insub  IN (SELECT col FROM `<-tab` [WHERE p])  A[0] operand, S = tab, Op = col, A[1] optional p
//	btw    [NOT] BETWEEN                    Not, A[0] operand, A[1] lo, A[2] hi
//	like   [NOT] LIKE                       Not, A[0] operand, A[1] pattern (str)
//	is     IS [NOT] NULL/TRUE/FALSE         Op in null, notnull, true, false, nottrue, notfalse; A[0]
//	case   CASE WHEN c THEN v ... [ELSE e]  A = c1,v1,c2,v2,...,[else]; B = has else
//	par    parenthesised                    A[0]
//	call   function call                    S = name, Op = qualifier (async, spin, ...), A = args
//	raw    verbatim SQL (no reference)      S
type E struct {
	K   string  `json:"k"`
	Op  string  `json:"op,omitempty"`
	S   string  `json:"s,omitempty"`
	N   float64 `json:"n,omitempty"`
	B   bool    `json:"b,omitempty"`
	Not bool    `json:"not,omitempty"`
	A   []*E    `json:"a,omitempty"`
}

func Col(path string) *E           { return &E{K: "col", S: path} }
func Num(n float64) *E             { return &E{K: "num", N: n} }
func Str(s string) *E              { return &E{K: "str", S: s} }
func Bool(b bool) *E               { return &E{K: "bool", B: b} }
func Null() *E                     { return &E{K: "null"} }
func Bin(op string, a, b *E) *E    { return &E{K: "bin", Op: op, A: []*E{a, b}} }
func Cmp(op string, a, b *E) *E    { return &E{K: "cmp", Op: op, A: []*E{a, b}} }
func And(a, b *E) *E               { return &E{K: "and", A: []*E{a, b}} }
func Or(a, b *E) *E                { return &E{K: "or", A: []*E{a, b}} }
func Not(a *E) *E                  { return &E{K: "not", A: []*E{a}} }
func Par(a *E) *E                  { return &E{K: "par", A: []*E{a}} }
func Neg(a *E) *E                  { return &E{K: "neg", A: []*E{a}} }
func Tilde(a *E) *E                { return &E{K: "tilde", A: []*E{a}} }
func Tilde2(a *E) *E               { return &E{K: "tilde2", A: []*E{a}} }
func Bang(a *E) *E                 { return &E{K: "bang", A: []*E{a}} }
func Is(op string, a *E) *E        { return &E{K: "is", Op: op, A: []*E{a}} }
func Raw(s string) *E              { return &E{K: "raw", S: s} }
func Call(name string, a ...*E) *E { return &E{K: "call", S: name, A: a} }
func QCall(q, name string, a ...*E) *E {
	return &E{K: "call", S: name, Op: q, A: a}
}
func In(not bool, x *E, list ...*E) *E {
	return &E{K: "in", Not: not, A: append([]*E{x}, list...)}
}
func InSub(x *E, tab, col string, where *E) *E {
	e := &E{K: "insub", S: tab, Op: col, A: []*E{x}}
	if where != nil {
		e.A = append(e.A, where)
	}
	return e
}
func Between(not bool, x, lo, hi *E) *E { return &E{K: "btw", Not: not, A: []*E{x, lo, hi}} }
func Like(not bool, x *E, pat string) *E {
	return &E{K: "like", Not: not, A: []*E{x, Str(pat)}}
}
func Case(whenThen []*E, els *E) *E {
	e := &E{K: "case", A: append([]*E{}, whenThen...)}
	if els != nil {
		e.A = append(e.A, els)
		e.B = true
	}
	return e
}

// Depth of the tree; Ops counts operator (non-leaf, non-paren) nodes.
func (e *E) Depth() int {
	d := 0
	for _, a := range e.A {
		if x := a.Depth(); x > d {
			d = x
		}
	}
	return d + 1
}

func (e *E) Ops() int {
	n := 0
	switch e.K {
	case "col", "num", "str", "bool", "null", "par", "raw":
	default:
		n = 1
	}
	for _, a := range e.A {
		n += a.Ops()
	}
	return n
}

// Walk visits every node.
func (e *E) Walk(f func(*E)) {
	f(e)
	for _, a := range e.A {
		a.Walk(f)
	}
}

// Kinds returns the set of node kinds / operator labels used (for evidence labels).
func (e *E) Kinds() []string {
	seen := map[string]bool{}
	var out []string
	e.Walk(func(x *E) {
		l := x.K
		switch x.K {
		case "bin", "cmp", "is":
			l = x.K + ":" + x.Op
		case "in", "btw", "like":
			if x.Not {
				l = "not" + x.K
			}
		case "col", "num", "str", "bool", "null", "par":
			return
		}
		if !seen[l] {
			seen[l] = true
			out = append(out, l)
		}
	})
	return out
}

// ------------------------------------------------------------------------------------------------
// Rendering

// Style controls identifier quoting and array spelling.
type Style struct {
	Ident  string          // "" (bare where possible, backtick otherwise), "bt" (always backtick), "dq" (always double quotes)
	BT     map[string]bool // with Ident "dq": names written between backticks all the same
	Arrays string          // "" => ARRAY(...), "br" => [...]
	Quote  string          // "" => a quote inside a string literal is doubled (''), "bs" => it is backslash-escaped (\')
}

// NumLit renders a float64 as a SQL numeric literal the engine reads back exactly.
func NumLit(n float64) string {
	s := strconv.FormatFloat(n, 'f', -1, 64)
	if n < 0 || (n == 0 && math.Signbit(n)) {
		return "(" + s + ")"
	}
	return s
}

// StrLit renders a Go string as a single-quoted SQL literal for the library's (Vitess/MySQL)
// tokenizer: backslash and quote are escaped; NUL, newline etc. are written through escapes the
// tokenizer decodes back to the same byte.
func StrLit(s string) string {
	var sb strings.Builder
	sb.WriteByte('\'')
	for i := 0; i < len(s); i++ {
		c := s[i]
		switch c {
		case '\'':
			sb.WriteString("''")
		case '\\':
			sb.WriteString("\\\\")
		case 0:
			sb.WriteString("\\0")
		case '\n':
			sb.WriteString("\\n")
		case '\r':
			sb.WriteString("\\r")
		case '\t':
			sb.WriteString("\\t")
		case 26:
			sb.WriteString("\\Z")
		default:
			sb.WriteByte(c)
		}
	}
	sb.WriteByte('\'')
	return sb.String()
}

// BareOK: the name can be written without quotes.
func BareOK(s string) bool { return bareOK(s) }

func bareOK(s string) bool {
	if s == "" {
		return false
	}
	for i, r := range s {
		if r == '_' || unicode.IsLetter(r) && r < 128 || (i > 0 && r >= '0' && r <= '9') {
			continue
		}
		return false
	}
	return true
}

// Ident renders a column path / table path / alias.
func Ident(path string, st *Style) string {
	style := ""
	if st != nil {
		style = st.Ident
	}
	if style == "dq" && (st.BT[path] || strings.HasSuffix(path, `\`)) {
		// written between backticks although the statement uses double quotes elsewhere (a name ending in a
		// backslash has no double-quoted spelling: \" is the escaped quote)
		style = "bt"
	}
	switch style {
	case "dq":
		// a double quote inside a double-quoted identifier is written \" (PostgresEscapingDialect)
		return `"` + strings.ReplaceAll(path, `"`, `\"`) + `"`
	case "bt":
		return "`" + path + "`"
	}
	segs := strings.Split(path, ".")
	if len(segs) <= 2 {
		ok := true
		for _, s := range segs {
			if !bareOK(s) {
				ok = false
			}
		}
		if ok {
			return path
		}
	}
	return "`" + path + "`"
}

func Render(e *E, st *Style) string {
	switch e.K {
	case "col":
		return Ident(e.S, st)
	case "num":
		return NumLit(e.N)
	case "str":
		if st != nil && st.Quote == "bs" {
			inner := StrLit(e.S)
			return "'" + strings.ReplaceAll(inner[1:len(inner)-1], "''", "\\'") + "'"
		}
		return StrLit(e.S)
	case "bool":
		if e.B {
			return "TRUE"
		}
		return "FALSE"
	case "null":
		return "NULL"
	case "raw":
		return e.S
	case "bin":
		return "(" + Render(e.A[0], st) + " " + e.Op + " " + Render(e.A[1], st) + ")"
	case "cmp":
		// "=?" is an equality that is only used as the direct condition of a CASE WHEN or as a WHERE conjunct:
		// with a NULL operand it is not true (false and NULL are the same there); it is written "="
		return "(" + Render(e.A[0], st) + " " + strings.TrimSuffix(e.Op, "?") + " " + Render(e.A[1], st) + ")"
	case "and":
		return "(" + Render(e.A[0], st) + " AND " + Render(e.A[1], st) + ")"
	case "or":
		return "(" + Render(e.A[0], st) + " OR " + Render(e.A[1], st) + ")"
	case "not":
		return "(NOT " + Render(e.A[0], st) + ")"
	case "par":
		return "(" + Render(e.A[0], st) + ")"
	case "neg":
		return "(- " + Render(e.A[0], st) + ")"
	case "tilde":
		return "(~ " + Render(e.A[0], st) + ")"
	case "tilde2":
		return "(~ (~ " + Render(e.A[0], st) + "))"
	case "bang":
		return "(! " + Render(e.A[0], st) + ")"
	case "in":
		parts := make([]string, 0, len(e.A)-1)
		for _, a := range e.A[1:] {
			parts = append(parts, Render(a, st))
		}
		kw := " IN ("
		if e.Not {
			kw = " NOT IN ("
		}
		return "(" + Render(e.A[0], st) + kw + strings.Join(parts, ", ") + "))"
	case "insub":
		s := "(" + Render(e.A[0], st) + " IN (SELECT " + Ident(e.Op, st) + " FROM " + Ident("<-"+e.S, &Style{Ident: quoteStyleFor(st)})
		if len(e.A) > 1 {
			s += " WHERE " + Render(e.A[1], st)
		}
		return s + "))"
	case "btw":
		kw := " BETWEEN "
		if e.Not {
			kw = " NOT BETWEEN "
		}
		return "(" + Render(e.A[0], st) + kw + Render(e.A[1], st) + " AND " + Render(e.A[2], st) + ")"
	case "like":
		kw := " LIKE "
		if e.Not {
			kw = " NOT LIKE "
		}
		return "(" + Render(e.A[0], st) + kw + Render(e.A[1], st) + ")"
	case "is":
		m := map[string]string{"null": "NULL", "notnull": "NOT NULL", "true": "TRUE", "false": "FALSE", "nottrue": "NOT TRUE", "notfalse": "NOT FALSE"}
		return "(" + Render(e.A[0], st) + " IS " + m[e.Op] + ")"
	case "case":
		var sb strings.Builder
		sb.WriteString("CASE")
		n := len(e.A)
		if e.B {
			n--
		}
		for i := 0; i+1 < n; i += 2 {
			sb.WriteString(" WHEN " + Render(e.A[i], st) + " THEN " + Render(e.A[i+1], st))
		}
		if e.B {
			sb.WriteString(" ELSE " + Render(e.A[len(e.A)-1], st))
		}
		sb.WriteString(" END")
		return sb.String()
	case "call":
		parts := make([]string, 0, len(e.A))
		for _, a := range e.A {
			parts = append(parts, Render(a, st))
		}
		name := e.S
		if e.Op != "" {
			name = e.Op + "." + name
		}
		if st != nil && st.Arrays == "br" && strings.EqualFold(e.S, "ARRAY") && e.Op == "" {
			return "[" + strings.Join(parts, ", ") + "]"
		}
		return name + "(" + strings.Join(parts, ", ") + ")"
	}
	panic("sq.Render: unknown kind " + e.K)
}

func quoteStyleFor(st *Style) string {
	if st != nil && st.Ident == "dq" {
		return "dq"
	}
	return "bt"
}

// ------------------------------------------------------------------------------------------------
// Reference evaluation

// Env gives the evaluator access to the enclosing document (for `<-tab` subqueries) and to
// reference implementations of functions.
type Env struct {
	Doc   map[string]any
	Funcs map[string]func(args []any) (any, error)
	// UnsignedTilde selects MySQL's unsigned 64-bit reading of ~ instead of two's complement.
	UnsignedTilde bool
	// TildeRound: ~ converts a fractional operand to an integer by rounding (MySQL) instead of truncating.
	TildeRound bool
}

// ErrUnspecified is returned when the tree leaves the domain on which the property fixes a meaning
// (e.g. NULL reaching a comparison). Generators are built not to produce such trees; a check that
// sees this error discards the case and counts the discard.
type ErrUnspecified struct{ Why string }

func (e *ErrUnspecified) Error() string { return "unspecified: " + e.Why }

func unspec(format string, a ...any) error { return &ErrUnspecified{Why: fmt.Sprintf(format, a...)} }

// Lookup resolves a dotted path on a row: objects are descended, a missing key (or a step through a
// NULL) yields NULL.
func Lookup(row any, path string) (any, error) {
	return lookupSegs(row, strings.Split(path, "."), path)
}

// lookupSegs: a key descends an object; over an array the rest of the path is applied to every element
// ("a.b descends objects and maps over arrays"); a missing key or a NULL on the way is NULL.
func lookupSegs(cur any, segs []string, path string) (any, error) {
	if len(segs) == 0 {
		return cur, nil
	}
	switch t := cur.(type) {
	case nil:
		return nil, nil
	case map[string]any:
		v, ok := t[segs[0]]
		if !ok {
			return nil, nil
		}
		return lookupSegs(v, segs[1:], path)
	case []any:
		out := make([]any, len(t))
		for i, el := range t {
			if _, ok := el.(map[string]any); !ok {
				return nil, unspec("path %q steps through an array holding %T", path, el)
			}
			v, err := lookupSegs(el, segs, path)
			if err != nil {
				return nil, err
			}
			out[i] = v
		}
		return out, nil
	}
	return nil, unspec("path %q steps through %T", path, cur)
}

// CompareScalars orders two non-NULL scalars of the same kind. ok=false when kinds differ or the
// kind has no order in the property statement.
func CompareScalars(a, b any) (int, bool) {
	switch x := a.(type) {
	case float64:
		y, ok := b.(float64)
		if !ok {
			return 0, false
		}
		switch {
		case x < y:
			return -1, true
		case x > y:
			return 1, true
		}
		return 0, true
	case string:
		y, ok := b.(string)
		if !ok {
			return 0, false
		}
		return strings.Compare(x, y), true
	}
	return 0, false
}

// ScalarEq is equality of two non-NULL scalars of the same kind (bool included).
func ScalarEq(a, b any) (bool, bool) {
	if x, ok := a.(bool); ok {
		y, ok := b.(bool)
		return x == y, ok
	}
	c, ok := CompareScalars(a, b)
	return c == 0, ok
}

// LikeMatch implements the property's LIKE: % = any sequence, _ = exactly one character, everything
// else literal, case-insensitive.
func LikeMatch(s, pat string) bool {
	sr := []rune(strings.ToLower(s))
	pr := []rune(strings.ToLower(pat))
	// classic two-pointer wildcard match
	si, pi := 0, 0
	star, mark := -1, 0
	for si < len(sr) {
		if pi < len(pr) && pr[pi] == '%' {
			star = pi
			mark = si
			pi++
			continue
		}
		if pi < len(pr) && (pr[pi] == '_' || pr[pi] == sr[si]) {
			si++
			pi++
			continue
		}
		if star >= 0 {
			pi = star + 1
			mark++
			si = mark
			continue
		}
		return false
	}
	for pi < len(pr) && pr[pi] == '%' {
		pi++
	}
	return pi == len(pr)
}

func asBool(v any, what string) (bool, error) {
	b, ok := v.(bool)
	if !ok {
		return false, unspec("%s is %T, not boolean", what, v)
	}
	return b, nil
}

func isInt(f float64) bool { return f == math.Trunc(f) && math.Abs(f) < (1<<53) }

// Eval computes the ordinary meaning of e on row.
func Eval(e *E, row map[string]any, env *Env) (any, error) {
	switch e.K {
	case "col":
		return Lookup(row, e.S)
	case "num":
		return e.N, nil
	case "str":
		return e.S, nil
	case "bool":
		return e.B, nil
	case "null":
		return nil, nil
	case "par":
		return Eval(e.A[0], row, env)
	case "bin":
		l, err := Eval(e.A[0], row, env)
		if err != nil {
			return nil, err
		}
		r, err := Eval(e.A[1], row, env)
		if err != nil {
			return nil, err
		}
		for _, o := range []any{l, r} {
			switch o.(type) {
			case []any, map[string]any:
				// arithmetic on an array or object is no "ordinary meaning" the statement fixes, whatever the other operand
				return nil, unspec("arithmetic on %T and %T", l, r)
			}
		}
		if l == nil || r == nil {
			return nil, nil
		}
		x, ok1 := l.(float64)
		y, ok2 := r.(float64)
		if !ok1 || !ok2 {
			return nil, unspec("arithmetic on %T and %T", l, r)
		}
		switch e.Op {
		case "+":
			return x + y, nil
		case "-":
			return x - y, nil
		case "*":
			return x * y, nil
		case "/":
			if y == 0 {
				return nil, unspec("division by zero")
			}
			return x / y, nil
		case "%":
			if y == 0 {
				return nil, unspec("modulo by zero")
			}
			return math.Mod(x, y), nil
		case "DIV":
			if y == 0 {
				return nil, unspec("DIV by zero")
			}
			if !isInt(x) || !isInt(y) {
				return nil, unspec("DIV on fractional operands")
			}
			return float64(int64(x) / int64(y)), nil
		case "&", "|", "^", "<<", ">>":
			if !isInt(x) || !isInt(y) || x < 0 || y < 0 {
				return nil, unspec("bitwise operator on negative/fractional operands")
			}
			a, b := int64(x), int64(y)
			switch e.Op {
			case "&":
				return float64(a & b), nil
			case "|":
				return float64(a | b), nil
			case "^":
				return float64(a ^ b), nil
			case "<<":
				if b > 20 || a >= (1<<41) {
					return nil, unspec("shift too large")
				}
				return float64(a << uint(b)), nil
			default:
				if b > 62 {
					return nil, unspec("shift too large")
				}
				return float64(a >> uint(b)), nil
			}
		}
		return nil, fmt.Errorf("sq.Eval: unknown binary op %q", e.Op)
	case "neg":
		v, err := Eval(e.A[0], row, env)
		if err != nil {
			return nil, err
		}
		x, ok := v.(float64)
		if !ok {
			return nil, unspec("unary minus on %T", v)
		}
		return -x, nil
	case "tilde":
		v, err := Eval(e.A[0], row, env)
		if err != nil {
			return nil, err
		}
		x, ok := v.(float64)
		if !ok || !isInt(x) {
			return nil, unspec("~ on %v", v)
		}
		if env != nil && env.UnsignedTilde {
			return float64(^uint64(int64(x))), nil
		}
		return float64(^int64(x)), nil
	case "tilde2":
		// ~ applied to ~: the complement is taken of the integer the operand converts to, so the double
		// complement is that integer - the truncated operand, or (MySQL) the rounded one; independent of the
		// signed / unsigned reading
		v, err := Eval(e.A[0], row, env)
		if err != nil {
			return nil, err
		}
		x, ok := v.(float64)
		if !ok || math.IsNaN(x) || math.Abs(x) >= 1<<52 {
			return nil, unspec("~~ on %v", v)
		}
		if env != nil && env.TildeRound {
			return math.Round(x), nil
		}
		return math.Trunc(x), nil
	case "bang", "not":
		v, err := Eval(e.A[0], row, env)
		if err != nil {
			return nil, err
		}
		b, err := asBool(v, e.K+" operand")
		if err != nil {
			return nil, err
		}
		return !b, nil
	case "and", "or":
		l, err := Eval(e.A[0], row, env)
		if err != nil {
			return nil, err
		}
		r, err := Eval(e.A[1], row, env)
		if err != nil {
			return nil, err
		}
		lb, err := asBool(l, "left operand")
		if err != nil {
			return nil, err
		}
		rb, err := asBool(r, "right operand")
		if err != nil {
			return nil, err
		}
		if e.K == "and" {
			return lb && rb, nil
		}
		return lb || rb, nil
	case "cmp":
		l, err := Eval(e.A[0], row, env)
		if err != nil {
			return nil, err
		}
		r, err := Eval(e.A[1], row, env)
		if err != nil {
			return nil, err
		}
		if (l == nil || r == nil) && e.Op == "=?" {
			return false, nil
		}
		if l == nil || r == nil {
			return nil, unspec("NULL in comparison")
		}
		switch e.Op {
		case "=?":
			eq, ok := ScalarEq(l, r)
			if !ok {
				return nil, unspec("comparison of %T with %T", l, r)
			}
			return eq, nil
		case "=", "!=", "<>":
			eq, ok := ScalarEq(l, r)
			if !ok {
				return nil, unspec("comparison of %T with %T", l, r)
			}
			return eq == (e.Op == "="), nil
		}
		c, ok := CompareScalars(l, r)
		if !ok {
			return nil, unspec("ordering of %T with %T", l, r)
		}
		switch e.Op {
		case "<":
			return c < 0, nil
		case "<=":
			return c <= 0, nil
		case ">":
			return c > 0, nil
		case ">=":
			return c >= 0, nil
		}
		return nil, fmt.Errorf("sq.Eval: unknown comparison %q", e.Op)
	case "in":
		x, err := Eval(e.A[0], row, env)
		if err != nil {
			return nil, err
		}
		if x == nil {
			return nil, unspec("NULL IN")
		}
		found := false
		for _, a := range e.A[1:] {
			v, err := Eval(a, row, env)
			if err != nil {
				return nil, err
			}
			if v == nil {
				return nil, unspec("NULL in IN list")
			}
			eq, ok := ScalarEq(x, v)
			if !ok {
				return nil, unspec("IN over mixed kinds")
			}
			if eq {
				found = true
			}
		}
		return found != e.Not, nil
	case "insub":
		x, err := Eval(e.A[0], row, env)
		if err != nil {
			return nil, err
		}
		if x == nil {
			return nil, unspec("NULL IN subquery")
		}
		if env == nil || env.Doc == nil {
			return nil, fmt.Errorf("sq.Eval: insub without document")
		}
		tab, _ := env.Doc[e.S].([]any)
		found := false
		for _, r := range tab {
			rm, ok := r.(map[string]any)
			if !ok {
				return nil, unspec("subquery row is %T", r)
			}
			if len(e.A) > 1 {
				keep, err := Eval(e.A[1], rm, env)
				if err != nil {
					return nil, err
				}
				kb, err := asBool(keep, "subquery WHERE")
				if err != nil {
					return nil, err
				}
				if !kb {
					continue
				}
			}
			v, err := Lookup(rm, e.Op)
			if err != nil {
				return nil, err
			}
			if v == nil {
				return nil, unspec("NULL produced by IN subquery")
			}
			eq, ok := ScalarEq(x, v)
			if !ok {
				return nil, unspec("IN subquery over mixed kinds")
			}
			if eq {
				found = true
			}
		}
		return found, nil
	case "btw":
		x, err := Eval(e.A[0], row, env)
		if err != nil {
			return nil, err
		}
		lo, err := Eval(e.A[1], row, env)
		if err != nil {
			return nil, err
		}
		hi, err := Eval(e.A[2], row, env)
		if err != nil {
			return nil, err
		}
		if x == nil || lo == nil || hi == nil {
			return nil, unspec("NULL in BETWEEN")
		}
		c1, ok1 := CompareScalars(x, lo)
		c2, ok2 := CompareScalars(x, hi)
		if !ok1 || !ok2 {
			return nil, unspec("BETWEEN over mixed kinds")
		}
		in := c1 >= 0 && c2 <= 0
		return in != e.Not, nil
	case "like":
		x, err := Eval(e.A[0], row, env)
		if err != nil {
			return nil, err
		}
		s, ok := x.(string)
		if !ok {
			return nil, unspec("LIKE on %T", x)
		}
		return LikeMatch(s, e.A[1].S) != e.Not, nil
	case "is":
		x, err := Eval(e.A[0], row, env)
		if err != nil {
			return nil, err
		}
		switch e.Op {
		case "null":
			return x == nil, nil
		case "notnull":
			return x != nil, nil
		}
		b, ok := x.(bool)
		if !ok {
			return nil, unspec("IS TRUE/FALSE on %T", x)
		}
		switch e.Op {
		case "true", "notfalse":
			return b, nil
		case "false", "nottrue":
			return !b, nil
		}
		return nil, fmt.Errorf("sq.Eval: unknown IS op %q", e.Op)
	case "case":
		n := len(e.A)
		if e.B {
			n--
		}
		for i := 0; i+1 < n; i += 2 {
			c, err := Eval(e.A[i], row, env)
			if err != nil {
				return nil, err
			}
			cb, err := asBool(c, "CASE condition")
			if err != nil {
				return nil, err
			}
			if cb {
				return Eval(e.A[i+1], row, env)
			}
		}
		if e.B {
			return Eval(e.A[len(e.A)-1], row, env)
		}
		return nil, nil
	case "call":
		if env == nil || env.Funcs == nil {
			return nil, fmt.Errorf("sq.Eval: no reference for function %s", e.S)
		}
		f, ok := env.Funcs[strings.ToLower(e.S)]
		if !ok {
			return nil, fmt.Errorf("sq.Eval: no reference for function %s", e.S)
		}
		args := make([]any, len(e.A))
		for i, a := range e.A {
			v, err := Eval(a, row, env)
			if err != nil {
				return nil, err
			}
			args[i] = v
		}
		return f(args)
	}
	return nil, fmt.Errorf("sq.Eval: unknown kind %q", e.K)
}

// EvalBool evaluates a predicate.
func EvalBool(e *E, row map[string]any, env *Env) (bool, error) {
	v, err := Eval(e, row, env)
	if err != nil {
		return false, err
	}
	return asBool(v, "predicate")
}

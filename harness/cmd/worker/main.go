// worker executes engine cases in a child process so that fatal runtime errors (stack overflow,
// unrecovered goroutine panics, deadlocks, concurrent map access) are observed as process deaths by
// the harness instead of killing the test binary.
package main

import (
	"verifharness/checks"
)

func main() { checks.WorkerMain() }

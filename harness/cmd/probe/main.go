// probe runs queries against a JSON document: probe [-w] [-pg] [-arr] '<doc json>' '<sql>' ['<sql>' ...]
package main

import (
	"encoding/json"
	"flag"
	"fmt"
	"os"

	"github.com/vedadiyan/genql"
)

func main() {
	w := flag.Bool("w", false, "Wrapped")
	pg := flag.Bool("pg", false, "PostgresEscapingDialect")
	arr := flag.Bool("arr", false, "IdomaticArrays")
	sel := flag.Bool("sel", false, "treat the remaining args as selectors for ExecReader")
	flag.Parse()
	args := flag.Args()
	if len(args) < 2 {
		fmt.Println("usage")
		os.Exit(2)
	}
	for _, q := range args[1:] {
		var doc map[string]any
		if err := json.Unmarshal([]byte(args[0]), &doc); err != nil {
			fmt.Println("bad doc:", err)
			os.Exit(2)
		}
		func() {
			defer func() {
				if r := recover(); r != nil {
					fmt.Printf("%s\n  PANIC: %v\n", q, r)
				}
			}()
			if *sel {
				v, err := genql.ExecReader(doc, q)
				b, _ := json.Marshal(v)
				fmt.Printf("%s\n  => %s err=%v\n", q, b, err)
				return
			}
			var opts []genql.QueryOption
			if *w {
				opts = append(opts, genql.Wrapped())
			}
			if *pg {
				opts = append(opts, genql.PostgresEscapingDialect())
			}
			if *arr {
				opts = append(opts, genql.IdomaticArrays())
			}
			qq, err := genql.New(doc, q, opts...)
			if err != nil {
				fmt.Printf("%s\n  New error: %v\n", q, err)
				return
			}
			rows, err := qq.Exec()
			b, merr := json.Marshal(rows)
			fmt.Printf("%s\n  => %s err=%v marshalErr=%v\n", q, b, err, merr)
			d, _ := json.Marshal(doc)
			if string(d) != args[0] {
				fmt.Printf("  doc after: %s\n", d)
			}
		}()
	}
}

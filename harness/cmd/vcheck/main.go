// vcheck is the driver behind every MANIFEST command:
//
//	vcheck -prop C01 [-tier quick|thorough]        run the check, write evidence/C01.json
//	vcheck -prop C01 -replay replay/C01/<hash>.json  re-run one saved case without rapid
//
// It rebuilds the test binary from /repo's current working tree (harness/go.mod replaces
// github.com/vedadiyan/genql by /repo), runs one or more shards with seeds derived from
// VERIF_SEED, merges their statistics into evidence/<id>.json and prints
//
//	VIOLATION property=<id> replay=<path>      (exit 1)
//	KNOWN-FINDING: property=<id> <what fails>  (exit 0 unless there is also an unlisted violation)
//
// Exit 2 means inconclusive (build failure, harness error, timeout): never a violation.
package main

import (
	"bytes"
	"context"
	"crypto/sha256"
	"encoding/hex"
	"encoding/json"
	"flag"
	"fmt"
	"os"
	"os/exec"
	"path/filepath"
	"sort"
	"strconv"
	"strings"
	"sync"
	"syscall"
	"time"
)

type propMeta struct {
	ID           string   `json:"id"`
	Title        string   `json:"title"`
	Level        string   `json:"level"`
	Rule         string   `json:"rule"`
	Assumptions  []string `json:"assumptions"`
	Quick        int      `json:"quick"`
	Thorough     int      `json:"thorough"`
	Shards       int      `json:"shards"`
	Race         bool     `json:"race"`
	RaceQuick    int      `json:"race_quick"`
	RaceThorough int      `json:"race_thorough"`
	Exhaustive   bool     `json:"exhaustive"`
	HasGen       bool     `json:"has_gen"`
	FuzzTargets  []string `json:"fuzz_targets"`
	FuzzSeconds  int      `json:"fuzz_seconds"`
	RaceWorker   bool     `json:"race_worker"`
}

type stats struct {
	Prop         string            `json:"prop"`
	Evaluations  int               `json:"evaluations"`
	EngineExecs  int               `json:"engine_execs"`
	NonTrivial   int               `json:"nontrivial"`
	Discards     int               `json:"discards"`
	DiscardWhy   map[string]int    `json:"discard_why"`
	Labels       map[string]int    `json:"labels"`
	KnownRouted  map[string]int    `json:"known_routed"`
	KnownFailed  map[string]int    `json:"known_failed"`
	KnownExample map[string]string `json:"known_example"`
	Hashes       []string          `json:"hashes"`
	Samples      []json.RawMessage `json:"samples"`
	CorpusCases  int               `json:"corpus_cases"`
	Violations   int               `json:"violations"`
	Extra        map[string]any    `json:"extra"`
}

type shardResult struct {
	idx      int
	race     bool
	seed     uint64
	checks   int
	exit     int
	timedOut bool
	output   string
	stats    *stats
	runDir   string
	wall     float64
}

var (
	root    string
	harness string
	build   string
)

func goEnv() []string {
	env := os.Environ()
	env = append(env, "GOFLAGS=-mod=mod", "GOPROXY=off", "GOSUMDB=off", "GOTOOLCHAIN=local", "GONOSUMDB=*", "GONOSUMCHECK=1")
	return env
}

// modfileArgs: VERIF_REPO=<dir> builds the harness against another copy of the library (used for
// background runs on a snapshot and by the seeded-defect tooling); the registered MANIFEST commands
// never set it and therefore always build from /repo's current working tree.
func modfileArgs() []string {
	alt := os.Getenv("VERIF_REPO")
	if alt == "" {
		return nil
	}
	b, err := os.ReadFile(filepath.Join(harness, "go.mod"))
	if err != nil {
		fail2("reading go.mod: %v", err)
	}
	mod := strings.Replace(string(b), "=> /repo", "=> "+alt, 1)
	dst := filepath.Join(build, fmt.Sprintf("alt.%d.mod", os.Getpid()))
	if err := os.WriteFile(dst, []byte(mod), 0o644); err != nil {
		fail2("writing %s: %v", dst, err)
	}
	if sum, err := os.ReadFile(filepath.Join(harness, "go.sum")); err == nil {
		os.WriteFile(strings.TrimSuffix(dst, ".mod")+".sum", sum, 0o644)
	}
	return []string{"-modfile=" + dst}
}

func fail2(format string, a ...any) {
	fmt.Fprintf(os.Stderr, "vcheck: INCONCLUSIVE: "+format+"\n", a...)
	os.Exit(2)
}

func findRoot() string {
	if r := os.Getenv("VERIF_ROOT"); r != "" {
		return r
	}
	exe, err := os.Executable()
	if err == nil {
		d := filepath.Dir(filepath.Dir(exe))
		if _, err := os.Stat(filepath.Join(d, "harness", "go.mod")); err == nil {
			return d
		}
	}
	wd, _ := os.Getwd()
	for d := wd; d != "/"; d = filepath.Dir(d) {
		if _, err := os.Stat(filepath.Join(d, "harness", "go.mod")); err == nil {
			return d
		}
	}
	return "/verif"
}

var buildMu sync.Mutex

func buildBinary(race bool) string {
	buildMu.Lock()
	defer buildMu.Unlock()
	name := "checks.test"
	args := append([]string{"test", "-c", "-vet=off"}, modfileArgs()...)
	if race {
		name = "checks.race.test"
		args = append(args, "-race")
	}
	out := filepath.Join(build, name)
	args = append(args, "-o", out, "./checks")
	// a lock file serialises concurrent vcheck processes building the same binary
	lock, err := os.OpenFile(filepath.Join(build, name+".lock"), os.O_CREATE|os.O_RDWR, 0o644)
	if err == nil {
		_ = syscall.Flock(int(lock.Fd()), syscall.LOCK_EX)
		defer func() { _ = syscall.Flock(int(lock.Fd()), syscall.LOCK_UN); lock.Close() }()
	}
	// private copy per process so that a concurrent rebuild cannot swap the binary under a running shard
	cmd := exec.Command("go", args...)
	cmd.Dir = harness
	cmd.Env = goEnv()
	var buf bytes.Buffer
	cmd.Stdout, cmd.Stderr = &buf, &buf
	if err := cmd.Run(); err != nil {
		fail2("building the test binary from /repo's working tree failed: %v\n%s", err, buf.String())
	}
	private := filepath.Join(build, fmt.Sprintf("%s.%d", name, os.Getpid()))
	if err := copyFile(out, private); err != nil {
		fail2("copying test binary: %v", err)
	}
	return private
}

func copyFile(src, dst string) error {
	b, err := os.ReadFile(src)
	if err != nil {
		return err
	}
	return os.WriteFile(dst, b, 0o755)
}

func describe(bin string) map[string]*propMeta {
	f := filepath.Join(build, fmt.Sprintf("describe.%d.json", os.Getpid()))
	defer os.Remove(f)
	cmd := exec.Command(bin, "-test.run", "^TestDescribe$")
	cmd.Env = append(os.Environ(), "VERIF_DESCRIBE="+f)
	cmd.Dir = build
	if out, err := cmd.CombinedOutput(); err != nil {
		fail2("describe failed: %v\n%s", err, out)
	}
	b, err := os.ReadFile(f)
	if err != nil {
		fail2("describe: %v", err)
	}
	var list []*propMeta
	if err := json.Unmarshal(b, &list); err != nil {
		fail2("describe: %v", err)
	}
	m := map[string]*propMeta{}
	for _, p := range list {
		m[p.ID] = p
	}
	return m
}

func rapidSeed(base uint64, shard int) uint64 {
	s := base
	if shard > 0 {
		s = base*1000 + uint64(shard)
	}
	return s%(1<<62) + 1
}

func runShard(bin string, id string, sr *shardResult, timeout time.Duration, extraEnv []string) {
	start := time.Now()
	runDir := filepath.Join(build, "run", id, fmt.Sprintf("%d.%d", os.Getpid(), sr.idx))
	os.RemoveAll(runDir)
	os.MkdirAll(runDir, 0o755)
	sr.runDir = runDir
	statsFile := filepath.Join(runDir, "stats.json")
	args := []string{"-test.run", "^TestProp$", "-test.timeout", "0", "-test.count", "1",
		"-rapid.checks", strconv.Itoa(sr.checks), "-rapid.seed", strconv.FormatUint(sr.seed, 10), "-rapid.shrinktime", "20s"}
	ctx, cancel := context.WithTimeout(context.Background(), timeout)
	defer cancel()
	cmd := exec.CommandContext(ctx, bin, args...)
	cmd.Dir = runDir
	cmd.Env = append(os.Environ(),
		"VERIF_PROP="+id,
		"VERIF_STATS="+statsFile,
		"VERIF_REPLAY_DIR="+filepath.Join(runDir, "replay"),
		"VERIF_KNOWN="+filepath.Join(root, "KNOWN_FINDINGS.txt"),
		"VERIF_CORPUS="+filepath.Join(root, "corpus"),
		"VERIF_ROOT="+root,
		"VERIF_WORKER="+filepath.Join(build, "worker"),
		"GORACE=halt_on_error=1 exitcode=66",
	)
	cmd.Env = append(cmd.Env, extraEnv...)
	var buf bytes.Buffer
	cmd.Stdout, cmd.Stderr = &buf, &buf
	cmd.SysProcAttr = &syscall.SysProcAttr{Setpgid: true}
	cmd.Cancel = func() error { return syscall.Kill(-cmd.Process.Pid, syscall.SIGKILL) }
	err := cmd.Run()
	sr.output = buf.String()
	sr.wall = time.Since(start).Seconds()
	if ctx.Err() == context.DeadlineExceeded {
		sr.timedOut = true
	}
	if err != nil {
		if ee, ok := err.(*exec.ExitError); ok {
			sr.exit = ee.ExitCode()
			if sr.exit < 0 {
				sr.exit = 128
			}
		} else {
			sr.exit = 127
		}
	}
	if b, err := os.ReadFile(statsFile); err == nil {
		var st stats
		if json.Unmarshal(b, &st) == nil {
			sr.stats = &st
		}
	}
	os.WriteFile(filepath.Join(runDir, "output.log"), buf.Bytes(), 0o644)
}

func saveReplay(id string, src string) string {
	b, err := os.ReadFile(src)
	if err != nil {
		return src
	}
	h := sha256.Sum256(b)
	dir := filepath.Join(root, "replay", id)
	os.MkdirAll(dir, 0o755)
	dst := filepath.Join(dir, hex.EncodeToString(h[:6])+".json")
	if err := os.WriteFile(dst, b, 0o644); err != nil {
		return src
	}
	return dst
}

func excerpt(out string, marker string, n int) string {
	i := strings.Index(out, marker)
	if i < 0 {
		if len(out) > n {
			return out[len(out)-n:]
		}
		return out
	}
	s := out[i:]
	if len(s) > n {
		s = s[:n]
	}
	return s
}

func main() {
	prop := flag.String("prop", "", "property id")
	tier := flag.String("tier", "", "quick | thorough (default: $VERIF_TIER or quick)")
	replay := flag.String("replay", "", "replay one saved case")
	checksOverride := flag.Int("checks", 0, "override the number of rapid cases per shard")
	shardsOverride := flag.Int("shards", 0, "override the number of shards")
	list := flag.Bool("list", false, "list registered properties")
	keep := flag.Bool("keep", false, "keep run directories")
	flag.Parse()

	root = findRoot()
	harness = filepath.Join(root, "harness")
	build = filepath.Join(root, ".build")
	os.MkdirAll(build, 0o755)

	if *tier == "" {
		*tier = os.Getenv("VERIF_TIER")
	}
	if *tier == "" {
		*tier = "quick"
	}
	if *tier != "quick" && *tier != "thorough" {
		fail2("unknown tier %q", *tier)
	}
	var seed uint64 = 1
	if s := os.Getenv("VERIF_SEED"); s != "" {
		if v, err := strconv.ParseInt(s, 10, 64); err == nil {
			if v < 0 {
				v = -v
			}
			seed = uint64(v)
		} else if v, err := strconv.ParseUint(s, 10, 64); err == nil {
			seed = v
		}
	}

	cleanStale()
	start := time.Now()
	bin := buildBinary(false)
	defer os.Remove(bin)
	metas := describe(bin)
	if *list {
		ids := make([]string, 0, len(metas))
		for id := range metas {
			ids = append(ids, id)
		}
		sort.Strings(ids)
		for _, id := range ids {
			fmt.Printf("%s %s\n", id, metas[id].Title)
		}
		return
	}
	meta := metas[*prop]
	if meta == nil {
		fail2("unknown property %q", *prop)
	}
	id := meta.ID

	// the child-process worker used by crash/hang/race isolation
	buildWorker(meta)

	if *replay != "" {
		path := *replay
		if !filepath.IsAbs(path) {
			if wd, err := os.Getwd(); err == nil {
				path = filepath.Join(wd, path)
			}
		}
		if strings.HasSuffix(path, ".fuzz") {
			os.Exit(replayFuzz(id, path))
		}
		useBin := bin
		if meta.Race {
			useBin = buildBinary(true)
			defer os.Remove(useBin)
		}
		sr := &shardResult{idx: 0, seed: rapidSeed(seed, 0), checks: 1}
		runShard(useBin, id, sr, 10*time.Minute, []string{"VERIF_REPLAY=" + path})
		if !*keep {
			defer os.RemoveAll(sr.runDir)
		}
		switch {
		case sr.exit == 0:
			fmt.Printf("replay %s: property held\n", path)
			os.Exit(0)
		case strings.Contains(sr.output, "HARNESS-ERROR"):
			fmt.Println(excerpt(sr.output, "HARNESS-ERROR", 4000))
			os.Exit(2)
		default:
			fmt.Println(excerpt(sr.output, "VIOLATION-TEXT", 6000))
			fmt.Printf("VIOLATION property=%s replay=%s\n", id, path)
			os.Exit(1)
		}
	}

	// plan shards
	var shards []*shardResult
	n := meta.Quick
	ns := 1
	if *tier == "thorough" {
		n = meta.Thorough
		ns = meta.Shards
	}
	if *checksOverride > 0 {
		n = *checksOverride
	}
	if *shardsOverride > 0 {
		ns = *shardsOverride
	}
	for i := 0; i < ns; i++ {
		shards = append(shards, &shardResult{idx: i, seed: rapidSeed(seed, i), checks: n, race: meta.Race})
	}
	raceN := meta.RaceQuick
	raceShards := 1
	if *tier == "thorough" {
		raceN = meta.RaceThorough
		raceShards = 4
	}
	if raceN > 0 && !meta.Race {
		for i := 0; i < raceShards; i++ {
			shards = append(shards, &shardResult{idx: 100 + i, seed: rapidSeed(seed, 100+i), checks: raceN, race: true})
		}
	}
	var raceBin string
	for _, s := range shards {
		if s.race {
			raceBin = buildBinary(true)
			defer os.Remove(raceBin)
			break
		}
	}
	timeout := 20 * time.Minute
	if *tier == "thorough" {
		timeout = 90 * time.Minute
	}
	if s := os.Getenv("VERIF_TIMEOUT_S"); s != "" {
		if v, err := strconv.Atoi(s); err == nil {
			timeout = time.Duration(v) * time.Second
		}
	}
	var wg sync.WaitGroup
	sem := make(chan struct{}, 16)
	for _, s := range shards {
		wg.Add(1)
		go func(s *shardResult) {
			defer wg.Done()
			sem <- struct{}{}
			defer func() { <-sem }()
			b := bin
			if s.race {
				b = raceBin
			}
			var env []string
			if s.idx > 0 {
				env = append(env, "VERIF_SKIP_CORPUS=1")
			}
			env = append(env, "VERIF_TIER="+*tier)
			runShard(b, id, s, timeout, env)
		}(s)
	}
	wg.Wait()

	// native fuzz campaigns (thorough only)
	var fuzzNotes []map[string]any
	fuzzViolation := ""
	if *tier == "thorough" && len(meta.FuzzTargets) > 0 {
		fuzzNotes, fuzzViolation = runFuzz(meta)
	}

	// merge
	merged := &stats{Prop: id, DiscardWhy: map[string]int{}, Labels: map[string]int{}, KnownRouted: map[string]int{}, KnownFailed: map[string]int{}, KnownExample: map[string]string{}, Extra: map[string]any{}}
	hashes := map[string]struct{}{}
	var violation *shardResult
	var harnessErr, timedOut, died *shardResult
	completed := 0
	for _, s := range shards {
		if s.stats != nil {
			st := s.stats
			merged.Evaluations += st.Evaluations
			merged.EngineExecs += st.EngineExecs
			merged.NonTrivial += st.NonTrivial
			merged.Discards += st.Discards
			merged.CorpusCases += st.CorpusCases
			merged.Violations += st.Violations
			for k, v := range st.DiscardWhy {
				merged.DiscardWhy[k] += v
			}
			for k, v := range st.Labels {
				merged.Labels[k] += v
			}
			for k, v := range st.KnownRouted {
				merged.KnownRouted[k] += v
			}
			for k, v := range st.KnownFailed {
				merged.KnownFailed[k] += v
			}
			for k, v := range st.KnownExample {
				if _, ok := merged.KnownExample[k]; !ok {
					merged.KnownExample[k] = v
				}
			}
			for _, h := range st.Hashes {
				hashes[h] = struct{}{}
			}
			if len(merged.Samples) < 8 {
				for _, sm := range st.Samples {
					if len(merged.Samples) < 8 {
						merged.Samples = append(merged.Samples, sm)
					}
				}
			}
			for k, v := range st.Extra {
				if _, ok := merged.Extra[k]; !ok {
					merged.Extra[k] = v
				} else if f, ok := v.(float64); ok {
					if g, ok := merged.Extra[k].(float64); ok {
						merged.Extra[k] = f + g
					}
				}
			}
		}
		switch {
		case s.exit == 0:
			completed++
		case s.timedOut:
			if timedOut == nil {
				timedOut = s
			}
		case strings.Contains(s.output, "HARNESS-ERROR") || strings.Contains(s.output, "[rapid] panic after"):
			// a panic that reaches rapid comes from the harness (the engine is always called under recover)
			if harnessErr == nil {
				harnessErr = s
			}
		case strings.Contains(s.output, "VIOLATION-TEXT"):
			if violation == nil {
				violation = s
			}
		default:
			if died == nil {
				died = s
			}
		}
	}

	wall := time.Since(start).Seconds()
	violations := 0
	replayPath := ""
	if violation != nil {
		violations = 1
		last := filepath.Join(violation.runDir, "replay", "last.json")
		replayPath = saveReplay(id, last)
		// keep rapid's own fail file next to it as the second replay artefact
		if ff, _ := filepath.Glob(filepath.Join(violation.runDir, "testdata", "rapid", "*", "*.fail")); len(ff) > 0 {
			if b, err := os.ReadFile(ff[0]); err == nil {
				os.WriteFile(strings.TrimSuffix(replayPath, ".json")+".rapidfail", b, 0o644)
			}
		}
	} else if died != nil {
		// the test binary was killed by a fatal runtime error (stack overflow, unrecovered goroutine
		// panic, concurrent map access, race report): the in-flight case is the reproduction.
		inflight, _ := filepath.Glob(filepath.Join(died.runDir, "replay", "inflight.*.json"))
		if len(inflight) > 0 {
			violations = 1
			replayPath = saveReplay(id, inflight[0])
			os.WriteFile(strings.TrimSuffix(replayPath, ".json")+".crashlog", []byte(tail(died.output, 20000)), 0o644)
		} else {
			harnessErr = died
		}
	}
	if fuzzViolation != "" && violations == 0 {
		violations = 1
		replayPath = fuzzViolation
	}

	// evidence
	samples := make([]any, 0, len(merged.Samples))
	for _, s := range merged.Samples {
		samples = append(samples, s)
	}
	if len(samples) == 0 {
		samples = append(samples, "no non-trivial sample recorded")
	}
	coverage := map[string]any{
		"evaluations":         merged.Evaluations,
		"distinct_nontrivial": len(hashes),
		"nontrivial":          merged.NonTrivial,
		"rule":                meta.Rule,
		"samples":             samples,
		"labels":              merged.Labels,
		"discards":            merged.Discards,
		"discard_reasons":     merged.DiscardWhy,
		"engine_executions":   merged.EngineExecs,
		"corpus_cases":        merged.CorpusCases,
		"known_class_cases":   merged.KnownRouted,
		"known_class_failing": merged.KnownFailed,
		"shards":              len(shards),
		"shards_completed":    completed,
		"cases_requested":     n * ns,
	}
	for k, v := range merged.Extra {
		coverage[k] = v
	}
	if meta.Exhaustive {
		coverage["exhaustive"] = true
	}
	if len(fuzzNotes) > 0 {
		coverage["native_fuzz"] = fuzzNotes
	}
	ev := map[string]any{
		"property_id": id,
		"tier":        *tier,
		"seed":        int64(seed % (1 << 62)),
		"level":       meta.Level,
		"coverage":    coverage,
		"assumptions": meta.Assumptions,
		"wall_s":      wall,
		"violations":  violations,
	}
	evb, _ := json.MarshalIndent(ev, "", " ")
	// the tooling that runs checks against deliberately modified copies of the library (seeded / benign
	// changes) points VERIF_EVIDENCE_DIR at a scratch directory, so that /verif/evidence only ever holds
	// records of runs against /repo itself; the registered commands never set it
	evDir := filepath.Join(root, "evidence")
	if d := os.Getenv("VERIF_EVIDENCE_DIR"); d != "" {
		evDir = d
	}
	os.MkdirAll(evDir, 0o755)
	if err := os.WriteFile(filepath.Join(evDir, id+".json"), evb, 0o644); err != nil {
		fail2("writing evidence: %v", err)
	}

	// report
	known := loadKnown(filepath.Join(root, "KNOWN_FINDINGS.txt"))[id]
	keys := make([]string, 0, len(known))
	for k := range known {
		keys = append(keys, k)
	}
	sort.Strings(keys)
	for _, k := range keys {
		if merged.KnownFailed[k] > 0 {
			fmt.Printf("KNOWN-FINDING: property=%s key=%s %s (failing on %d of %d generated cases of this class; e.g. %s)\n", id, k, known[k], merged.KnownFailed[k], merged.KnownRouted[k], oneLine(merged.KnownExample[k]))
		}
	}
	fmt.Printf("%s %s: %d cases (%d non-trivial, %d distinct non-trivial, %d discarded), %d engine executions, %d/%d shards completed, %.1fs\n",
		id, *tier, merged.Evaluations, merged.NonTrivial, len(hashes), merged.Discards, merged.EngineExecs, completed, len(shards), wall)

	if !*keep {
		for _, s := range shards {
			if s.exit == 0 {
				os.RemoveAll(s.runDir)
			}
		}
	}
	if violations > 0 {
		if violation != nil {
			fmt.Println(excerpt(violation.output, "VIOLATION-TEXT", 6000))
		} else if died != nil {
			fmt.Println("test binary died:\n" + tail(died.output, 3000))
		}
		fmt.Printf("VIOLATION property=%s replay=%s\n", id, replayPath)
		os.Exit(1)
	}
	if harnessErr != nil {
		if strings.Contains(harnessErr.output, "HARNESS-ERROR") {
			fmt.Println(excerpt(harnessErr.output, "HARNESS-ERROR", 6000))
		} else {
			fmt.Println(tail(harnessErr.output, 6000))
		}
		fail2("harness error in shard %d (exit %d)", harnessErr.idx, harnessErr.exit)
	}
	if timedOut != nil {
		fail2("shard %d exceeded its time budget of %s; the cases completed so far held", timedOut.idx, timeout)
	}
	os.Exit(0)
}

// cleanStale removes private binaries / mod files left behind by vcheck processes that were killed.
func cleanStale() {
	entries, err := os.ReadDir(build)
	if err != nil {
		return
	}
	for _, e := range entries {
		name := e.Name()
		var pidStr string
		switch {
		case strings.HasPrefix(name, "checks.test.") || strings.HasPrefix(name, "checks.race.test."):
			pidStr = name[strings.LastIndex(name, ".")+1:]
		case strings.HasPrefix(name, "alt."):
			parts := strings.Split(name, ".")
			if len(parts) == 3 {
				pidStr = parts[1]
			}
		}
		pid, err := strconv.Atoi(pidStr)
		if err != nil || pid <= 0 {
			continue
		}
		if syscall.Kill(pid, 0) != nil {
			os.Remove(filepath.Join(build, name))
		}
	}
}

func tail(s string, n int) string {
	if len(s) > n {
		return s[len(s)-n:]
	}
	return s
}

func oneLine(s string) string {
	s = strings.ReplaceAll(s, "\n", " | ")
	if len(s) > 200 {
		s = s[:200] + "..."
	}
	return s
}

func loadKnown(path string) map[string]map[string]string {
	out := map[string]map[string]string{}
	b, err := os.ReadFile(path)
	if err != nil {
		return out
	}
	for _, line := range strings.Split(string(b), "\n") {
		line = strings.TrimSpace(line)
		if !strings.HasPrefix(line, "known:") {
			continue
		}
		var id, key string
		var rest []string
		for _, f := range strings.Fields(strings.TrimPrefix(line, "known:")) {
			switch {
			case strings.HasPrefix(f, "property=") && id == "":
				id = strings.TrimPrefix(f, "property=")
			case strings.HasPrefix(f, "key=") && key == "":
				key = strings.TrimPrefix(f, "key=")
			default:
				rest = append(rest, f)
			}
		}
		if id == "" || key == "" {
			continue
		}
		if out[id] == nil {
			out[id] = map[string]string{}
		}
		out[id][key] = strings.Join(rest, " ")
	}
	return out
}

func buildWorker(meta *propMeta) {
	if _, err := os.Stat(filepath.Join(harness, "cmd", "worker", "main.go")); err != nil {
		return
	}
	buildMu.Lock()
	defer buildMu.Unlock()
	lock, err := os.OpenFile(filepath.Join(build, "worker.lock"), os.O_CREATE|os.O_RDWR, 0o644)
	if err == nil {
		_ = syscall.Flock(int(lock.Fd()), syscall.LOCK_EX)
		defer func() { _ = syscall.Flock(int(lock.Fd()), syscall.LOCK_UN); lock.Close() }()
	}
	for _, race := range []bool{false, true} {
		if race && !(meta.Race || meta.RaceQuick > 0 || meta.RaceThorough > 0 || meta.RaceWorker) {
			continue
		}
		name := "worker"
		args := append([]string{"build"}, modfileArgs()...)
		if race {
			name = "worker.race"
			args = append(args, "-race")
		}
		args = append(args, "-o", filepath.Join(build, name), "./cmd/worker")
		cmd := exec.Command("go", args...)
		cmd.Dir = harness
		cmd.Env = goEnv()
		if out, err := cmd.CombinedOutput(); err != nil {
			fail2("building worker: %v\n%s", err, out)
		}
	}
}

func runFuzz(meta *propMeta) ([]map[string]any, string) {
	// filled in by fuzz.go-style targets; see runFuzzTargets
	return runFuzzTargets(meta)
}

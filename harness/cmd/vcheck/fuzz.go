package main

import (
	"bytes"
	"context"
	"fmt"
	"os"
	"os/exec"
	"path/filepath"
	"regexp"
	"strconv"
	"strings"
	"syscall"
	"time"
)

var execsRe = regexp.MustCompile(`execs: (\d+)`)
var newIntRe = regexp.MustCompile(`new interesting: (\d+) \(total: (\d+)\)`)

// runFuzzTargets runs the bounded native `go test -fuzz` campaigns of a property (thorough tier).
// Each target runs twice: from the seed corpus registered by f.Add (hostile constants and grammar
// samples) with the cached corpus of earlier campaigns, and it is reported with its exec count.
// A campaign cannot be pinned to a seed; the saved crasher is the reproducible unit. It returns one
// note per campaign for the evidence file and the path of a saved crasher ("" = none).
func runFuzzTargets(meta *propMeta) ([]map[string]any, string) {
	var notes []map[string]any
	crasher := ""
	seconds := meta.FuzzSeconds
	if s := os.Getenv("VERIF_FUZZ_SECONDS"); s != "" {
		if v, err := strconv.Atoi(s); err == nil {
			seconds = v
		}
	}
	if seconds <= 0 {
		seconds = 60
	}
	pkgDir := filepath.Join(harness, "checks")
	for _, target := range meta.FuzzTargets {
		corpusDir := filepath.Join(pkgDir, "testdata", "fuzz", target)
		before := listFiles(corpusDir)
		ctx, cancel := context.WithTimeout(context.Background(), time.Duration(seconds+240)*time.Second)
		cmd := exec.CommandContext(ctx, "go", append(append([]string{"test"}, modfileArgs()...), "-vet=off", "-run", "^$", "-fuzz", "^"+target+"$", "-fuzztime", fmt.Sprintf("%ds", seconds), "./checks")...)
		cmd.Dir = harness
		cmd.Env = append(goEnv(), "VERIF_ROOT="+root)
		cmd.SysProcAttr = &syscall.SysProcAttr{Setpgid: true}
		cmd.Cancel = func() error { return syscall.Kill(-cmd.Process.Pid, syscall.SIGKILL) }
		var buf bytes.Buffer
		cmd.Stdout, cmd.Stderr = &buf, &buf
		start := time.Now()
		err := cmd.Run()
		cancel()
		out := buf.String()
		note := map[string]any{"target": target, "seconds": int(time.Since(start).Seconds()), "budget_seconds": seconds}
		if m := execsRe.FindAllStringSubmatch(out, -1); len(m) > 0 {
			n, _ := strconv.Atoi(m[len(m)-1][1])
			note["execs"] = n
		}
		if m := newIntRe.FindAllStringSubmatch(out, -1); len(m) > 0 {
			n, _ := strconv.Atoi(m[len(m)-1][2])
			note["corpus_total"] = n
		}
		// new files under testdata/fuzz/<target> are crashers written by the fuzzer
		var fresh []string
		for f := range listFiles(corpusDir) {
			if !before[f] {
				fresh = append(fresh, f)
			}
		}
		switch {
		case len(fresh) > 0:
			note["result"] = "crasher found"
			dir := filepath.Join(root, "replay", meta.ID)
			os.MkdirAll(dir, 0o755)
			for _, f := range fresh {
				dst := filepath.Join(dir, "fuzz-"+target+"-"+filepath.Base(f)+".fuzz")
				if b, rerr := os.ReadFile(f); rerr == nil {
					os.WriteFile(dst, b, 0o644)
					os.WriteFile(strings.TrimSuffix(dst, ".fuzz")+".log", []byte(tail(out, 20000)), 0o644)
					if crasher == "" {
						crasher = dst
						fmt.Println("native fuzz target " + target + " found a failing input:\n" + tail(out, 3000))
					}
				}
				os.Remove(f)
			}
		case err != nil && ctx.Err() == context.DeadlineExceeded:
			note["result"] = "campaign killed after exceeding its wall-clock allowance (inconclusive)"
		case err != nil:
			// build failure or infrastructure problem: inconclusive, not a violation
			note["result"] = "campaign could not run: " + oneLine(tail(out, 600))
		default:
			note["result"] = "nothing found"
		}
		notes = append(notes, note)
	}
	return notes, crasher
}

func listFiles(dir string) map[string]bool {
	out := map[string]bool{}
	entries, err := os.ReadDir(dir)
	if err != nil {
		return out
	}
	for _, e := range entries {
		if !e.IsDir() {
			out[filepath.Join(dir, e.Name())] = true
		}
	}
	return out
}

// replayFuzz re-runs one saved fuzz input (replay/<id>/fuzz-<Target>-<name>.fuzz) through `go test`.
func replayFuzz(id string, path string) int {
	base := strings.TrimSuffix(filepath.Base(path), ".fuzz")
	parts := strings.SplitN(strings.TrimPrefix(base, "fuzz-"), "-", 2)
	if len(parts) != 2 {
		fail2("cannot derive the fuzz target from %s", path)
	}
	target, name := parts[0], parts[1]
	dir := filepath.Join(harness, "checks", "testdata", "fuzz", target)
	os.MkdirAll(dir, 0o755)
	dst := filepath.Join(dir, "replay-"+name)
	b, err := os.ReadFile(path)
	if err != nil {
		fail2("reading %s: %v", path, err)
	}
	if err := os.WriteFile(dst, b, 0o644); err != nil {
		fail2("writing %s: %v", dst, err)
	}
	defer os.Remove(dst)
	cmd := exec.Command("go", "test", "-vet=off", "-count=1", "-run", "^"+target+"$/^replay-"+regexp.QuoteMeta(name)+"$", "./checks")
	cmd.Dir = harness
	cmd.Env = append(goEnv(), "VERIF_ROOT="+root)
	out, err := cmd.CombinedOutput()
	if err == nil {
		fmt.Printf("replay %s: property held\n", path)
		return 0
	}
	fmt.Println(tail(string(out), 4000))
	fmt.Printf("VIOLATION property=%s replay=%s\n", id, path)
	return 1
}

package main

// runFuzzTargets runs the bounded native `go test -fuzz` campaigns of a property (thorough tier).
// It returns one note per campaign for the evidence file and the path of a saved crasher ("" = none).
func runFuzzTargets(meta *propMeta) ([]map[string]any, string) {
	return nil, ""
}

#!/usr/bin/env python3
"""Run every quick check against a behaviour-preserving change (false-alarm test).

usage: benigneval.py <dir> <name>

<dir>/out holds patch.diff, demo_test.go, meta.json written by an independent sub-agent that was asked to
change unspecified behaviour while keeping all 20 properties true. The patch is confirmed to apply, build
and keep the library suite green in a scratch worktree; every quick check is then run against that patched
copy (VERIF_REPO), /repo itself is not touched. Result: /verif/seeded/benign/<name>/{patch.diff,meta.json}.
"""
import json, os, shutil, subprocess, sys, time

ENV = dict(os.environ, GOFLAGS='-mod=mod', GOPROXY='off', GOSUMDB='off', GOTOOLCHAIN='local', VERIF_EVIDENCE_DIR='/tmp/verif-scratch-evidence')

def run(cmd, cwd=None, timeout=3600):
    p = subprocess.run(cmd, cwd=cwd, env=ENV, shell=isinstance(cmd, str), capture_output=True, text=True, errors='replace', timeout=timeout)
    return p.returncode, p.stdout + p.stderr

def main():
    d, name = sys.argv[1], sys.argv[2]
    out = os.path.join(d, 'out')
    meta = json.load(open(os.path.join(out, 'meta.json')))
    rec = {'theme': meta.get('theme'), 'summary': meta.get('summary'), 'visible_difference': meta.get('visible_difference'),
           'why_properties_hold': meta.get('why_properties_hold'), 'files': meta.get('files'), 'ran': []}
    # the patched copy lives in its own worktree; the checks are pointed at it with VERIF_REPO, so /repo is
    # never touched and several evaluations can run side by side
    wt = '/tmp/benigneval_wt_' + name
    run(['git', '-C', '/repo', 'worktree', 'remove', '--force', wt]); shutil.rmtree(wt, ignore_errors=True)
    rc, o = run(['git', '-C', '/repo', 'worktree', 'add', '--detach', wt, 'HEAD']); assert rc == 0, o
    alarms = []
    try:
        rc, o = run(['git', 'apply', '--3way', '--whitespace=nowarn', os.path.join(out, 'patch.diff')], cwd=wt)
        if rc != 0:
            print('PATCH DOES NOT APPLY', o[-800:]); return 1
        rc, diff = run(['git', 'diff', 'HEAD'], cwd=wt)
        rc, o = run('go build ./... && go test -vet=off -count=1 ./...', cwd=wt)
        rec['suite_passes'] = rc == 0
        if rc != 0:
            print('SUITE FAILS WITH PATCH', o[-800:]); return 1
        # a private copy of the harness (VERIF_ROOT): test binaries, the worker child and replay files of this
        # evaluation never meet those of a check that runs against /repo at the same time
        root = '/tmp/benigneval_root_' + name
        shutil.rmtree(root, ignore_errors=True); os.makedirs(root + '/bin')
        for item in ('harness', 'corpus', 'KNOWN_FINDINGS.txt', 'properties.jsonl'):
            src = os.path.join('/verif', item)
            (shutil.copytree if os.path.isdir(src) else shutil.copy)(src, os.path.join(root, item))
        rc, o = run(['go', 'build', '-o', root + '/bin/vcheck', './cmd/vcheck'], cwd=root + '/harness'); assert rc == 0, o
        env = dict(ENV, VERIF_REPO=wt, VERIF_ROOT=root, VERIF_EVIDENCE_DIR=root + '/evidence')
        for i in range(1, 21):
            p = 'C%02d' % i
            t0 = time.time()
            pr = subprocess.run([root + '/bin/vcheck', '-prop', p, '-tier', 'quick'], cwd=root, env=env, capture_output=True, text=True, errors='replace', timeout=3600)
            rc, o = pr.returncode, pr.stdout + pr.stderr
            text = o[o.index('VIOLATION-TEXT'):][:900] if 'VIOLATION-TEXT' in o else ''
            rec['ran'].append({'cmd': f'VERIF_REPO=<patched copy> ./bin/vcheck -prop {p} -tier quick', 'exit': rc, 'seconds': round(time.time() - t0, 1), 'excerpt': text or (o[-400:] if rc != 0 else '')})
            if rc != 0:
                alarms.append(p)
                print(name, p, 'exit', rc, (text or o[-600:])[:700], flush=True)
    finally:
        run(['git', '-C', '/repo', 'worktree', 'remove', '--force', wt]); shutil.rmtree(wt, ignore_errors=True)
        shutil.rmtree('/tmp/benigneval_root_' + name, ignore_errors=True)
    rec['alarms'] = alarms
    dst = os.path.join('/verif/seeded/benign', name)
    os.makedirs(dst, exist_ok=True)
    open(os.path.join(dst, 'patch.diff'), 'w').write(diff)
    json.dump(rec, open(os.path.join(dst, 'meta.json'), 'w'), indent=1)
    print(name, 'alarms:', alarms)
    return 0

if __name__ == '__main__':
    sys.exit(main())

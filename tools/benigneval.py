#!/usr/bin/env python3
"""Run every quick check against a behaviour-preserving change (false-alarm test).

usage: benigneval.py <dir> <name>

<dir>/out holds patch.diff, demo_test.go, meta.json written by an independent sub-agent that was asked to
change unspecified behaviour while keeping all 20 properties true. The patch is confirmed to apply, build
and keep the library suite green in a scratch worktree, then applied to /repo, every quick check is run,
and /repo is restored. Result: /verif/seeded/benign/<name>/{patch.diff,meta.json}.
"""
import json, os, shutil, subprocess, sys, time

ENV = dict(os.environ, GOFLAGS='-mod=mod', GOPROXY='off', GOSUMDB='off', GOTOOLCHAIN='local')

def run(cmd, cwd=None, timeout=3600):
    p = subprocess.run(cmd, cwd=cwd, env=ENV, shell=isinstance(cmd, str), capture_output=True, text=True, timeout=timeout)
    return p.returncode, p.stdout + p.stderr

def main():
    d, name = sys.argv[1], sys.argv[2]
    out = os.path.join(d, 'out')
    meta = json.load(open(os.path.join(out, 'meta.json')))
    rec = {'theme': meta.get('theme'), 'summary': meta.get('summary'), 'visible_difference': meta.get('visible_difference'),
           'why_properties_hold': meta.get('why_properties_hold'), 'files': meta.get('files'), 'ran': []}
    wt = '/tmp/benigneval_wt'
    run(['git', '-C', '/repo', 'worktree', 'remove', '--force', wt]); shutil.rmtree(wt, ignore_errors=True)
    rc, o = run(['git', '-C', '/repo', 'worktree', 'add', '--detach', wt, 'HEAD']); assert rc == 0, o
    try:
        rc, o = run(['git', 'apply', '--3way', '--whitespace=nowarn', os.path.join(out, 'patch.diff')], cwd=wt)
        if rc != 0:
            print('PATCH DOES NOT APPLY', o[-800:]); return 1
        rc, diff = run(['git', 'diff', 'HEAD'], cwd=wt)
        rc, o = run('go build ./... && go test -vet=off -count=1 ./...', cwd=wt)
        rec['suite_passes'] = rc == 0
        if rc != 0:
            print('SUITE FAILS WITH PATCH', o[-800:]); return 1
    finally:
        run(['git', '-C', '/repo', 'worktree', 'remove', '--force', wt]); shutil.rmtree(wt, ignore_errors=True)
    rc, st = run(['git', '-C', '/repo', 'status', '--porcelain']); assert st.strip() == '', st
    tmp = '/tmp/benigneval.diff'; open(tmp, 'w').write(diff)
    rc, o = run(['git', '-C', '/repo', 'apply', '--whitespace=nowarn', tmp]); assert rc == 0, o
    alarms = []
    try:
        for i in range(1, 21):
            p = 'C%02d' % i
            t0 = time.time()
            rc, o = run(['/verif/bin/vcheck', '-prop', p, '-tier', 'quick'], cwd='/verif')
            text = o[o.index('VIOLATION-TEXT'):][:900] if 'VIOLATION-TEXT' in o else ''
            rec['ran'].append({'cmd': f'./bin/vcheck -prop {p} -tier quick', 'exit': rc, 'seconds': round(time.time() - t0, 1), 'excerpt': text})
            if rc != 0:
                alarms.append(p)
                print(p, 'exit', rc, text[:600])
    finally:
        run(['git', '-C', '/repo', 'checkout', '--', '.'])
        rc, st = run(['git', '-C', '/repo', 'status', '--porcelain']); assert st.strip() == '', st
    rec['alarms'] = alarms
    dst = os.path.join('/verif/seeded/benign', name)
    os.makedirs(dst, exist_ok=True)
    open(os.path.join(dst, 'patch.diff'), 'w').write(diff)
    json.dump(rec, open(os.path.join(dst, 'meta.json'), 'w'), indent=1)
    print(name, 'alarms:', alarms)
    return 0

if __name__ == '__main__':
    sys.exit(main())

NOTES = ("Technique family: property-based testing and fuzzing only. Each check = rapid generator of JSON-serialisable cases + pure "
         "Check(case) oracle; failures are shrunk by rapid and saved as replay/<id>/<hash>.json (re-run without rapid by the replay command). "
         "KNOWN_FINDINGS.txt lists open findings (known:) and repaired defects (fixed:). VERIF_SEED selects the rapid seed.")
NOT_CLAIMED = {}
def claim(pid, technique, text, note, ref, category="exploration"):
    CLAIMED[pid] = dict(category=category, technique=technique, text=text, note=note, design_ref=ref)

claim("C01", "PBT (rapid): typed predicate grammar vs. independent reference filter + metamorphic negation/expansion laws",
      "Generated-input search: thousands of (table, predicate) pairs per run judged by a reference evaluator written from the statement, plus engine-vs-engine laws; held on everything explored, not a proof.",
      "Trusts the harness's reference evaluator and SQL renderer (renderer is cross-checked by echo round-trips); domain restricted to same-kind operands and no backslash in LIKE patterns as the statement leaves those open.",
      "DESIGN.md 4/C01")

claim("C02", "PBT (rapid): typed expression-tree grammar vs. independent float64 reference evaluator (row count, key set, values)",
      "Generated-input search: thousands of (table, select list, WHERE) triples per run judged by a reference evaluator written from the statement; held on everything explored, not a proof.",
      "Trusts the reference evaluator; division/modulo by zero, bitwise on negatives/fractions, arithmetic on arrays and unary operators on NULL are left out as unspecified; ~x accepted in both readings (and ~~x as the truncated or the rounded operand); paths through arrays of objects map over the elements.",
      "DESIGN.md 4/C02")
claim("C03", "PBT (rapid): grouped/whole-table aggregate query grammar vs. reference grouping in first-appearance order + conservation law + 3x re-execution",
      "Generated-input search with sequence equality against a reference group-by; three executions per case must agree; held on everything explored.",
      "Scalar grouping keys, aggregate arguments are plain columns, AVG/COUNT(col) only on non-nullable columns (statement).",
      "DESIGN.md 4/C03")
claim("C04", "PBT (rapid): join grammar vs. nested-loop reference multiset + metamorphic strategy/ON-permutation invariance; PARALLEL variants repeated, one shard under the race detector",
      "Generated-input search: every applicable join spelling (incl. hash and PARALLEL strategies) executed per case and compared with a nested-loop reference multiset; schedules are sampled by repetition, not enumerated.",
      "No NULL join keys; HASH_JOIN spellings only with pure equi ON; thread schedules are whatever the Go scheduler yields under repetition and -race.",
      "DESIGN.md 4/C04")
claim("C05", "PBT (rapid): ORDER BY/LIMIT/OFFSET grammar vs. validity predicates (permutation, adjacent-pair order, NULLs last, exact window arithmetic)",
      "Generated-input search with validity predicates (not one expected answer, ties may be ordered freely); held on everything explored.",
      "Tie order unchecked by design; NULL keys only with a single sort key. Also: output names that are aliases (fresh / swapped), two windows of one table in one statement, the window of a UNION ALL of the query with itself.",
      "DESIGN.md 4/C05")
claim("C06", "PBT (rapid): DISTINCT / UNION-chain grammar vs. reference first-occurrence dedup and left-associative union model",
      "Generated-input search against a reference model of DISTINCT and UNION [ALL] chains with optional LIMIT; held on everything explored.",
      "Same column kind per output column across branches; no ORDER BY on unions (DISTINCT may be ordered by a partial key: compared as multiset); branches may carry a LIMIT / OFFSET of their own.",
      "DESIGN.md 4/C06")
claim("C07", "PBT (rapid): metamorphic composed-vs-staged execution of CTEs/derived tables/subqueries + reference EXISTS",
      "Generated-input search: each composed query is compared with the staged evaluation over materialised intermediates executed by the same engine, so the oracle is independent of C01-C05 semantics; held on everything explored.",
      "Inner/outer queries come from a conservative grammar; outer and nested column names disjoint in EXISTS.",
      "DESIGN.md 4/C07")
claim("C08", "PBT (rapid): metamorphic leaf-wise execution of multi-dimensional FROM (nesting preserved, each leaf == query on that leaf, mix=> == concatenation)",
      "Generated-input search over ragged arrays of arrays (depth 2-3) with WHERE and projections; held on everything explored.",
      "Only WHERE + select list inside nested sources.",
      "DESIGN.md 4/C08")
claim("C09", "PBT (rapid): shape-directed selector generator vs. independent reference selector evaluator; invalid steps must error; totality + read-only + cache-independence on arbitrary strings; native go fuzz (thorough)",
      "Generated-input search: selectors derived from the document's shape (with ~15% deliberately invalid steps) judged by a reference evaluator of the documented grammar, arbitrary/mutated selector strings judged for totality and read-only-ness; held on everything explored.",
      "Meaning asserted only for the documented grammar (assumptions in the evidence file); arbitrary strings are only required to return without panic and without modifying the document. `{k|string}` on a fraction is judged as \"a decimal text of the number\" (parses back to within 5e-7 or 1e-12 relative), the number of digits shown being open.",
      "DESIGN.md 4/C09")

claim("C15", "PBT: exhaustive enumeration of a finite representative domain (all ordered pairs, all same-kind triples) + rapid random typed values vs. exact math/big rational oracle and algebraic laws",
      "Every run enumerates all ordered pairs and same-kind triples of a boundary-value domain over the 12 Go numeric types and strings, then searches random typed pairs/triples; oracle is exact rational comparison; exhaustive only over that finite domain.",
      "Float-vs-string pairs with |float| >= 10^6 are judged by the laws only (decimal text ambiguous); floats within |v| <= 2^53, 64-bit boundary integers only against integers and strings. A quarter of the random pairs also meet inside the engine (one-row equi joins in both plans, IN / NOT IN lists) and must pair / match exactly when the values are equal.",
      "DESIGN.md 4/C15")

claim("C16", "PBT (rapid): template grammar with decoys x hostile argument alphabet; oracle = library parser's canonical AST text of the sanitized query vs. the template with harness-rendered literals, echo round-trip through New/Exec, error cases",
      "Generated-input search over templates (1-4 placeholders, decoys in strings/identifiers/comments) and arguments over a quote-hostile alphabet; shape equality is judged by the library's own parser, echo by execution; held on everything explored.",
      "Placeholders are separated from neighbouring tokens; nested block comments, backslashes and CR inside comments are not generated; []byte and time.Time arguments are outside the statement.",
      "DESIGN.md 4/C16")

claim("C17", "PBT (rapid): metamorphic option+alternative-spelling vs. canonical-spelling execution over a query grammar with hostile literals/identifiers/aliases and nested arrays, all 7 non-empty option sets; literal echo oracle",
      "Generated-input search: each query is executed in the variant spelling under the options and in canonical spelling without them; rows must be identical (or both fail); held on everything explored.",
      "Identifier contents exclude the double quote in double-quoted spelling and the backtick always, and never end in a backslash (escaping there is unspecified).",
      "DESIGN.md 4/C17")

claim("C18", "PBT (rapid): per-function argument generators (scalars of every kind, arrays empty/nested/with NULLs, boundary indexes, unknown names, wrong arities, compositions) vs. reference implementations of the stated contracts; round-trip laws with opaque tokens; direct calls of the exported functions",
      "Generated-input search through `SELECT f(args) AS v` on two equal rows and through direct calls of the exported Go functions, judged by reference implementations written from the statement; held on everything explored.",
      "Open finding concat-null (CONCAT prints NULL as <nil>; pinned by the repository's own test) is routed and reported as KNOWN-FINDING; ELEMENTAT on empty arrays and unknown names accept NULL or error.",
      "DESIGN.md 4/C18")

claim("C20", "PBT (rapid), model-based: generated histories of queries sharing one variable map vs. a sequential register model (rows in source order, items left to right), map compared after every query",
      "Generated histories (1-5 queries, preset maps, read-modify-write patterns) replayed against a register model; every GETVAR column, the absence of SETVAR columns and the caller's map after each Exec are compared; held on everything explored.",
      "No ORDER BY/LIMIT/joins (evaluation order unspecified there); WHERE does not read variables. Registers also under look-alike names (7 / 07 / +7 ...), constants named like the registers, SETVAR inside CASE branches, grouped forms, union arms, values beyond 2^53.",
      "DESIGN.md 4/C20")

claim("C11", "PBT (rapid): 47 wide query constructs x Wrapped x injected part-way failures x re-execution; invariant = cycle-safe structural comparison of the live input against a deep snapshot",
      "Generated-input search over every clause/composition form of the grammar (filters, subqueries, EXISTS, CTEs, joins, ORDER BY, aggregates), with and without an injected failure at a generated invocation index; the input document is compared with a snapshot after New+Exec; held on everything explored.",
      "Fault positions are those where the engine accepts a function call; k is sampled per case here (C19 enumerates every k).",
      "DESIGN.md 4/C11")
claim("C12", "PBT: exhaustive 41-form x 19-position grid on fixed documents every run + rapid random documents/forms/positions/wide constructs; invariant = reflective plain-data walk + json.Marshal + re-execution equality",
      "Every run enumerates all (expression form, clause position) pairs on two fixed documents and then searches random documents; each successful result is walked reflectively for non-data values, marshalled, and the query is re-executed twice on fresh equal inputs; held on everything explored.",
      "ASYNC calls are placed only as direct select-list items (statement); combinations rejected by the engine with an error are counted separately; TIMESTAMP excluded from determinism.",
      "DESIGN.md 4/C12")
claim("C19", "Fault enumeration driven by PBT (rapid): for each generated (query, fault position) EVERY invocation index k=1..N of the injected function fails once; plus planted type errors and RAISE/RAISE_WHEN with engine-evaluated firing probe; oracle = error and no rows, follow-up queries on the same input equal pristine runs",
      "For each generated query and clause position the fault-free run counts N invocations and every k in 1..N (cap 64) is executed with the function failing at k; New/Exec must return an error and no rows, and follow-up queries on the same input object must behave as on a pristine copy.",
      "Positions where the engine rejects function calls (join ON, aggregate arguments under GROUP BY) cannot carry a fault and are discarded (counted); only synchronous calls, per the statement.",
      "DESIGN.md 4/C19", category="fault_enumeration")

claim("C14", "PBT (rapid) with harness-owned completion schedules: generated select lists of instrumented functions under none/ASYNC/SPINASYNC/SPIN/ONCE, release permutation enforced through a gate; observations at Exec return (invocation/completion counters) + reference values + metamorphic qualified-vs-unqualified equality; a shard under the race detector",
      "Generated-input search in which the harness owns the completion order of all asynchronous calls (arrival, reversed, random permutations); counters are read the moment Exec returns; held on everything explored. Goroutine schedules beyond the completion order are sampled, not enumerated.",
      "No LIMIT/OFFSET; failing ASYNC functions are C10's domain. Up to 40 rows x 5 gated calls in flight; arguments may read a register written per row (SETVAR first in the select list).",
      "DESIGN.md 4/C14")

claim("C10", "PBT (rapid) in a child process: grammar-valid queries x all 2^3 option sets, token mutations, byte strings, 125 hostile constants (also mutated), injected failing/panicking functions under every execution strategy at a generated invocation index, cyclic-format class; monitors = child exit status, Go fatal messages, confirmed watchdog; native go fuzz (thorough)",
      "Generated-input search: every case runs in a worker process that must answer ok or error and stay alive; deaths are confirmed in a fresh child, timeouts in three fresh children; held on everything explored. 'Never hangs' is only refutable.",
      "A returned error is always acceptable; crashes inside the third-party SQL parser would be reported too.",
      "DESIGN.md 4/C10")
claim("C13", "PBT (rapid) over concurrent batches executed in a child process built with the Go race detector: 2-8 goroutines behind a barrier, fresh/warm selector texts, separate/shared documents, internal parallelism, GOMAXPROCS in {1,2,4,16}; oracle = no race report/fatal error/hang + every result equals the same query run alone",
      "Generated batches of concurrent queries under the race detector; results are compared with sequential re-execution; interleavings are sampled through repetition, goroutine count and GOMAXPROCS, not enumerated; held on everything explored.",
      "The harness does not own the Go scheduler; a race on a path no batch executes, or an atomicity bug without a data race that needs one rare interleaving, can be missed.",
      "DESIGN.md 4/C13")

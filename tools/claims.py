NOTES = ("Technique family: property-based testing and fuzzing only. Each check = rapid generator of JSON-serialisable cases + pure "
         "Check(case) oracle; failures are shrunk by rapid and saved as replay/<id>/<hash>.json (re-run without rapid by the replay command). "
         "KNOWN_FINDINGS.txt lists open findings (known:) and repaired defects (fixed:). VERIF_SEED selects the rapid seed.")
NOT_CLAIMED = {}
def claim(pid, technique, text, note, ref, category="exploration"):
    CLAIMED[pid] = dict(category=category, technique=technique, text=text, note=note, design_ref=ref)

claim("C01", "PBT (rapid): typed predicate grammar vs. independent reference filter + metamorphic negation/expansion laws",
      "Generated-input search: thousands of (table, predicate) pairs per run judged by a reference evaluator written from the statement, plus engine-vs-engine laws; held on everything explored, not a proof.",
      "Trusts the harness's reference evaluator and SQL renderer (renderer is cross-checked by echo round-trips); domain restricted to same-kind operands and no backslash in LIKE patterns as the statement leaves those open.",
      "DESIGN.md 4/C01")

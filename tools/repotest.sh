#!/bin/bash
# runs /repo's own suite N times (default 3) with the offline Go environment; non-zero on any failure
export GOFLAGS=-mod=mod GOPROXY=off GOSUMDB=off GOTOOLCHAIN=local
cd /repo || exit 2
n=${1:-3}
for i in $(seq 1 $n); do
  out=$(go test -vet=off -count=1 ./... 2>&1) || { echo "$out" | grep -v "no test files" | head -40; echo "SUITE FAILED (run $i)"; exit 1; }
done
git -C /repo status --short | grep -v '^??' | head
echo "suite ok x$n"

#!/usr/bin/env python3
"""Regenerates /verif/MANIFEST.json from the table below (kept as a script so the file always validates)."""
import json, os, sys
ROOT = os.path.dirname(os.path.dirname(os.path.abspath(__file__)))
props = [json.loads(l) for l in open(os.path.join(ROOT, 'properties.jsonl'))]
titles = {p['id']: p['title'] for p in props}

# id -> (category, technique, level text, level note, design ref)
CLAIMED = {}
exec(open(os.path.join(ROOT, 'tools', 'claims.py')).read())

checks = []
na = []
for p in props:
    pid = p['id']
    if pid in CLAIMED:
        c = CLAIMED[pid]
        checks.append({
            "property_id": pid,
            "quick_cmd": f"./bin/vcheck -prop {pid} -tier quick",
            "thorough_cmd": f"./bin/vcheck -prop {pid} -tier thorough",
            "evidence_file": f"/verif/evidence/{pid}.json",
            "replay_cmd_template": f"./bin/vcheck -prop {pid} -replay {{path}}",
            "engine": "vcheck",
            "level_claimed": {"category": c["category"], "text": c["text"], "design_ref": c["design_ref"]},
            "level_note": c["note"],
            "technique": c["technique"],
        })
    else:
        na.append({"property_id": pid, "reason": NOT_CLAIMED.get(pid, "check not built yet in this session; planned in DESIGN.md section 4")})

manifest = {
    "version": 1,
    "setup_cmd": "cd /verif/harness && GOFLAGS=-mod=mod GOPROXY=off GOSUMDB=off GOTOOLCHAIN=local go build -o /verif/bin/vcheck ./cmd/vcheck",
    "hooks": {
        "guard": "verif",
        "enable": "no hooks are needed: every check drives the public API only (go build tag `verif` is reserved and unused)",
        "baseline_off_cmd": "cd /repo && go test -vet=off -count=1 ./...",
        "source_commits": [],
        "add_only": True,
    },
    "engines": [{
        "name": "vcheck",
        "path": "/verif/harness",
        "serves_properties": [c["property_id"] for c in checks],
        "kind_free_text": "Go driver + rapid v1.3.0 property-based tests (structured/stateful generation, shrinking), Go race detector as monitor, native go test -fuzz campaigns in the thorough tier; independent reference models written from the property statements",
    }],
    "checks": checks,
    "not_applicable": na,
    "notes": NOTES,
}
json.dump(manifest, open(os.path.join(ROOT, 'MANIFEST.json'), 'w'), indent=1)
print("claimed", len(checks), "not claimed", len(na))

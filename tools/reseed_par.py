#!/usr/bin/env python3
"""Parallel regression run over the stored seeded defects (the serial one is tools/reseed.py).

usage: reseed_par.py [-j N] [name-glob ...]      (default: 8 slots, all of seeded/C??-?)

Each slot owns a private copy of the harness (VERIF_ROOT, so that test binaries, the worker child and replay
files of different slots never meet) and a scratch worktree of /repo's HEAD under /tmp/reseed/<slot>/ (VERIF_REPO);
a seed's patch is applied to that worktree, the quick check of the properties that caught it is run against it, and
the worktree is reset. /repo itself is never touched, so this can run next to other work. Everything under
/tmp/reseed is removed at the end. Exits 1 if a stored seed is no longer caught.
"""
import fnmatch, glob, json, os, shutil, subprocess, sys, threading, time

ENV = dict(os.environ, GOFLAGS='-mod=mod', GOPROXY='off', GOSUMDB='off', GOTOOLCHAIN='local')
BASE = '/tmp/reseed'

def run(cmd, cwd=None, env=None, timeout=3600):
    p = subprocess.run(cmd, cwd=cwd, env=env or ENV, capture_output=True, text=True, errors='replace', timeout=timeout)
    return p.returncode, p.stdout + p.stderr

def slot_setup(k):
    d = os.path.join(BASE, str(k))
    shutil.rmtree(d, ignore_errors=True)
    os.makedirs(d)
    root, wt = os.path.join(d, 'verif'), os.path.join(d, 'repo')
    os.makedirs(root)
    for item in ('harness', 'corpus', 'KNOWN_FINDINGS.txt', 'properties.jsonl'):
        src = os.path.join('/verif', item)
        if os.path.isdir(src):
            shutil.copytree(src, os.path.join(root, item))
        else:
            shutil.copy(src, os.path.join(root, item))
    rc, o = run(['git', '-C', '/repo', 'worktree', 'add', '--detach', wt, 'HEAD']); assert rc == 0, o
    os.makedirs(os.path.join(root, 'bin'))
    rc, o = run(['go', 'build', '-o', os.path.join(root, 'bin', 'vcheck'), './cmd/vcheck'], cwd=os.path.join(root, 'harness')); assert rc == 0, o
    return root, wt

def worker(k, names, results, lock):
    root, wt = slot_setup(k)
    env = dict(ENV, VERIF_ROOT=root, VERIF_REPO=wt, VERIF_EVIDENCE_DIR=os.path.join(BASE, str(k), 'evidence'))
    for name in names:
        d = os.path.join('/verif/seeded', name)
        meta = json.load(open(os.path.join(d, 'meta.json')))
        props = meta.get('caught_by') or [meta['property']]
        rc, o = run(['git', 'apply', '--whitespace=nowarn', os.path.join(d, 'patch.diff')], cwd=wt)
        if rc != 0:
            rc, o = run(['git', 'apply', '--3way', '--whitespace=nowarn', os.path.join(d, 'patch.diff')], cwd=wt)
        status, caught = 'ok', []
        if rc != 0:
            status = 'patch-does-not-apply'
        else:
            for p in props:
                rc, o = run([os.path.join(root, 'bin', 'vcheck'), '-prop', p, '-tier', 'quick'], cwd=root, env=env)
                if rc == 1 and 'VIOLATION property=' + p in o:
                    caught.append(p)
                elif rc != 0:
                    status = 'inconclusive: ' + o[-200:]
        run(['git', 'reset', '-q', '--hard', 'HEAD'], cwd=wt)
        run(['git', 'clean', '-fdq'], cwd=wt)
        with lock:
            results[name] = (status, caught)
            print(name, status if status != 'ok' else '', 'caught by', caught, flush=True)
    run(['git', '-C', '/repo', 'worktree', 'remove', '--force', wt])

def main():
    args, j = sys.argv[1:], 8
    if args[:1] == ['-j']:
        j, args = int(args[1]), args[2:]
    pats = args or ['C??-?']
    names = []
    for d in sorted(glob.glob('/verif/seeded/C??-?')):
        name = os.path.basename(d)
        if not any(fnmatch.fnmatch(name, pat) for pat in pats):
            continue
        meta = json.load(open(os.path.join(d, 'meta.json')))
        if meta.get('not_caught_reason'):
            print(name, 'skipped: recorded as not caught (' + meta['not_caught_reason'] + ')'); continue
        names.append(name)
    # the slow properties (C04, C10, C13) are spread over the slots
    names.sort(key=lambda n: (n[:3] not in ('C04', 'C10', 'C13'), n))
    results, lock, threads = {}, threading.Lock(), []
    t0 = time.time()
    for k in range(j):
        share = names[k::j]
        if share:
            th = threading.Thread(target=worker, args=(k, share, results, lock)); th.start(); threads.append(th)
    for th in threads:
        th.join()
    run(['git', '-C', '/repo', 'worktree', 'prune'])
    shutil.rmtree(BASE, ignore_errors=True)
    lost = sorted(n for n, (s, c) in results.items() if s == 'ok' and not c)
    unsure = sorted(n for n, (s, c) in results.items() if s.startswith('inconclusive') and not c)
    skipped = sorted(n for n, (s, c) in results.items() if s == 'patch-does-not-apply')
    print('%d seeds re-run in %.0f s on %d slots, %d no longer caught %s, %d inconclusive %s, %d patches no longer apply %s' % (len(results), time.time() - t0, j, len(lost), lost, len(unsure), unsure, len(skipped), skipped))
    return 1 if lost or unsure else 0

if __name__ == '__main__':
    sys.exit(main())

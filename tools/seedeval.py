#!/usr/bin/env python3
"""Evaluate one seeded defect produced by an independent sub-agent.

usage: seedeval.py <seed-dir> <name> [--props C01,C11] [--tier quick]

<seed-dir>/out must hold patch.diff, demo_test.go, meta.json. The script
  1. confirms, in a scratch worktree of /repo's HEAD outside /repo and /verif, that the patch applies,
     the library builds, its own suite passes with the patch, the demo FAILS with the patch and PASSES
     without it;
  2. applies the patch to /repo's working tree, runs the quick check of the target property (and of
     any extra properties given), and restores /repo straight afterwards (git checkout -- .);
  3. stores patch, demo and a meta.json with everything that was run under /verif/seeded/<name>/.
Nothing is ever committed in /repo.
"""
import json, os, shutil, subprocess, sys, time

ENV = dict(os.environ, GOFLAGS='-mod=mod', GOPROXY='off', GOSUMDB='off', GOTOOLCHAIN='local', VERIF_EVIDENCE_DIR='/tmp/verif-scratch-evidence')

def run(cmd, cwd=None, timeout=1800):
    p = subprocess.run(cmd, cwd=cwd, env=ENV, shell=isinstance(cmd, str), capture_output=True, text=True, errors='replace', timeout=timeout)
    return p.returncode, (p.stdout + p.stderr)

def main():
    seed, name = sys.argv[1], sys.argv[2]
    props, tier, race = None, 'quick', ''
    args = sys.argv[3:]
    while args:
        a = args.pop(0)
        if a == '--props': props = args.pop(0).split(',')
        elif a == '--tier': tier = args.pop(0)
        elif a == '--race': race = '-race '
    out = os.path.join(seed, 'out')
    meta = json.load(open(os.path.join(out, 'meta.json')))
    target = meta.get('property')
    if props is None: props = [target]
    patch = os.path.join(out, 'patch.diff')
    demo = os.path.join(out, 'demo_test.go')
    demo_dir = meta.get('demo_package_dir', '.') or '.'
    rec = {'property': target, 'summary': meta.get('summary'), 'needs': meta.get('needs'), 'files': meta.get('files'),
           'origin': 'independent sub-agent given only the property text and a scratch worktree', 'ran': [], 'demo_cmd': 'go test ' + race + '-vet=off -count=1 -run TestSeededDemo . (demo_test.go copied into ' + demo_dir + ')'}

    # 1. confirmation in a scratch worktree
    wt = '/tmp/seedeval_wt'
    run(['git', '-C', '/repo', 'worktree', 'remove', '--force', wt])
    shutil.rmtree(wt, ignore_errors=True)
    rc, o = run(['git', '-C', '/repo', 'worktree', 'add', '--detach', wt, 'HEAD'])
    assert rc == 0, o
    try:
        rc, o = run(['git', 'apply', '--whitespace=nowarn', patch], cwd=wt)
        if rc != 0:
            rc, o = run(['git', 'apply', '--3way', '--whitespace=nowarn', patch], cwd=wt)
        rec['patch_applies'] = rc == 0
        if rc != 0:
            print('PATCH DOES NOT APPLY\n' + o); rec['apply_output'] = o[-2000:]
            return finish(rec, name, patch, demo, keep=False)
        # refresh the patch against the current HEAD
        rc, newdiff = run(['git', 'diff'], cwd=wt)
        rc, o = run('go build ./... ', cwd=wt)
        rec['builds'] = rc == 0
        rc, o = run('go test -vet=off -count=1 ./...', cwd=wt)
        rec['suite_passes_with_patch'] = rc == 0
        if rc != 0: rec['suite_output'] = o[-1500:]
        shutil.copy(demo, os.path.join(wt, demo_dir, 'zz_seeded_demo_test.go'))
        rc, o = run('go test ' + race + '-vet=off -count=1 -run TestSeededDemo .', cwd=os.path.join(wt, demo_dir))
        rec['demo_fails_with_patch'] = rc != 0
        rec['demo_output_with_patch'] = o[-1200:]
        run(['git', 'checkout', '--', '.'], cwd=wt)
        rc, o = run('go test ' + race + '-vet=off -count=1 -run TestSeededDemo .', cwd=os.path.join(wt, demo_dir))
        rec['demo_passes_without_patch'] = rc == 0
        if rc != 0: rec['demo_output_without_patch'] = o[-1200:]
    finally:
        run(['git', '-C', '/repo', 'worktree', 'remove', '--force', wt])
        shutil.rmtree(wt, ignore_errors=True)
    confirmed = rec.get('builds') and rec.get('suite_passes_with_patch') and rec.get('demo_fails_with_patch') and rec.get('demo_passes_without_patch')
    rec['confirmed'] = bool(confirmed)
    print('confirmed' if confirmed else 'NOT CONFIRMED', {k: rec.get(k) for k in ('builds', 'suite_passes_with_patch', 'demo_fails_with_patch', 'demo_passes_without_patch')})
    if not confirmed:
        return finish(rec, name, patch, demo, keep=False, diff=newdiff)

    # 2. run the checks against the patched /repo
    rc, st = run(['git', '-C', '/repo', 'status', '--porcelain'])
    assert st.strip() == '', '/repo working tree is not clean: ' + st
    tmp = '/tmp/seedeval_patch.diff'
    open(tmp, 'w').write(newdiff)
    rc, o = run(['git', '-C', '/repo', 'apply', '--whitespace=nowarn', tmp])
    assert rc == 0, o
    try:
        for p in props:
            t0 = time.time()
            rc, o = run(['/verif/bin/vcheck', '-prop', p, '-tier', tier], cwd='/verif', timeout=3600)
            viol = [l for l in o.splitlines() if l.startswith('VIOLATION ')]
            text = ''
            if 'VIOLATION-TEXT' in o:
                text = o[o.index('VIOLATION-TEXT'):][:700]
            rec['ran'].append({'cmd': f'./bin/vcheck -prop {p} -tier {tier}', 'exit': rc, 'seconds': round(time.time() - t0, 1), 'violation_line': viol[:1], 'excerpt': text})
            print(p, 'exit', rc, viol[:1])
    finally:
        run(['git', '-C', '/repo', 'checkout', '--', '.'])
        rc, st = run(['git', '-C', '/repo', 'status', '--porcelain'])
        assert st.strip() == '', '/repo not restored: ' + st
    rec['caught_by'] = [r['cmd'].split()[2] for r in rec['ran'] if r['exit'] == 1]
    rec['caught'] = target in rec['caught_by']
    return finish(rec, name, patch, demo, keep=True, diff=newdiff)

def finish(rec, name, patch, demo, keep, diff=None):
    d = os.path.join('/verif/seeded', name)
    if keep:
        os.makedirs(d, exist_ok=True)
        if diff is not None:
            open(os.path.join(d, 'patch.diff'), 'w').write(diff)
        else:
            shutil.copy(patch, os.path.join(d, 'patch.diff'))
        shutil.copy(demo, os.path.join(d, 'demo_test.go'))
        json.dump(rec, open(os.path.join(d, 'meta.json'), 'w'), indent=1)
        print('stored', d, 'caught=' + str(rec.get('caught')), 'by', rec.get('caught_by'))
    else:
        os.makedirs('/tmp/seed/rejected', exist_ok=True)
        json.dump(rec, open(os.path.join('/tmp/seed/rejected', name + '.json'), 'w'), indent=1)
        print('rejected', name)
    return 0

if __name__ == '__main__':
    sys.exit(main())

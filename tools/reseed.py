#!/usr/bin/env python3
"""Regression run over the stored seeded defects: every /verif/seeded/C??-?/patch.diff is applied to
/repo's working tree in turn, the quick check of its property is run with the current harness, and
/repo is restored. Prints one line per seed and a summary; exits 1 if a stored seed is no longer caught.

usage: reseed.py [name-glob ...]      (default: all of seeded/C??-?)
Nothing is committed in /repo; do not run other checks against /repo meanwhile.
"""
import fnmatch, glob, json, os, subprocess, sys, time

ENV = dict(os.environ, GOFLAGS='-mod=mod', GOPROXY='off', GOSUMDB='off', GOTOOLCHAIN='local', VERIF_EVIDENCE_DIR='/tmp/verif-scratch-evidence')

def run(cmd, cwd=None, timeout=3600):
    p = subprocess.run(cmd, cwd=cwd, env=ENV, capture_output=True, text=True, errors='replace', timeout=timeout)
    return p.returncode, p.stdout + p.stderr

def main():
    pats = sys.argv[1:] or ['C??-?']
    rc, st = run(['git', '-C', '/repo', 'status', '--porcelain'])
    assert st.strip() == '', '/repo is not clean:\n' + st
    lost, skipped, unsure, n = [], [], [], 0
    for d in sorted(glob.glob('/verif/seeded/C??-?')):
        name = os.path.basename(d)
        if not any(fnmatch.fnmatch(name, pat) for pat in pats):
            continue
        meta = json.load(open(os.path.join(d, 'meta.json')))
        if meta.get('not_caught_reason'):
            print(name, 'skipped: recorded as not caught (' + meta['not_caught_reason'] + ')'); continue
        props = meta.get('caught_by') or [meta['property']]
        patch = os.path.join(d, 'patch.diff')
        rc, o = run(['git', '-C', '/repo', 'apply', '--whitespace=nowarn', patch])
        if rc != 0:
            rc, o = run(['git', '-C', '/repo', 'apply', '--3way', '--whitespace=nowarn', patch])
        if rc != 0:
            run(['git', '-C', '/repo', 'reset', '-q', '--hard', 'HEAD'])  # also clears a half-applied 3-way merge
            skipped.append(name)
            print(name, 'PATCH NO LONGER APPLIES'); continue
        caught = []
        try:
            for p in props:
                t0 = time.time()
                rc, o = run(['/verif/bin/vcheck', '-prop', p, '-tier', 'quick'], cwd='/verif')
                if rc == 1 and 'VIOLATION property=' + p in o:
                    caught.append(p)
                elif rc != 0:
                    unsure.append(name)
                    print(name, p, 'exit', rc, o[-300:])
        finally:
            run(['git', '-C', '/repo', 'reset', '-q'])
            run(['git', '-C', '/repo', 'checkout', '--', '.'])
            run(['git', '-C', '/repo', 'clean', '-fdq'])
        n += 1
        print(name, 'caught by', caught, flush=True)
        if not caught and name not in unsure:
            lost.append(name)
    rc, st = run(['git', '-C', '/repo', 'status', '--porcelain'])
    assert st.strip() == '', st
    print('%d seeds re-run, %d no longer caught %s, %d inconclusive (check exited 2) %s, %d patches no longer apply %s' % (n, len(lost), lost, len(unsure), unsure, len(skipped), skipped))
    return 1 if lost or unsure else 0

if __name__ == '__main__':
    sys.exit(main())

#!/usr/bin/env python3
"""Prints the DESIGN.md table of one round of seeded defects: roundtable.py <letter>"""
import glob, json, sys
r = sys.argv[1]
print('| seed | what it changes (excerpt) | what it needs (excerpt) | caught by (quick tier) | note |')
print('|---|---|---|---|---|')
def cell(s): return (s or '').replace('|', '\\|').replace('\n', ' ')[:110]
for f in sorted(glob.glob(f'/verif/seeded/C??-{r}/meta.json')):
    m = json.load(open(f)); name = f.split('/')[3]
    note = 'missed at first' if m.get('first_evaluation') else ''
    if m.get('not_caught_reason'): note = 'left open: ' + m['not_caught_reason']
    print(f"| {name} | {cell(m.get('summary'))} | {cell(m.get('needs'))} | {', '.join(m.get('caught_by') or []) or '-'} | {note} |")

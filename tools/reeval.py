#!/usr/bin/env python3
"""Re-evaluate seeds that were missed at first, keeping the record of the first evaluation.
usage: reeval.py <round letter> <harness-of-round-before> <Cxx> [<Cxx> ...]   (seed dirs /tmp/seed/<round>/<Cxx>)"""
import json, subprocess, sys
r, before, ids = sys.argv[1], sys.argv[2], sys.argv[3:]
for p in ids:
    f = f'/verif/seeded/{p}-{r}/meta.json'
    first = json.load(open(f))
    if first.get('caught') and not first.get('first_evaluation'):
        print(p, 'was caught at once; skipped'); continue
    extra = ['--race'] if 'race' in (first.get('demo_cmd') or '') else []
    out = subprocess.run(['python3', '/verif/tools/seedeval.py', f'/tmp/seed/{r}/{p}', f'{p}-{r}'] + extra, capture_output=True, text=True)
    m = json.load(open(f))
    old = [x for x in first['ran'] if 'note' not in x] if first.get('first_evaluation') else first['ran']
    m['ran'] = old + [dict(x, note=f'after the generator / oracle extensions of round {r}') for x in m['ran']]
    m['first_evaluation'] = f'missed by the harness of round {before}'
    json.dump(m, open(f, 'w'), indent=1)
    print(p, 'caught' if m['caught'] else 'STILL MISSED', m['caught_by'], flush=True)
